#!/bin/bash
# usage: [DEMO=1] [PATCH=file] tools/try_seed.sh <dir with patch.diff [run.sh]> <PROP> [more props...]
# Applies the patch to a scratch copy of /repo's sources (never to /repo itself), runs the quick checks on that copy and
# optionally the demo (patched and clean), then removes the copy.
D=$(readlink -f "$1"); shift
PATCH=${PATCH:-$D/patch.diff}
S=$(mktemp -d /tmp/qv-seedtree-XXXXXX)
trap 'rm -rf "$S"' EXIT
cp -r /repo/src /repo/include /repo/CMakeLists.txt "$S"/ 2>/dev/null
cp -r /repo/tests "$S"/ 2>/dev/null
if ! (cd / && git apply --unsafe-paths --directory="$S" "$PATCH" 2>/tmp/apply.err); then echo "PATCH DOES NOT APPLY"; cat /tmp/apply.err; exit 3; fi
cd /verif
for P in "$@"; do
  QV_EVIDENCE_DIR=/tmp/qv-evidence-scratch/$P python3 run.py check $P --root "$S" > /tmp/seed_$P.out 2>&1; rc=$?
  echo "== $P rc=$rc"; grep -E "^DIAG|ANALYSIS-BROKEN" /tmp/seed_$P.out | cut -c1-300
done
if [ -n "$DEMO" ] && [ -x "$D/run.sh" ]; then
  (cd "$D" && timeout 900 ./run.sh "$S" >/tmp/seed_demo.out 2>&1; echo "demo(patched) rc=$?")
  (cd "$D" && timeout 900 ./run.sh /repo >/tmp/seed_demo0.out 2>&1; echo "demo(clean) rc=$?")
fi
exit 0
