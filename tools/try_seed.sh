#!/bin/bash
# usage: [DEMO=1] [PATCH=file] tools/try_seed.sh <dir with patch.diff [run.sh]> <PROP> [more props...]
# Applies the patch to /repo, runs the quick checks, optionally the demo, and reverts.
D=$1; shift
PATCH=${PATCH:-$D/patch.diff}
cd /repo || exit 2
if ! git diff --quiet; then echo "/repo has local changes - refusing"; exit 2; fi
if ! git apply --check "$PATCH" 2>/tmp/apply.err; then echo "PATCH DOES NOT APPLY"; cat /tmp/apply.err; exit 3; fi
git apply "$PATCH"
cd /verif
for P in "$@"; do
  QV_EVIDENCE_DIR=/tmp/qv-evidence-scratch python3 run.py check $P --root /repo > /tmp/seed_$P.out 2>&1; rc=$?
  echo "== $P rc=$rc"; grep -E "^DIAG|ANALYSIS-BROKEN" /tmp/seed_$P.out | cut -c1-300
done
if [ -n "$DEMO" ] && [ -x "$D/run.sh" ]; then (cd "$D" && timeout 900 ./run.sh /repo >/tmp/seed_demo.out 2>&1; echo "demo(patched) rc=$?"); fi
git -C /repo checkout -- . ; git -C /repo status --short | grep -v "^??"
if [ -n "$DEMO" ] && [ -x "$D/run.sh" ]; then (cd "$D" && timeout 900 ./run.sh /repo >/tmp/seed_demo0.out 2>&1; echo "demo(clean) rc=$?"); fi
exit 0
