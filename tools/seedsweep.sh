#!/bin/bash
# usage: seedsweep.sh PROP...  : run every saved seed of these props (by detect_with/property) on scratch copies in parallel
cd /verif
for d in seeded/*/; do
  id=$(basename $d); prop=$(python3 -c "import json;m=json.load(open('$d/meta.json'));print(m.get('detect_with') or m['property'])")
  match=0; for p in "$@"; do [ "$p" = "$prop" ] && match=1; done
  [ $match = 1 ] || continue
  (
  S=$(mktemp -d /tmp/qv-sweep-XXXXXX)
  cp -r /repo/src /repo/include /repo/CMakeLists.txt "$S"/
  if (cd / && git apply --unsafe-paths --directory="$S" /verif/$d/patch.diff 2>/dev/null); then
    QV_EVIDENCE_DIR=/tmp/qv-evidence-scratch/sw-$id python3 run.py check $prop --root "$S" > /tmp/sw_$id.out 2>&1; rc=$?
  else rc=apply-fail; fi
  miss=""; python3 -c "import json,sys;sys.exit(0 if 'NOT DETECTED' in json.load(open('$d/meta.json'))['detected_by'] else 1)" && miss="(documented miss)"
  echo "$id $prop rc=$rc $miss"
  rm -rf "$S"
  ) &
  while [ $(jobs -r | wc -l) -ge 14 ]; do sleep 0.3; done
done
wait
