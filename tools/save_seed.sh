#!/bin/bash
# usage: tools/save_seed.sh <ID> <srcdir> <PROP> "<needs>" "<detected_by>" [first_run]
d=/verif/seeded/$1; mkdir -p $d; cp $2/patch.diff $d/patch.diff; for f in $2/*.c $2/*.h $2/run.sh $2/notes.md; do [ -f "$f" ] && cp $f $d/; done
python3 - "$1" "$3" "$4" "$5" "$d" "${6:-}" <<'P'
import json,sys,subprocess
sid,prop,needs,det,d,first=sys.argv[1:7]
head=subprocess.check_output(['git','-C','/repo','rev-parse','--short','HEAD']).decode().strip()
m={'id':sid,'property':prop,'breaks':prop,'needs_to_manifest':needs,'base_commit':head,
 'ran':['git -C /repo apply seeded/%s/patch.diff'%sid,'seeded/%s/run.sh /repo  (exit non-zero with the patch, 0 without: confirmed here)'%sid,
        'python3 run.py check %s --tier quick'%prop,'existing test suite passes with the patch (verified by the authoring sub-agent)','git -C /repo checkout -- .'],
 'detected_by':det,'origin':'independent sub-agent given only the property text and a scratch worktree'}
if first: m['first_run']=first
import os
if os.environ.get('DETECT'): m['detect_with']=os.environ['DETECT']
json.dump(m,open(d+'/meta.json','w'),indent=1)
P
