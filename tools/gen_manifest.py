#!/usr/bin/env python3
"""Generate /verif/MANIFEST.json from qv/meta.py and validate it against the schema."""
import json, os, sys
HERE = os.path.dirname(os.path.dirname(os.path.abspath(__file__)))
sys.path.insert(0, HERE)
from qv import meta

ids = [json.loads(l)['id'] for l in open(os.path.join(HERE, 'properties.jsonl'))]
checks = []
na = []
for pid in ids:
    if pid in meta.CHECKS:
        c = meta.CHECKS[pid]
        checks.append({
            'property_id': pid,
            'quick_cmd': 'python3 run.py check %s --tier quick' % pid,
            'thorough_cmd': 'python3 run.py check %s --tier thorough' % pid,
            'evidence_file': '/verif/evidence/%s.json' % pid,
            'replay_cmd_template': 'python3 run.py --replay {path}',
            'engine': 'qv',
            'level_claimed': {'category': c['category'], 'text': c['text'], 'design_ref': c['design_ref']},
            'level_note': c['note'],
            'technique': c['technique'],
        })
    else:
        na.append({'property_id': pid, 'reason': meta.NA.get(pid, meta.PENDING)})
m = {
    'version': 1,
    'setup_cmd': 'python3 tools/setup_check.py',
    'hooks': {
        'guard': 'QLIBC_VERIF',
        'enable': 'none needed: the analyses read unmodified source; -DQLIBC_VERIF is passed on the analysis command line so a future hook would be seen',
        'baseline_off_cmd': 'cmake -G Ninja -S /repo -B /repo/_build -DCMAKE_BUILD_TYPE=RelWithDebInfo && cmake --build /repo/_build && ctest --test-dir /repo/_build -j8 --timeout 900',
        'source_commits': [],
        'add_only': True,
    },
    'engines': [{
        'name': 'qv', 'path': '/verif/qv',
        'serves_properties': sorted(meta.CHECKS),
        'kind_free_text': 'repository-specific static analyser in Python over clang-14 JSON ASTs of every compiled unit: '
                          'own CFG builder, method-table call resolution, interprocedural summaries, and per-property rule engines',
    }],
    'checks': checks,
    'not_applicable': na,
    'notes': 'Technique family: static analysis only. Every check parses /repo\'s current working tree with clang on each run. '
             'Exit 0 = all obligations held (KNOWN-FINDING lines for listed defects), 1 = VIOLATION, 2 = analysis broken '
             '(unit fails to parse, anchor vanished, rule instance count below its confirmed floor). Partial claims decide the '
             'structural clause named in level_claimed.text, not the whole behaviour; see DESIGN.md.',
}
out = os.path.join(HERE, 'MANIFEST.json')
json.dump(m, open(out, 'w'), indent=1)
try:
    import jsonschema
    jsonschema.validate(m, json.load(open('/root/.vp/MANIFEST.schema.json')))
    print('MANIFEST.json valid: %d checks, %d n/a' % (len(checks), len(na)))
except ImportError:
    print('MANIFEST.json written (jsonschema not importable here): %d checks, %d n/a' % (len(checks), len(na)))
