#!/bin/bash
# usage: tools/try_refactor.sh <patch.diff>   -> applies to a scratch copy of /repo's sources, runs every check (quick) in parallel
# on that copy, prints any alarm, removes the copy.  /repo itself is never touched.
P=$(readlink -f "$1")
S=$(mktemp -d /tmp/qv-rftree-XXXXXX)
trap 'rm -rf "$S"' EXIT
cp -r /repo/src /repo/include /repo/CMakeLists.txt "$S"/
if ! (cd / && git apply --unsafe-paths --directory="$S" "$P" 2>/tmp/apply.err); then echo "DOES NOT APPLY: $(head -2 /tmp/apply.err)"; exit 3; fi
cd /verif
for p in $(python3 run.py list); do
  ( QV_EVIDENCE_DIR=/tmp/qv-evidence-scratch/rf-$p python3 run.py check $p --root "$S" > /tmp/rf_$p.out 2>&1; echo $? > /tmp/rf_$p.rc ) &
done
wait
for p in $(python3 run.py list); do
  rc=$(cat /tmp/rf_$p.rc)
  if [ "$rc" != "0" ]; then echo "  ALARM $p rc=$rc"; grep -E "^DIAG|ANALYSIS-BROKEN|Traceback|Error" /tmp/rf_$p.out | cut -c1-260 | head -6; fi
done
exit 0
