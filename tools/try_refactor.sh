#!/bin/bash
# usage: tools/try_refactor.sh <patch.diff>   -> applies to /repo, runs every check (quick), reverts; prints any alarm
P=$1
cd /repo || exit 2
git diff --quiet || { echo "/repo dirty"; exit 2; }
git apply --check "$P" 2>/tmp/apply.err || { echo "DOES NOT APPLY: $(head -2 /tmp/apply.err)"; exit 3; }
git apply "$P"
cd /verif
for p in $(python3 run.py list); do
  QV_EVIDENCE_DIR=/tmp/qv-evidence-scratch python3 run.py check $p > /tmp/rf_$p.out 2>&1; rc=$?
  if [ $rc -ne 0 ]; then echo "  ALARM $p rc=$rc"; grep -E "^DIAG|ANALYSIS-BROKEN|Traceback|Error" /tmp/rf_$p.out | cut -c1-260 | head -6; fi
done
git -C /repo checkout -- .
