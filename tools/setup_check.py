#!/usr/bin/env python3
"""setup_cmd: nothing to build (pure Python over clang); verify the tools are present."""
import shutil, subprocess, sys
for t in ('clang',):
    if not shutil.which(t):
        print('missing tool: %s' % t); sys.exit(1)
v = subprocess.run(['clang', '--version'], capture_output=True, text=True).stdout.splitlines()[0]
print('ok:', v, '| python', sys.version.split()[0])
