#!/usr/bin/env python3
"""Print the sub-agent prompt for a property id and worktree (only the property text is given)."""
import json, sys
pid, wt, out, n = sys.argv[1], sys.argv[2], sys.argv[3], sys.argv[4] if len(sys.argv) > 4 else '3'
p = [json.loads(l) for l in open('/verif/properties.jsonl') if json.loads(l)['id'] == pid][0]
print(f"""You are helping to test a verification effort for the C library wolkykim/qlibc (containers, string/encoding/config utilities).
You have your OWN scratch git worktree of the library at {wt}. Work ONLY inside {wt} and your output directory {out} (create it). Do NOT read, list or modify /repo, /verif, or any other directory under /tmp; nothing outside {wt} is relevant to you.

THE PROPERTY (this is all you are given about what must hold):
Title: {p['title']}
Statement: {p['statement']}
Quantified over: {p['quantifier']['text']}
Why the existing tests cannot settle it: {p['why_tests_cant']}

YOUR TASK: produce {n} INDEPENDENT source changes to the library (files under src/ or include/), each one a separate patch against the worktree's HEAD, such that each change BREAKS the property above while:
 (a) the library still compiles without new warnings-as-errors,
 (b) the existing test suite still passes. Build+test: `cmake -G Ninja -S {wt} -B {wt}/_build -DCMAKE_BUILD_TYPE=RelWithDebInfo && cmake --build {wt}/_build && ctest --test-dir {wt}/_build -j8 --timeout 900` (about 4 minutes; test_qtreetbl is the slow one). 
 (c) the breakage needs something SPECIFIC to manifest - a particular thread interleaving, a fault (e.g. allocation failure) at a particular point, a multi-step sequence of operations, an unusual input, or two cooperating sites that each look fine alone - NOT something ordinary use would expose at once.
Make the changes realistic: each should look like a plausible refactoring, optimisation, clean-up or well-meant bug fix that a maintainer could commit and a reviewer could miss. Make the {n} changes DIFFERENT in kind: different functions/files and different mechanisms. Do not just delete a whole feature. Prefer subtle changes (a moved statement, a changed condition, an early return added, a helper reused where its contract differs, a changed constant/table entry, a changed size expression ...).

For each change i (1..{n}) deliver in {out}/<i>/ :
  - patch.diff  : `git diff` against HEAD (must apply with `git apply` to a clean checkout of the same commit)
  - demo.c (or several files) and run.sh : run.sh takes the root directory of a qlibc source tree as $1, builds the demonstration against THAT tree's sources (compile the needed src/*.c files directly with cc, -I$1/include/qlibc -I$1/src/internal, -lpthread; do not rely on an installed library; build into a fresh temp dir and delete it afterwards) and exits 0 when the property holds on that tree and non-zero when it is violated. Use `timeout` inside run.sh for anything that could hang. Sanitizers (clang -fsanitize=address,undefined / thread), valgrind and malloc interposition (-Wl,--wrap=malloc) are available and fine to use in demonstrations.
  - notes.md    : which part of the property it breaks, which file/function was changed, and exactly what is needed for it to manifest.
You MUST verify yourself, for every change: run.sh exits 0 on the unmodified worktree, exits non-zero with the patch applied, and the full test suite passes with the patch applied. State the commands you ran and their results in notes.md. If a candidate change fails any of these, replace it with another one.
When finished: restore the worktree (`git -C {wt} checkout -- .`, remove {wt}/_build and any other files you created in it). Do NOT commit anything. Your final message should list, per change, the file/function changed, a one-line description, and the verification results.""")
