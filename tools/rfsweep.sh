#!/bin/bash
# usage: tools/rfsweep.sh PROP...  : run the given checks on every saved refactoring (scratch copies, in parallel); prints alarms only
cd /verif
for d in refactors/*/; do
  id=$(basename $d)
  (
  S=$(mktemp -d /tmp/qv-rfsweep-XXXXXX)
  cp -r /repo/src /repo/include /repo/CMakeLists.txt "$S"/
  if (cd / && git apply --unsafe-paths --directory="$S" /verif/$d/patch.diff 2>/dev/null); then
    for p in "$@"; do
      QV_EVIDENCE_DIR=/tmp/qv-evidence-scratch/rfs-$id-$p python3 run.py check $p --root "$S" > /tmp/rfs_${id}_$p.out 2>&1; rc=$?
      if [ $rc = 2 ] && grep -qx "$p analysis-broken" /verif/$d/expect.txt 2>/dev/null; then echo "$id $p rc=2 (documented analysis-broken, no verdict)"; continue; fi
      if [ $rc = 1 ] && grep -qx "$p false-alarm" /verif/$d/expect.txt 2>/dev/null; then echo "$id $p rc=1 (documented FALSE ALARM, not corrected: see DESIGN.md section 8)"; continue; fi
      [ $rc = 0 ] || { echo "$id $p rc=$rc"; grep -E "^DIAG|ANALYSIS-BROKEN" /tmp/rfs_${id}_$p.out | cut -c1-220 | head -3; }
    done
  else echo "$id apply-fail"; fi
  rm -rf "$S"
  ) &
  while [ $(jobs -r | wc -l) -ge 14 ]; do sleep 0.3; done
done
wait
echo "rfsweep done"
