#!/bin/bash
# Regression of the checks themselves (not a registered check): unchanged tree silent, every seeded change detected,
# every behaviour-preserving refactor silent.  Applies patches to /repo and reverts them.
cd /verif
fail=0
echo "== unchanged tree"
for p in $(python3 run.py list); do QV_EVIDENCE_DIR=/tmp/qv-evidence-scratch python3 run.py check $p >/tmp/rg.out 2>&1 || { echo "  FAIL $p"; fail=1; }; done
echo "== seeded changes"
for d in /verif/seeded/*/; do
  id=$(basename $d); prop=$(python3 -c "import json;m=json.load(open('$d/meta.json'));print(m.get('detect_with') or m['property'])")
  git -C /repo apply --check $d/patch.diff 2>/dev/null || { echo "  $id: patch does not apply to the current tree"; continue; }
  git -C /repo apply $d/patch.diff
  QV_EVIDENCE_DIR=/tmp/qv-evidence-scratch python3 run.py check $prop >/tmp/rg.out 2>&1; rc=$?
  git -C /repo checkout -- .
  if grep -q "NOT DETECTED" $d/meta.json; then exp="(documented miss)"; else exp=""; [ $rc -eq 1 ] || { fail=1; exp="UNEXPECTED"; }; fi
  echo "  $id $prop rc=$rc $exp"
done
echo "== behaviour-preserving refactors"
for d in /verif/refactors/*/; do
  [ -f $d/patch.diff ] || continue
  git -C /repo apply --check $d/patch.diff 2>/dev/null || { echo "  $(basename $d): does not apply"; continue; }
  git -C /repo apply $d/patch.diff
  bad=""
  for p in $(python3 run.py list); do QV_EVIDENCE_DIR=/tmp/qv-evidence-scratch python3 run.py check $p >/tmp/rg.out 2>&1 || bad="$bad $p"; done
  git -C /repo checkout -- .
  [ -z "$bad" ] && echo "  $(basename $d) silent" || { echo "  $(basename $d) ALARM:$bad"; fail=1; }
done
exit $fail
