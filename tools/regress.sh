#!/bin/bash
# Regression of the checks themselves (not a registered check): unchanged tree silent, every seeded change detected by the check
# named in its meta.json (documented misses excepted), every behaviour-preserving refactoring silent under every check.
# Works on scratch copies of /repo's sources under /tmp (removed afterwards); /repo itself is never touched.
cd /verif
fail=0
ALL=$(python3 run.py list)
echo "== unchanged tree"
for p in $ALL; do ( QV_EVIDENCE_DIR=/tmp/qv-evidence-scratch/rg-$p python3 run.py check $p >/tmp/rg_$p.out 2>&1; echo $? >/tmp/rg_$p.rc ) & done; wait
for p in $ALL; do [ "$(cat /tmp/rg_$p.rc)" = "0" ] || { echo "  FAIL: $p"; fail=1; }; done
echo "== seeded changes"
tools/seedsweep.sh $ALL | sort > /tmp/rg_seeds.out
cat /tmp/rg_seeds.out
# a seed must give rc=1 unless it is a documented miss
grep -v "documented miss" /tmp/rg_seeds.out | grep -v "rc=1 " | grep -q . && { echo "  UNEXPECTED seed results:"; grep -v "documented miss" /tmp/rg_seeds.out | grep -v "rc=1 "; fail=1; }
echo "== behaviour-preserving refactors"
tools/rfsweep.sh $ALL > /tmp/rg_rf.out
cat /tmp/rg_rf.out
[ "$(grep -v 'rfsweep done' /tmp/rg_rf.out | grep -v 'documented analysis-broken' | grep -v 'documented FALSE ALARM' | grep -c .)" = "0" ] || fail=1
rm -rf /tmp/qv-evidence-scratch /tmp/rg_*.out /tmp/rg_*.rc /tmp/sw_*.out /tmp/rfs_*.out
echo "== regress $( [ $fail = 0 ] && echo OK || echo FAILED )"
exit $fail
