#!/bin/bash
# Regression of the checks themselves (not a registered check): unchanged tree silent, every seeded change detected,
# every behaviour-preserving refactor silent.  Applies patches to /repo and reverts them - do not run anything else that
# reads or writes /repo's working tree at the same time.
cd /verif
fail=0
E=/tmp/qv-evidence-scratch
all_checks() {   # runs every check in parallel, prints the ids that did not exit 0
  local bad=""
  for p in $(python3 run.py list); do
    ( QV_EVIDENCE_DIR=$E/$p python3 run.py check $p >/tmp/rg_$p.out 2>&1; echo $? >/tmp/rg_$p.rc ) &
  done
  wait
  for p in $(python3 run.py list); do [ "$(cat /tmp/rg_$p.rc)" = "0" ] || bad="$bad $p"; done
  echo "$bad"
}
echo "== unchanged tree"
git -C /repo diff --quiet || { echo "/repo has local changes - refusing"; exit 2; }
bad=$(all_checks); [ -z "$bad" ] || { echo "  FAIL:$bad"; fail=1; }
echo "== seeded changes"
for d in /verif/seeded/*/; do
  id=$(basename $d); prop=$(python3 -c "import json;m=json.load(open('$d/meta.json'));print(m.get('detect_with') or m['property'])")
  git -C /repo apply --check $d/patch.diff 2>/dev/null || { echo "  $id: patch does not apply to the current tree"; fail=1; continue; }
  git -C /repo apply $d/patch.diff
  QV_EVIDENCE_DIR=$E/$prop python3 run.py check $prop >/tmp/rg.out 2>&1; rc=$?
  git -C /repo checkout -- .
  if python3 -c "import json,sys;sys.exit(0 if 'NOT DETECTED' in json.load(open('$d/meta.json'))['detected_by'] else 1)"; then exp="(documented miss)"; else exp=""; [ $rc -eq 1 ] || { fail=1; exp="UNEXPECTED"; }; fi
  echo "  $id $prop rc=$rc $exp"
done
echo "== behaviour-preserving refactors"
for d in /verif/refactors/*/; do
  [ -f $d/patch.diff ] || continue
  git -C /repo apply --check $d/patch.diff 2>/dev/null || { echo "  $(basename $d): does not apply"; fail=1; continue; }
  git -C /repo apply $d/patch.diff
  bad=$(all_checks)
  git -C /repo checkout -- .
  [ -z "$bad" ] && echo "  $(basename $d) silent" || { echo "  $(basename $d) ALARM:$bad"; fail=1; }
done
rm -rf $E /tmp/rg_*.out /tmp/rg_*.rc
exit $fail
