#!/usr/bin/env python3
"""Regenerate the table of seeded changes in DESIGN.md (section 7) from seeded/*/meta.json, and the counts in its
introduction line."""
import json, glob, os, re
V = os.path.dirname(os.path.dirname(os.path.abspath(__file__)))
rows, missed = [], []
def key(p):
    b = os.path.basename(os.path.dirname(p)); a, n = b.split('-'); return (a, int(n))
for mp in sorted(glob.glob(V + '/seeded/*/meta.json'), key=key):
    m = json.load(open(mp))
    det = m['detected_by']
    if 'NOT DETECTED' in det:
        missed.append(m['id'])
        det = '**not detected** — ' + det.split('NOT DETECTED', 1)[1].lstrip(' -:—')
    rows.append('| %s | %s | %s |' % (m['id'], m['needs_to_manifest'].replace('|', '/'), det.replace('|', '/')))
s = open(V + '/DESIGN.md').read()
a = s.index('| id | needs | detected by |')
b = s.index('\n\n', a)
s = s[:a] + '| id | needs | detected by |\n|---|---|---|\n' + '\n'.join(rows) + s[b:]
n = len(rows)
s = re.sub(r'\d+ changes so far; \*\*\d+ detected, \d+ not\*\* \([^)]*',
           '%d changes so far; **%d detected, %d not** (%s' % (n, n - len(missed), len(missed), ', '.join(missed)) + ' — all value-level clauses the partial claims\nexclude', s, count=1)
open(V + '/DESIGN.md', 'w').write(s)
print(n, 'seeds,', len(missed), 'documented misses')
