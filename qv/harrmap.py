"""C06 - structural clauses of "exact bounded map with exact space accounting" for the static hash table (qhasharr.c).

K1  occupation accounting.  In the writer's chunk loop every iteration that copies payload into a slot passes exactly one
    `usedslots++` before it goes round or leaves, and the key counter is incremented only in the arm that handles the
    leading (non-extension) slot, at most once per iteration.
K2  release accounting.  In the releaser every `remove_slot()` is followed by exactly one `usedslots--` before the next
    release or the exit, and `num--` happens exactly once on every path through the function.
K3  roll-back.  Once the writer has stored into the slot array, every failing return is preceded on all paths by the
    release of the entry it started (`remove_data(tbl, <its own index parameter>)`): a failed put is never left
    partially written.
K4  match predicate.  The lookup reports an index only on paths on which the key length matched, the stored key bytes
    matched, and - unless the key is known to fit the slot - the digest matched.
"""
from .frontend import walk, children, strip, strip_parens
from .expr import canon, access_path, int_value
from .hashrules import _loop_nodes

UNIT = 'src/containers/qhasharr.c'


def _is_counter_step(y, field, op):
    return y.get('kind') == 'UnaryOperator' and y.get('opcode') == op and \
        strip(children(y)[0]).get('kind') == 'MemberExpr' and strip(children(y)[0]).get('name') == field


def _node_has(m, pred):
    return isinstance(m.ast, dict) and m.kind != 'macro' and any(pred(y) for y in walk(m.ast))


def _payload_copy(prog, y):
    if y.get('kind') == 'CallExpr' and prog.callee_name(y) in ('memcpy', 'memmove') and len(children(y)) > 1:
        d = strip(children(y)[1])
        return d.get('kind') == 'MemberExpr' and d.get('name') == 'data' and d.get('_field') and 'SLOT' in d['_field'][0].upper() \
            and d['_field'][0] != 'qhasharr_slot_s'
    return False


def _copy_helpers(prog):
    """static helpers that copy payload into a slot themselves (and do no accounting): a call of one is a payload copy"""
    out = set()
    for f in prog.funcs_in(UNIT):
        if f.body is None or not f.static:
            continue
        if any(_payload_copy(prog, y) for y in walk(f.body)) and not any(
                _is_counter_step(y, 'usedslots', '++') for y in walk(f.body)):
            out.add(f.name)
    return out


def _copies_payload(prog, helpers, y):
    return _payload_copy(prog, y) or (y.get('kind') == 'CallExpr' and prog.callee_name(y) in helpers)


def _count_paths(cfg, start, stop_ids, hit, limit=3):
    """min and max number of `hit` nodes on paths from the successors of start to any node in stop_ids (or the exit)"""
    best = {}            # node id -> set of counts seen on arrival
    res = set()
    work = [(s, 0) for (s, _l) in start.succs]
    while work:
        m, c = work.pop()
        if m.id in stop_ids or m is cfg.exit:
            res.add(c)
            continue
        if hit(m):
            c = min(c + 1, limit)
        if c in best.setdefault(m.id, set()):
            continue
        best[m.id].add(c)
        for (s, _l) in m.succs:
            work.append((s, c))
    return res


def rule_k1(prog, rep, rid='K1'):
    rep.rule(rid, 'occupation accounting: every chunk-loop iteration that copies payload into a slot passes exactly one usedslots++; '
                  'num++ only in the leading-slot arm, at most once per iteration')
    prog.unit(UNIT)
    for f in sorted(prog.funcs_in(UNIT), key=lambda x: x.line or 0):
        if f.body is None:
            continue
        cfg = f.cfg
        helpers = _copy_helpers(prog)
        if f.name in helpers:
            continue           # accounted for at its call sites
        copies = [n for n in cfg.nodes if n.id in cfg.reachable and _node_has(n, lambda y: _copies_payload(prog, helpers, y))]
        if not copies:
            continue
        loops = [(h, _loop_nodes(cfg, h)) for (h, _s) in cfg.loops if h.id in cfg.reachable]
        for n in copies:
            inl = [(h, b) for (h, b) in loops if n.id in b]
            if not inl:
                continue
            head, body = min(inl, key=lambda hb: len(hb[1]))
            rep.instance(rid)
            cnt = _count_paths(cfg, n, {head.id}, lambda m: _node_has(m, lambda y: _is_counter_step(y, 'usedslots', '++')))
            ok = cnt == {1}
            why = ''
            if not ok:
                why = 'a path from the copy at line %s to the next iteration/exit passes usedslots++ %s time(s)' % (
                    n.line, '/'.join(str(c) for c in sorted(cnt)))
            # num++: at most once, and not in the same straight path as an extension-slot copy
            numcnt = _count_paths(cfg, head, {head.id}, lambda m: _node_has(m, lambda y: _is_counter_step(y, 'num', '++')))
            if ok and max(numcnt or {0}) > 1:
                ok, why = False, 'num++ can be passed more than once in one iteration'
            direct = [y for y in walk(n.ast) if _payload_copy(prog, y)]
            if ok and direct:
                d = direct[0]
                is_ext = 'ext' in canon(children(d)[1])
                if is_ext:
                    after = _count_paths(cfg, n, {head.id}, lambda m: _node_has(m, lambda y: _is_counter_step(y, 'num', '++')))
                    if after != {0}:
                        ok, why = False, 'the key counter is incremented on the path that stores an extension block'
            rep.oblige(rid, ok, {'function': f.name, 'copy_line': n.line})
            if not ok:
                rep.violation(rid, f, n.line, 'occupy:%s' % n.line,
                              '%s: %s: the reported counters no longer equal the number of keys / occupied slots' % (f.name, why))


def rule_k2(prog, rep, rid='K2'):
    rep.rule(rid, 'release accounting: every remove_slot() in the releaser is followed by exactly one usedslots-- before the next release '
                  'or the exit; num-- exactly once on every path')
    prog.unit(UNIT)
    for f in sorted(prog.funcs_in(UNIT), key=lambda x: x.line or 0):
        if f.body is None:
            continue
        cfg = f.cfg
        dec_num = [n for n in cfg.nodes if n.id in cfg.reachable and _node_has(n, lambda y: _is_counter_step(y, 'num', '--'))]
        if not dec_num:
            continue
        rels = [n for n in cfg.nodes if n.id in cfg.reachable and _node_has(
            n, lambda y: y.get('kind') == 'CallExpr' and prog.callee_name(y) == 'remove_slot')]
        rel_ids = {n.id for n in rels}
        for n in rels:
            rep.instance(rid)
            cnt = _count_paths(cfg, n, rel_ids, lambda m: _node_has(m, lambda y: _is_counter_step(y, 'usedslots', '--')))
            ok = cnt == {1}
            rep.oblige(rid, ok, {'function': f.name, 'release_line': n.line})
            if not ok:
                rep.violation(rid, f, n.line, 'release:%s' % n.line,
                              '%s: between the slot release at line %s and the next release/exit usedslots-- is passed %s time(s): the used-slot '
                              'count drifts from the number of occupied slots' % (f.name, n.line, '/'.join(str(c) for c in sorted(cnt))))
        rep.instance(rid)
        cnt = _count_paths(cfg, cfg.entry, set(), lambda m: _node_has(m, lambda y: _is_counter_step(y, 'num', '--')))
        ok = cnt == {1}
        rep.oblige(rid, ok, {'function': f.name, 'num_decrements_per_path': sorted(cnt)})
        if not ok:
            rep.violation(rid, f, dec_num[0].line, 'num--', '%s: num-- is passed %s time(s) on some path through the releaser (exactly one entry is '
                          'released per call)' % (f.name, '/'.join(str(c) for c in sorted(cnt))))


def rule_k3(prog, rep, rid='K3'):
    rep.rule(rid, 'roll-back: once the writer has stored into the slot array every failing return is preceded on all paths by the release '
                  'of the entry it started')
    prog.unit(UNIT)
    for f in sorted(prog.funcs_in(UNIT), key=lambda x: x.line or 0):
        if f.body is None:
            continue
        cfg = f.cfg
        helpers = _copy_helpers(prog)
        if f.name in helpers or not any(_node_has(n, lambda y: _copies_payload(prog, helpers, y)) for n in cfg.nodes):
            continue
        pnames = [p.get('name') for p in f.params]

        def first_store(m):
            # a store of the entry's own count through the index parameter: the entry starts to exist
            return _node_has(m, lambda y: y.get('kind') == 'BinaryOperator' and y.get('opcode') == '=' and
                             canon(children(y)[0]).endswith('].count') and
                             any(canon(children(y)[0]).endswith('[%s].count' % p) for p in pnames))
        starts = [n for n in cfg.nodes if n.id in cfg.reachable and first_store(n)]
        if not starts:
            continue
        idxs = [p for p in pnames if any(canon(children(y)[0]).endswith('[%s].count' % p) for n in starts for y in walk(n.ast)
                                         if y.get('kind') == 'BinaryOperator' and y.get('opcode') == '=')]

        def releases(m):
            return _node_has(m, lambda y: y.get('kind') == 'CallExpr' and prog.callee_name(y) == 'remove_data' and len(children(y)) > 2
                             and canon(children(y)[2]) in idxs)
        for st in starts:
            rep.instance(rid)
            bad = None
            seen, work = set(), [s for (s, _l) in st.succs]
            while work and bad is None:
                m = work.pop()
                if m.id in seen or m is cfg.exit or releases(m):
                    continue
                seen.add(m.id)
                if m.kind == 'act' and isinstance(m.ast, dict) and m.ast.get('kind') == 'ReturnStmt' and children(m.ast) \
                        and int_value(children(m.ast)[0]) == 0:
                    bad = m
                    break
                work += [s for (s, _l) in m.succs]
            rep.oblige(rid, bad is None, {'function': f.name, 'entry_started_line': st.line})
            if bad is not None:
                rep.violation(rid, f, bad.line, 'rollback:%s' % bad.line,
                              '%s can fail at line %s after it started the entry (line %s) without releasing it (remove_data on its own index): '
                              'the key is left partially written and the counters keep what was stored so far' % (f.name, bad.line, st.line))


def rule_k4(prog, rep, rid='K4'):
    rep.rule(rid, 'match predicate: the lookup reports a slot only on paths on which the key length matched, the stored key bytes matched and '
                  '- unless the key is known to fit the slot - the digest matched')
    prog.unit(UNIT)
    for f in sorted(prog.funcs_in(UNIT), key=lambda x: x.line or 0):
        if f.body is None or not f.static:
            continue
        cfg = f.cfg
        # the lookup: compares a field `namemd5` or `name` of a slot with memcmp and returns an index
        cmps = [y for y in walk(f.body) if y.get('kind') == 'CallExpr' and prog.callee_name(y) == 'memcmp'
                and any(strip(a).get('kind') == 'MemberExpr' and strip(a).get('name') in ('name', 'namemd5') for a in children(y)[1:3])]
        if not cmps:
            continue

        def classify(c, truth):
            """fact established when expression c evaluates to `truth`"""
            c = strip_parens(c)
            while c.get('kind') == 'UnaryOperator' and c.get('opcode') == '!':
                truth = not truth
                c = strip_parens(children(c)[0])
            if c.get('kind') == 'BinaryOperator' and c.get('opcode') in ('==', '!='):
                a, b = children(c)
                texts = (canon(a), canon(b))
                equal = truth if c['opcode'] == '==' else (not truth)
                if any(t.endswith('.namesize') or t.endswith('->namesize') for t in texts):
                    return 'len' if equal else None
                for (x, o) in ((a, b), (b, a)):
                    sx = strip(x)
                    if sx.get('kind') == 'CallExpr' and prog.callee_name(sx) == 'memcmp' and int_value(o) == 0 and equal:
                        return 'md5' if 'namemd5' in canon(sx) else ('name' if ('.name' in canon(sx) or '->name' in canon(sx)) else None)
                return None
            if c.get('kind') == 'BinaryOperator' and c.get('opcode') in ('<=', '<', '>', '>='):
                a, b = children(c)
                pa, vb = access_path(a), int_value(b)
                if pa and pa.endswith('namesize') and '->' not in pa and '.' not in pa and vb is not None:
                    fits_when = c['opcode'] in ('<=', '<')
                    if truth == fits_when and ((c['opcode'] in ('<=', '>') and vb <= 16) or (c['opcode'] in ('<', '>=') and vb <= 17)):
                        return 'short'
                return None
            if c.get('kind') == 'CallExpr' and prog.callee_name(c) == 'memcmp':
                if not truth:                       # memcmp(...) is "true" when the bytes differ
                    return 'md5' if 'namemd5' in canon(c) else ('name' if ('.name' in canon(c) or '->name' in canon(c)) else None)
            return None

        def fact_of(m, lab):
            """fact established by leaving cond node m through edge lab"""
            if m.kind != 'cond' or not isinstance(m.ast, dict) or lab not in ('T', 'F'):
                return None
            return classify(m.ast, lab == 'T')

        def conj_facts(e):
            """facts established when the returned boolean expression e is true (a conjunction of tests)"""
            e = strip_parens(strip(e))
            if e.get('kind') == 'BinaryOperator' and e.get('opcode') == '&&':
                out = set()
                for c in children(e):
                    out |= conj_facts(c)
                return out
            ft = classify(e, True)
            return {ft} if ft else set()
        rets = [n for n in cfg.returns() if children(n.ast) and int_value(children(n.ast)[0]) is None]
        heads = {h.id for (h, _s) in cfg.loops}
        for r in rets:
            rep.instance(rid)
            # forward search with fact sets; facts are dropped when a loop head is passed (next candidate slot)
            bad = None
            seen = set()
            work = [(cfg.entry, frozenset())]
            while work and bad is None:
                m, facts = work.pop()
                if (m.id, facts) in seen:
                    continue
                seen.add((m.id, facts))
                if m is r:
                    facts = facts | conj_facts(children(r.ast)[0])      # `return <test> && <test>`: reports exactly when the tests hold
                    if not ('len' in facts and 'name' in facts and ('short' in facts or 'md5' in facts)):
                        bad = facts
                    continue
                for (s, lab) in m.succs:
                    f2 = facts
                    ft = fact_of(m, lab)
                    if ft:
                        f2 = facts | {ft}
                    if s.id in heads:
                        f2 = frozenset()
                    work.append((s, f2))
            rep.oblige(rid, bad is None, {'function': f.name, 'return_line': r.line})
            if bad is not None:
                missing = [k for k in ('len', 'name') if k not in bad] + ([] if ('short' in bad or 'md5' in bad) else ['digest (or key known to fit)'])
                rep.violation(rid, f, r.line, 'match:%s' % r.line,
                              '%s reports a slot at line %s on a path that did not establish: %s - two different keys can be taken for the same '
                              'entry' % (f.name, r.line, ', '.join(missing)))
