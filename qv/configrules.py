"""C20 (narrow): Apache-style parser - boolean spelling table, error discipline, directive count."""
from .frontend import walk, children, strip, strip_parens, qtype
from .expr import canon, access_path, int_value
from .own import propagate, node_events

UNIT = 'src/extensions/qaconf.c'
TRUE_SP = ('true', 'on', 'yes', '1')
FALSE_SP = ('false', 'off', 'no', '0')


def _strlit(e):
    s = strip(e)
    if s.get('kind') == 'StringLiteral':
        v = s.get('value', '')
        if len(v) >= 2 and v[0] == '"' and v[-1] == '"':
            return v[1:-1]
    return None


def rule_c20(prog, rep):
    prog.unit(UNIT)
    f = prog.need_func('_parse_inline', UNIT)
    rep.rule('B1', 'the boolean classifier knows true/on/yes/1 and false/off/no/0 (case-insensitively) and separates the two '
                   'polarities from each other and from non-booleans')
    rep.rule('B2', 'the boolean branch of the type check accepts both polarities and normalises to "1" / "0"')
    rep.rule('B3', 'every path that makes the parser fail records an error message naming file and line (or propagates a nested failure)')
    rep.rule('B4', 'each processed directive is counted exactly once and nested counts are added; the result is the count or -1')
    # --- the classifier: the static int function of this unit that knows the spelling "true" (directly or through a table)
    def spelling_table(g):
        """{lower-case spelling: (returned value, compare function)} for function g, or {}"""
        table = {}
        # (a) chain of comparisons against literals, each followed by a return
        for n in g.cfg.nodes:
            if n.kind == 'cond' and isinstance(n.ast, dict):
                lit = None
                for y in walk(n.ast):
                    if y.get('kind') == 'CallExpr' and prog.callee_name(y) in ('strcasecmp', 'strcmp', 'strncasecmp'):
                        for a in children(y)[1:]:
                            if _strlit(a) is not None:
                                lit = (_strlit(a), prog.callee_name(y))
                if lit is None:
                    continue
                s0 = strip_parens(n.ast)
                eq_label = 'F'
                if s0.get('kind') == 'BinaryOperator' and s0.get('opcode') == '==' and int_value(children(s0)[1]) == 0:
                    eq_label = 'T'
                for (succ, lab) in n.succs:
                    if lab == eq_label:
                        m = succ
                        hops = 0
                        while m is not None and hops < 6:
                            if m.kind == 'act' and isinstance(m.ast, dict) and m.ast.get('kind') == 'ReturnStmt' and children(m.ast):
                                table[lit[0].lower()] = (int_value(children(m.ast)[0]), lit[1])
                                break
                            m = m.succs[0][0] if len(m.succs) == 1 else None
                            hops += 1
        if table:
            return table
        # (b) table driven: an array of {spelling, value} records scanned with str(case)cmp, returning the record's value
        cmpfn = None
        for y in walk(g.body):
            if y.get('kind') == 'CallExpr' and prog.callee_name(y) in ('strcasecmp', 'strcmp', 'strncasecmp'):
                if any(z.get('kind') == 'ArraySubscriptExpr' for a in children(y)[1:] for z in walk(a)):
                    cmpfn = prog.callee_name(y)
        if cmpfn:
            decls = [x for x in walk(g.body) if x.get('kind') == 'VarDecl' and '[' in qtype(x)] + \
                    [d for d in g.unit.globals.values() if '[' in qtype(d)]
            for d in decls:
                for il in walk(d):
                    if il.get('kind') == 'InitListExpr':
                        strs = [_strlit(c) for c in children(il) if _strlit(c) is not None]
                        ints = [int_value(c) for c in children(il) if _strlit(c) is None and int_value(c) is not None
                                and not isinstance(int_value(c), str)]
                        if len(strs) == 1 and len(ints) == 1:
                            table[strs[0].lower()] = (ints[0], cmpfn)
        return table
    classifier = None
    table = {}
    for g in prog.funcs_in(UNIT):
        if g.static and g.rettype == 'int':
            t = spelling_table(g)
            if 'true' in t or 'on' in t or 'yes' in t:
                classifier, table = g, t
                break
    rep.broken_if(classifier is None, 'no boolean spelling classifier (static int function comparing against "true"/"on"/"yes") found')
    if classifier is None:
        return
    calls = [y for y in walk(f.body) if y.get('kind') == 'CallExpr' and prog.callee_name(y) == classifier.name]
    rep.broken_if(not calls, '%s() is not called from the directive type check' % classifier.name)
    if not calls:
        return
    # the region of the type check that handles booleans: the innermost compound statement containing the call
    par = {}
    stack = [f.body]
    while stack:
        x = stack.pop()
        for c in children(x):
            par[id(c)] = x
            stack.append(c)
    region = calls[0]
    while id(region) in par and region.get('kind') != 'CompoundStmt':
        region = par[id(region)]
    bool_branch = region
    rets = [int_value(children(r.ast)[0]) for r in classifier.cfg.returns() if children(r.ast)]
    rets = [r for r in rets if r is not None]
    for sp in TRUE_SP + FALSE_SP:
        rep.instance('B1')
        ok = sp in table and table[sp][1] in ('strcasecmp', 'strncasecmp')
        rep.oblige('B1', ok, {'spelling': sp, 'classified_as': table.get(sp)})
        if not ok:
            rep.violation('B1', classifier, classifier.line, 'spelling:%s' % sp,
                          'the boolean spelling "%s" is not recognised (case-insensitively) by %s()' % (sp, classifier.name))
    rule_whole_word(prog, rep, classifier, 'B1')
    tv = {table[s0][0] for s0 in TRUE_SP if s0 in table}
    fv = {table[s0][0] for s0 in FALSE_SP if s0 in table}
    other = set(rets) - tv - fv
    rep.instance('B1')
    ok = len(tv) == 1 and len(fv) == 1 and tv != fv and bool(other)
    rep.oblige('B1', ok, {'true_value': sorted(tv), 'false_value': sorted(fv), 'not_a_boolean': sorted(other)})
    if not ok:
        rep.violation('B1', classifier, classifier.line, 'polarity',
                      '%s() returns %s for the true spellings, %s for the false spellings and %s otherwise: the three outcomes '
                      'must be distinct' % (classifier.name, sorted(tv), sorted(fv), sorted(other)))
    # --- B2: literals written in the bool branch
    lits = set()
    for y in walk(bool_branch):
        if y.get('kind') == 'CallExpr' and prog.callee_name(y) in ('strcpy', 'strncpy', 'memcpy', 'qstrcpy'):
            for z in walk(children(y)[2]):
                if _strlit(z) is not None:
                    lits.add(_strlit(z))
    rep.instance('B2')
    ok = {'1', '0'} <= lits
    rep.oblige('B2', ok, {'normalised_to': sorted(lits)})
    if not ok:
        rep.violation('B2', f, bool_branch.get('_line'), 'normalise', 'the boolean branch can only write %s; both "1" and "0" are required'
                      % sorted(lits))
    # both polarities accepted: the failure arm is taken exactly for the not-a-boolean outcome
    rep.instance('B2')
    accept_ok = False

    def fails(node):
        return any(y.get('kind') == 'BinaryOperator' and y.get('opcode') == '=' and 'exception' in canon(children(y)[0])
                   for y in walk(node)) or any(y.get('kind') == 'GotoStmt' for y in walk(node))
    for x in walk(bool_branch):
        if x.get('kind') == 'IfStmt':
            c = strip_parens(children(x)[0])
            if c.get('kind') == 'BinaryOperator' and c.get('opcode') in ('>=', '>', '!=', '==', '<', '<='):
                v = int_value(children(c)[1])
                op = c.get('opcode')
                if tv and fv and v is not None and not isinstance(v, str):
                    t0, f0 = list(tv)[0], list(fv)[0]

                    def holds(val):
                        return {'>=': val >= v, '>': val > v, '!=': val != v, '==': val == v, '<': val < v, '<=': val <= v}[op]
                    then_fails = fails(children(x)[1])
                    else_fails = len(children(x)) > 2 and fails(children(x)[2])
                    if not (then_fails or else_fails):
                        continue

                    def goes_to_failure(val):
                        return then_fails if holds(val) else else_fails
                    others = list(other)
                    if not goes_to_failure(t0) and not goes_to_failure(f0) and others and all(goes_to_failure(o) for o in others):
                        accept_ok = True
    rep.oblige('B2', accept_ok, {'accepts_both_polarities': accept_ok})
    if not accept_ok:
        rep.violation('B2', f, bool_branch.get('_line'), 'accept', 'the type check does not accept exactly the two boolean outcomes of %s()'
                      % classifier.name)
    # --- B3
    exc = None
    for r in f.cfg.returns():
        if children(r.ast):
            for y in walk(children(r.ast)[0]):
                if y.get('kind') == 'DeclRefExpr' and 'bool' in qtype(y):
                    exc = access_path(y)
    rep.broken_if(exc is None, 'the failure flag returned as -1 was not found')
    if exc:
        def recorder_call(e):
            """e is a call to a repository function that always returns non-zero and records a message naming file and line
            (itself or through the message-setting routine), the file/line coming from its body or from the call's arguments"""
            e = strip(e)
            if e.get('kind') != 'CallExpr':
                return None
            for g in prog.callees(f.unit, e):
                if getattr(g, 'body', None) is None:
                    return None
                rets = [r for r in g.cfg.returns() if children(r.ast)]
                if not rets or not all(int_value(children(r.ast)[0]) not in (0, None) for r in rets):
                    return None
                records = any(y.get('kind') == 'CallExpr' and prog.callee_name(y) in ('_seterrmsg',) for y in walk(g.body)) or \
                    any(y.get('kind') == 'MemberExpr' and y.get('name') == 'errstr' for y in walk(g.body))
                text = ' '.join(canon(a) for a in children(e)[1:]) + ' ' + ' '.join(
                    canon(y) for y in walk(g.body) if y.get('kind') == 'MemberExpr')
                return records and 'filepath' in text and 'lineno' in text
            return None
        for x in walk(f.body):
            if x.get('kind') == 'BinaryOperator' and x.get('opcode') == '=' and access_path(children(x)[0]) == exc \
                    and (int_value(children(x)[1]) not in (0, None) or recorder_call(children(x)[1]) is not None):
                rep.instance('B3')
                if recorder_call(children(x)[1]) is not None:
                    ok = bool(recorder_call(children(x)[1]))
                    rep.oblige('B3', ok, {'line': x.get('_line'), 'recorder': canon(children(x)[1])[:50]})
                    if not ok:
                        rep.violation('B3', f, x.get('_line'), 'fail:%s' % x.get('_line'),
                                      'the parser is made to fail at line %s through a helper that does not record a message with file and line'
                                      % x.get('_line'))
                    continue
                ok = False
                if x.get('_macro') and x.get('_macro') != 'true':
                    # inside a macro expansion: the expansion must call _seterrmsg with filepath and lineno
                    pass
                # find the enclosing statement list: look for a _seterrmsg call in the same expansion / block
                ok = _has_errmsg_nearby(prog, f, x) or _is_nested_propagation(f, x)
                rep.oblige('B3', ok, {'line': x.get('_line'), 'macro': x.get('_macro')})
                if not ok:
                    rep.violation('B3', f, x.get('_line'), 'fail:%s' % x.get('_line'),
                                  'the parser is made to fail at line %s without recording an error message with file and line'
                                  % x.get('_line'))
    # --- B4
    cnt = None
    for r in f.cfg.returns():
        if children(r.ast):
            e = strip(children(r.ast)[0])
            if e.get('kind') == 'ConditionalOperator':
                arms = children(e)[1:]
                names = [access_path(a) for a in arms if access_path(a)]
                consts = [int_value(a) for a in arms if int_value(a) is not None]
                if names and consts == [-1]:
                    cnt = names[0]
    rep.instance('B4')
    rep.oblige('B4', cnt is not None, {'returns': 'count or -1', 'counter': cnt})
    if cnt is None:
        rep.violation('B4', f, f.line, 'return', 'the parser does not return `failed ? -1 : count`')
        return
    incs = [x for x in walk(f.body) if x.get('kind') == 'UnaryOperator' and x.get('opcode') == '++' and access_path(children(x)[0]) == cnt]
    adds = [x for x in walk(f.body) if x.get('kind') == 'CompoundAssignOperator' and x.get('opcode') == '+=' and access_path(children(x)[0]) == cnt]
    rep.instance('B4')
    ok = len(incs) == 1 and len(adds) == 1
    rep.oblige('B4', ok, {'increments': len(incs), 'nested_additions': len(adds)})
    if not ok:
        rep.violation('B4', f, f.line, 'count', 'directive counter %s is incremented at %d sites and nested counts added at %d sites '
                      '(expected 1 and 1)' % (cnt, len(incs), len(adds)))
        return
    # the increment is on every loop path that created a callback record and did not fail
    # the directive loop: the outermost loop whose body contains the counter increment
    loop = [(h, s0) for (h, s0) in f.cfg.loops if any(y is incs[0] for y in walk(s0))]
    loop.sort(key=lambda t: t[1].get('_line') or 0)
    rep.instance('B4')
    okp = True
    if loop:
        head = loop[0][0]
        from .hashrules import _loop_nodes
        body = _loop_nodes(f.cfg, head)
        creates = [n for n in f.cfg.nodes if n.id in body and isinstance(n.ast, dict) and n.kind == 'act' and any(
            y.get('kind') == 'CallExpr' and prog.callee_name(y) in ('malloc', 'calloc') for y in walk(n.ast))]
        incnodes = {n.id for n in f.cfg.nodes if isinstance(n.ast, dict) and any(y is incs[0] for y in walk(n.ast))}
        for c in creates[:1]:
            seen = set()
            work = [s for (s, _l) in c.succs]
            while work:
                m = work.pop()
                if m is head:
                    okp = False
                    break
                if m.id in seen or m.id in incnodes or m.id not in body:
                    continue
                seen.add(m.id)
                for (s, _l) in m.succs:
                    work.append(s)
    rep.oblige('B4', okp, {'every_iteration_with_a_directive_is_counted': okp})
    if not okp:
        rep.violation('B4', f, incs[0].get('_line'), 'count-path', 'a loop iteration that created a directive record can go round again '
                      'without counting it')


def _has_errmsg_nearby(prog, f, assign):
    """The assignment comes from a macro expansion that also calls _seterrmsg(..filepath.., ..lineno..)."""
    off = assign.get('_off')
    for x in walk(f.body):
        if x.get('kind') == 'CallExpr' and prog.callee_name(x) == '_seterrmsg' and x.get('_off') == off and x.get('_macro') == assign.get('_macro'):
            args = ' '.join(canon(a) for a in children(x)[1:])
            return 'filepath' in args and 'lineno' in args
    return False


def _is_nested_propagation(f, assign):
    """`else exception = true` of a test on the nested call's result being >= 0."""
    for x in walk(f.body):
        if x.get('kind') == 'IfStmt' and len(children(x)) >= 3:
            if any(y is assign for y in walk(children(x)[2])):
                c = canon(children(x)[0])
                return '>= 0' in c or '< 0' in c
    return False


def rule_scan_abandon(prog, rep, fname='_parsestr', rid='B5'):
    """INI variable expansion: the reference scan over a value is abandoned (a `break` out of the scanning loop) only where
    the text has ended (a test of a scan cursor against NUL taken on its true edge) or a restart was requested (the restart
    flag set): an undefined reference is stepped over and the scan goes on, so references to its right are still expanded."""
    from .own import propagate, node_events
    from .frontend import AnalysisBroken
    rep.rule(rid, 'the ${...} scan over a value is abandoned only at the end of the text or with a restart requested: an '
                  'unresolved reference is stepped over, references to its right are still expanded')
    f = prog.need_func(fname, 'src/extensions/qconfig.c')
    # the scan loop: a for/while whose condition reads the byte under a cursor and whose body contains the expansion call
    loops = []
    for x in walk(f.body):
        if x.get('kind') in ('ForStmt', 'WhileStmt'):
            inner = x.get('inner') or []
            cond = inner[2] if x['kind'] == 'ForStmt' and len(inner) >= 5 else (children(x)[0] if children(x) else None)
            if not cond:
                continue
            reads = any(y.get('kind') == 'UnaryOperator' and y.get('opcode') == '*' for y in walk(cond))
            has_replace = any(y.get('kind') == 'CallExpr' and prog.callee_name(y) == 'qstrreplace' for y in walk(x))
            if reads and has_replace:
                loops.append(x)
    if not loops:
        return      # another shape of the expansion: nothing to check (not decided)
    loop = loops[0]
    # restart flag: the local tested by the enclosing do-while
    flags = set()
    for x in walk(f.body):
        if x.get('kind') == 'DoStmt':
            for y in walk(children(x)[-1]):
                if y.get('kind') == 'DeclRefExpr':
                    flags.add((y.get('referencedDecl') or {}).get('name'))
    # `break` is an edge in the CFG: the exits of the scan loop are the edges into the node that follows the loop (the
    # false successor of the loop condition); the edge from the condition itself is the natural end of the scan
    inner = loop.get('inner') or []
    cond_ast = inner[2] if loop['kind'] == 'ForStmt' else children(loop)[0]
    cond_ids = {id(y) for y in walk(cond_ast)}
    heads = [n for n in f.cfg.nodes if n.kind == 'cond' and isinstance(n.ast, dict) and id(n.ast) in cond_ids]
    if not heads:
        raise AnalysisBroken('%s: condition node of the scan loop not found' % fname)
    exits = [sx for h in heads for (sx, lab) in h.succs if lab == 'F']
    target = exits[-1]
    while target.kind == 'join' and len(target.succs) == 1 and len(target.preds) == 1:
        target = target.succs[0][0]
    head_ids = {h.id for h in heads}

    def transfer(n, st):
        if not isinstance(n.ast, dict) or n.kind == 'macro':
            return st
        s = set(st)
        for ev in node_events(n):
            if ev[0] == 'assign':
                l = strip(ev[1])
                if l.get('kind') == 'DeclRefExpr' and (l.get('referencedDecl') or {}).get('name') in flags:
                    v = int_value(ev[2])
                    if v:
                        s.add('restart')
                    else:
                        s.discard('restart')
        # a new iteration of the scan loop forgets "end of text"
        return frozenset(s)

    def branch(n, st, lab):
        if not isinstance(n.ast, dict):
            return st
        c = strip_parens(n.ast)
        s = set(st)
        eos = None
        if c.get('kind') == 'BinaryOperator' and c.get('opcode') in ('==', '!='):
            a, b = children(c)
            for x, y in ((a, b), (b, a)):
                sx = strip(x)
                if sx.get('kind') == 'UnaryOperator' and sx.get('opcode') == '*' and int_value(y) == 0:
                    eos = (c.get('opcode') == '==') == (lab == 'T')
        elif strip(c).get('kind') == 'UnaryOperator' and strip(c).get('opcode') == '*':
            eos = lab == 'F'
        elif strip(c).get('kind') == 'UnaryOperator' and strip(c).get('opcode') == '!':
            i = strip(children(strip(c))[0])
            if i.get('kind') == 'UnaryOperator' and i.get('opcode') == '*':
                eos = lab == 'T'
        if eos is True:
            s.add('eos')
        elif eos is False:
            s.discard('eos')
        return frozenset(s)

    # edge-sensitive propagation (states are subsets of {eos, restart})
    edge_states = {}
    seen = set()
    work = [(f.cfg.entry, frozenset())]
    while work:
        n, st = work.pop()
        if (n.id, st) in seen:
            continue
        seen.add((n.id, st))
        out = transfer(n, st)
        for (sx, lab) in n.succs:
            o2 = branch(n, out, lab) if lab in ('T', 'F') else out
            edge_states.setdefault((n.id, sx.id), set()).add(o2)
            work.append((sx, o2))
    breaks = [(p, lab) for (p, lab) in target.preds if p.id not in head_ids]
    if not breaks:
        raise AnalysisBroken('%s: the scan loop has no early exit edge (expected at least the restart exit)' % fname)
    for (p, lab) in sorted(breaks, key=lambda e: e[0].line or 0):
        rep.instance(rid)
        sts = edge_states.get((p.id, target.id), set())
        bad = [st for st in sts if 'eos' not in st and 'restart' not in st]
        ok = not bad
        rep.oblige(rid, ok, {'function': fname, 'exit_after_line': p.line, 'states': sorted(sorted(x) for x in sts)})
        if not ok:
            rep.violation(rid, f, p.line, 'scan-break',
                          'the reference scan is abandoned after line %s without the end of the text having been seen and without a '
                          'restart being requested: every ${...} to the right of this point stays unexpanded' % p.line)


def find_bool_classifier(prog):
    """the static int function of the Apache-style parser unit that compares its argument with the boolean spellings"""
    for g in prog.funcs_in(UNIT):
        if g.static and g.rettype == 'int' and g.body is not None:
            lits = {(_strlit(z) or '').lower() for z in walk(g.body) if _strlit(z) is not None}
            for d in g.unit.globals.values():
                pass
            if lits & {'true', 'on', 'yes'}:
                return g
    return None


def rule_whole_word(prog, rep, classifier, rid):
    """The classifier compares whole words: a bounded comparison (strncasecmp/strncmp/memcmp) whose length does not cover the
    literal's terminator is a prefix match - it accepts abbreviations and, with the length taken from the input, the empty
    string; the caller then overwrites the accepted word in place with "1"/"0" (2 bytes)."""
    for y in walk(classifier.body):
        if y.get('kind') != 'CallExpr':
            continue
        nm = prog.callee_name(y)
        if nm not in ('strncasecmp', 'strncmp', 'memcmp'):
            continue
        args = children(y)[1:]
        if len(args) < 3:
            continue
        rep.instance(rid)
        n = int_value(args[2])
        lit = None
        for a in args[:2]:
            if _strlit(a) is not None:
                lit = _strlit(a)
        ok = isinstance(n, int) and lit is not None and n >= len(lit) + 1
        rep.oblige(rid, ok, {'function': classifier.name, 'comparison': canon(y)[:60]})
        if not ok:
            rep.violation(rid, classifier, y.get('_line'), 'prefix-compare',
                          '%s() compares with %s over a length that does not cover the whole word (%s): abbreviations and the empty '
                          'string are accepted as booleans - the type check then overwrites a word shorter than "1" in place'
                          % (classifier.name, nm, canon(args[2])[:30]))


def rule_argflag_shift(prog, rep, rid='B6'):
    """The per-argument type flags are laid out as QAC_A1_<T> << (k-1) for k = 1..N (N enumerators per type, the next bit is the
    'all arguments' flag of that type and the next type's group follows a few bits later).  A flag computed as
    QAC_A1_<T> << (j - 1) is one of the per-argument flags only for j <= N: the must-facts at the shift have to bound j so."""
    import re as _re
    from .index import Facts
    rep.rule(rid, 'a per-argument type flag computed by shifting QAC_A1_<T> stays within the N per-argument flags of that type '
                  '(the argument index is bounded by N at the shift)')
    f = prog.need_func('_parse_inline', UNIT)
    per_type = {}
    for nm in f.unit.enums:
        m = _re.match(r'^QAC_A(\d)_(\w+)$', nm)
        if m:
            per_type[m.group(2)] = max(per_type.get(m.group(2), 0), int(m.group(1)))
    facts = None
    for n in f.cfg.nodes:
        if not isinstance(n.ast, dict) or n.kind == 'macro':
            continue
        for x in walk(n.ast):
            if x.get('kind') != 'BinaryOperator' or x.get('opcode') != '<<':
                continue
            l = strip(children(x)[0])
            r = (l.get('_ref') or ('',))
            if l.get('kind') != 'DeclRefExpr' or r[0] != 'enum':
                continue
            m = _re.match(r'^QAC_A1_(\w+)$', r[1])
            if not m or m.group(1) not in per_type:
                continue
            N = per_type[m.group(1)]
            sh = strip(children(x)[1])
            var, c = None, 0
            if sh.get('kind') == 'DeclRefExpr':
                var = canon(sh)
            elif sh.get('kind') == 'BinaryOperator' and sh.get('opcode') in ('-', '+') and isinstance(int_value(children(sh)[1]), int):
                var = canon(strip(children(sh)[0]))
                c = int_value(children(sh)[1]) * (-1 if sh['opcode'] == '-' else 1)
            if var is None:
                continue
            facts = facts or Facts(f)
            ub = None
            for (a, op, b, dom) in facts.at(n):
                if a != var:
                    continue
                try:
                    K = int(b, 0)
                except ValueError:
                    continue
                u = K - 1 if op == '<' else (K if op in ('<=', '==') else None)
                if u is not None and (ub is None or u < ub):
                    ub = u
            rep.instance(rid)
            ok = ub is not None and ub + c <= N - 1
            rep.oblige(rid, ok, {'line': x.get('_line'), 'flag': canon(x)[:40], 'index_upper_bound': ub, 'per_argument_flags': N})
            if not ok:
                rep.violation(rid, f, x.get('_line'), 'flagshift:%s' % r[1],
                              '%s: the argument index %s is %s here but only %d per-argument %s flags exist - beyond them the shifted bit '
                              'lands on the all-arguments flag and then in the next type\'s group, so a correctly typed argument is '
                              'checked against the wrong type' % (canon(x)[:40], var, ('bounded by %d' % ub) if ub is not None else 'unbounded',
                                                                 N, m.group(1)))


def rule_lineno_reset(prog, rep, rid='B7'):
    """Error messages name the line: the line counter is per parse.  In the public entry that starts a parse (the function
    that opens the file and calls the line parser), every path to that call resets the counter first - the parser object can
    be used for several files."""
    rep.rule(rid, 'the line counter is reset on every path from the parse entry to the line parser (a parser object parses many files)')
    inner = prog.need_func('_parse_inline', UNIT)
    for f in sorted(prog.funcs_in(UNIT), key=lambda x: x.line or 0):
        if f.body is None or f is inner:
            continue
        calls = [n for n in f.cfg.nodes if isinstance(n.ast, dict) and n.kind != 'macro' and any(
            x.get('kind') == 'CallExpr' and prog.callee_name(x) == inner.name for x in walk(n.ast))]
        if not calls:
            continue

        def resets(m):
            if not isinstance(m.ast, dict) or m.kind == 'macro':
                return False
            for x in walk(m.ast):
                if x.get('kind') == 'BinaryOperator' and x.get('opcode') == '=' and canon(children(x)[0]).endswith('->lineno') \
                        and int_value(children(x)[1]) == 0:
                    return True
                if x.get('kind') == 'CallExpr' and prog.callee_name(x) in ('memset',) and int_value(children(x)[2]) == 0 \
                        and 'qaconf' in canon(children(x)[1]) and '->' not in canon(children(x)[1]):
                    return True
            return False
        for cn in calls:
            rep.instance(rid)
            seen, work, bad = set(), [f.cfg.entry], False
            while work:
                m = work.pop()
                if m.id in seen or resets(m):
                    continue
                seen.add(m.id)
                if m is cn:
                    bad = True
                    break
                for (s_, _l) in m.succs:
                    work.append(s_)
            rep.oblige(rid, not bad, {'function': f.name, 'line': cn.line})
            if bad:
                rep.violation(rid, f, cn.line, 'lineno-reset', '%s starts the line parser without resetting the line counter: a second '
                              'parse through the same object reports line numbers that include the lines of the earlier files' % f.name)


def rule_number_classifier_closed(prog, rep, rid='B8'):
    """The number classifier of the Apache-style parser implements the documented grammar (-?digits[.digits]) itself; the C
    library's converters accept a wider language (signs, exponents, hex, inf/nan, leading blanks, trailing dot), so a
    classifier that decides through them accepts files the declarations forbid."""
    rep.rule(rid, 'the number classifier behind the INT/FLOAT argument check does not decide through the C library\'s number converters '
                  '(strtol/strtod/atoi/atof/sscanf accept a wider language than the documented one)')
    unit = 'src/extensions/qaconf.c'
    prog.unit(unit)
    wide = {'strtol', 'strtoll', 'strtoul', 'strtoull', 'strtod', 'strtof', 'strtold', 'atoi', 'atol', 'atoll', 'atof', 'sscanf',
            '__isoc99_sscanf'}
    # the classifier by role: a static int function of one string parameter whose returns are the constants 0, 1 and 2
    for f in sorted(prog.funcs_in(unit), key=lambda x: x.line or 0):
        if f.body is None or not f.static or len(f.params) != 1:
            continue
        rets = {int_value(children(r.ast)[0]) for r in f.cfg.returns() if children(r.ast)}
        if not ({1, 2} <= rets) or None in rets and len(rets) == 1:
            continue
        rep.instance(rid)
        # transitive callees inside the unit
        seen, work, hit = {f.name}, [f], None
        while work and hit is None:
            g = work.pop()
            for x in walk(g.body):
                if x.get('kind') == 'CallExpr':
                    nm = prog.callee_name(x)
                    if nm in wide:
                        hit = (nm, x.get('_line'), g)
                        break
                    h = prog.resolve_name(g.unit, nm) if nm else None
                    if h is not None and getattr(h, 'body', None) is not None and h.name not in seen:
                        seen.add(h.name)
                        work.append(h)
        rep.oblige(rid, hit is None, {'classifier': f.name})
        if hit is not None:
            rep.violation(rid, hit[2], hit[1], 'wide:%s' % hit[0],
                          '%s decides through %s(), which also accepts signs, exponents, hexadecimal, inf/nan, leading blanks or a trailing '
                          'dot: arguments the INT/FLOAT declaration forbids are accepted' % (f.name, hit[0]))


def rule_expansion_untouched(prog, rep, rid='B9'):
    """INI-style parser: blanks are stripped from what the file says BEFORE references are expanded; what the expansion
    delivers (values of other keys, environment variables, command output) is stored as it is.  The result of the expansion
    routine therefore reaches the table's put without passing through another transforming call, and the raw value passed a
    trim on every path before the expansion."""
    rep.rule(rid, 'the raw value is trimmed before ${} expansion and the expansion result reaches the table\'s put unmodified')
    unit = 'src/extensions/qconfig.c'
    prog.unit(unit)
    from .expr import var_init, access_path
    for f in sorted(prog.funcs_in(unit), key=lambda x: x.line or 0):
        if f.body is None:
            continue
        cfg = f.cfg
        for n in cfg.nodes:
            if n.id not in cfg.reachable or not isinstance(n.ast, dict) or n.kind == 'macro':
                continue
            for x in walk(n.ast):
                if x.get('kind') != 'CallExpr' or prog.callee_name(x) != '_parsestr' or f.name == '_parsestr':
                    continue
                rep.instance(rid)
                why = None
                # (a) the result is bound directly to a variable
                res = None
                if n.ast.get('kind') == 'VarDecl' and var_init(n.ast) is not None and strip(var_init(n.ast)) is x:
                    res = n.ast.get('name')
                else:
                    for y in walk(n.ast):
                        if y.get('kind') == 'BinaryOperator' and y.get('opcode') == '=' and strip(children(y)[1]) is x:
                            res = canon(children(y)[0])
                if res is None:
                    why = 'the expansion result is handed to another call before it is stored (%s)' % canon(n.ast)[:60]
                # (b) no transforming call on the result before the put
                if why is None:
                    seen, work = set(), [s for (s, _l) in n.succs]
                    while work and why is None:
                        m = work.pop()
                        if m.id in seen or m is cfg.exit or not isinstance(m.ast, dict):
                            if m.id not in seen and m is not cfg.exit:
                                seen.add(m.id)
                                work += [s for (s, _l) in m.succs]
                            continue
                        seen.add(m.id)
                        stop = False
                        for y in walk(m.ast):
                            if y.get('kind') == 'CallExpr' and any(access_path(a) == res for a in children(y)[1:]):
                                c0 = strip(children(y)[0])
                                nm = prog.callee_name(y)
                                if c0.get('kind') == 'MemberExpr' and c0.get('name', '').startswith('put'):
                                    stop = True
                                elif nm == 'free':
                                    stop = True
                                elif nm not in ('strlen', 'DEBUG'):
                                    why = 'the expansion result passes through %s() before it is stored' % (nm or canon(c0))
                        if not stop:
                            work += [s for (s, _l) in m.succs]
                # (c) the raw value was trimmed before the expansion on every path since it was split off
                if why is None:
                    arg = access_path(children(x)[2]) if len(children(x)) > 2 else None
                    if arg:
                        # backwards: from the definition of arg to the call, a qstrtrim(arg) on every path
                        defs = [m for m in cfg.nodes if m.id in cfg.reachable and isinstance(m.ast, dict) and m.kind != 'macro' and (
                            (m.ast.get('kind') == 'VarDecl' and m.ast.get('name') == arg))]
                        for d in defs:
                            seen, work, bad = set(), [s for (s, _l) in d.succs], False
                            while work and not bad:
                                m = work.pop()
                                if m.id in seen:
                                    continue
                                seen.add(m.id)
                                if m is n:
                                    bad = True
                                    break
                                if isinstance(m.ast, dict) and m.kind != 'macro' and any(
                                        y.get('kind') == 'CallExpr' and prog.callee_name(y) in ('qstrtrim',) and
                                        any(access_path(a) == arg for a in children(y)[1:]) for y in walk(m.ast)):
                                    continue
                                work += [s for (s, _l) in m.succs]
                            if bad:
                                why = 'the raw value %s reaches the expansion without having been trimmed' % arg
                rep.oblige(rid, why is None, {'function': f.name, 'expansion_call_line': x.get('_line')})
                if why is not None:
                    rep.violation(rid, f, x.get('_line'), 'expansion-order',
                                  '%s: %s - blanks that belong to a substituted value (an environment variable, another key) are lost or '
                                  'blanks written in the file survive' % (f.name, why))


def rule_every_word_stored(prog, rep, rid='B10'):
    """Apache-style tokenizer: the loop that delimits the words of a line stores every word it delimits - each iteration passes
    the store `argv[argc] = word` and the count increment; no path from the loop head back to it (or out of it) skips the store
    depending on what the word contains (an explicitly empty quoted argument "" is an argument)."""
    from .hashrules import _loop_nodes
    rep.rule(rid, 'every iteration of the word-splitting loop of the Apache-style parser stores the word it delimited and counts it '
                  '(no path round the loop bypasses the store)')
    unit = 'src/extensions/qaconf.c'
    prog.unit(unit)
    for f in sorted(prog.funcs_in(unit), key=lambda x: x.line or 0):
        if f.body is None:
            continue
        cfg = f.cfg

        def is_store(m):
            if not isinstance(m.ast, dict) or m.kind == 'macro':
                return False
            for y in walk(m.ast):
                if y.get('kind') == 'BinaryOperator' and y.get('opcode') == '=':
                    l = strip(children(y)[0])
                    if l.get('kind') == 'ArraySubscriptExpr' and canon(children(l)[0]).endswith('->argv') and \
                            canon(children(l)[1]).endswith('->argc'):
                        return True
            return False
        stores = [n for n in cfg.nodes if n.id in cfg.reachable and is_store(n)]
        if not stores:
            continue
        loops = [(h, _loop_nodes(cfg, h), st) for (h, st) in cfg.loops if h.id in cfg.reachable]
        for sn in stores:
            inl = [(h, b, st) for (h, b, st) in loops if sn.id in b]
            if not inl:
                continue
            # the innermost loop statement that contains the store
            from .looprules import _natural_body
            cand = []
            for (h, b, st) in inl:
                nb = _natural_body(cfg, h, st)
                if sn.id in nb:
                    cand.append((len(nb), h, nb))
            if not cand:
                continue
            _n, head, body = min(cand, key=lambda c: c[0])
            rep.instance(rid)
            # a cycle head -> head inside the loop that avoids every store node (error exits leave the loop and are not cycles)
            seen, work, bad = set(), [(s, [head]) for (s, _l) in head.succs], None
            while work and bad is None:
                m, path = work.pop()
                if m is head:
                    bad = path
                    break
                if m.id in seen or m.id not in body or is_store(m):
                    continue
                seen.add(m.id)
                for (s, _l) in m.succs:
                    work.append((s, path + [m]))
            rep.oblige(rid, bad is None, {'function': f.name, 'store_line': sn.line})
            if bad is not None:
                rep.violation(rid, f, sn.line, 'word-skipped',
                              '%s: the word-splitting loop (line %s) can go round without storing the word it delimited (the store at line %s is '
                              'bypassed): arguments such as an explicitly empty "" are dropped and the argument count is short'
                              % (f.name, head.line, sn.line),
                              path=['%s:%s' % (f.relfile, p.line) for p in bad if p.kind in ('cond', 'act')][:15])
