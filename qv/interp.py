"""A tiny evaluator for loop-free, side-effect-free integer functions: used to tabulate the decision
structure of small pure functions (e.g. the default key comparator) over a finite set of cases with
library calls stubbed.  It walks the function's CFG with a concrete integer environment; any loop,
pointer write or unknown construct makes it give up (None)."""
from .frontend import children, strip, strip_parens
from .expr import int_value, access_path, var_init, canon


_CTYPE_BITS = {'_ISupper': 256, '_ISlower': 512, '_ISalpha': 1024, '_ISdigit': 2048, '_ISxdigit': 4096, '_ISspace': 8192,
               '_ISprint': 16384, '_ISgraph': 32768, '_ISblank': 1, '_IScntrl': 2, '_ISpunct': 4, '_ISalnum': 8}


def _narrow_to(val, t):
    """value after conversion to the (char-sized) integer type t; wider types are left alone"""
    if val is None or not isinstance(val, int):
        return val
    t = (t or '').replace('const ', '').replace('volatile ', '').strip()
    if t in ('char', 'signed char', 'int8_t'):
        return ((val + 128) % 256) - 128
    if t in ('unsigned char', 'uint8_t', '_Bool', 'bool'):
        return val % 256 if t not in ('_Bool', 'bool') else int(bool(val))
    w = _INT_WIDTH.get(t)
    if w is not None:
        bits, signed = w
        if signed:
            half = 1 << (bits - 1)
            return ((val + half) % (1 << bits)) - half
        return val % (1 << bits)
    return val


# LP64 integer types: (bits, signed).  Arithmetic results and integral conversions are reduced to the width and
# signedness of their type, so an unsigned difference wraps and a narrowing conversion truncates as the compiled code does.
_INT_WIDTH = {
    'short': (16, True), 'unsigned short': (16, False), 'int16_t': (16, True), 'uint16_t': (16, False),
    'int': (32, True), 'unsigned int': (32, False), 'unsigned': (32, False), 'int32_t': (32, True), 'uint32_t': (32, False),
    'long': (64, True), 'unsigned long': (64, False), 'long long': (64, True), 'unsigned long long': (64, False),
    'int64_t': (64, True), 'uint64_t': (64, False), 'size_t': (64, False), 'ssize_t': (64, True), 'off_t': (64, True),
    'intptr_t': (64, True), 'uintptr_t': (64, False), 'ptrdiff_t': (64, True),
}


def run_function(prog, f, args, stubs, max_steps=400, extra_env=None):
    env = dict(extra_env or {})
    for p, a in zip(f.params, args):
        env[p.get('name')] = a
    cfg = f.cfg
    node = cfg.entry
    visited = {}
    steps = 0

    def ev(e):
        if e.get('kind') in ('ImplicitCastExpr', 'CStyleCastExpr') and e.get('castKind') == 'IntegralCast' and e.get('inner'):
            from .frontend import dtype as _dt
            return _narrow_to(ev(e['inner'][0]), _dt(e))
        if e.get('kind') in ('ParenExpr', 'ImplicitCastExpr', 'CStyleCastExpr', 'ConstantExpr') and e.get('inner') and \
                int_value(strip(e)) is None:
            return ev(e['inner'][0])
        s = strip(e)
        v = int_value(s)
        if v is not None and not isinstance(v, str):
            return v
        k = s.get('kind')
        if k == 'DeclRefExpr':
            r = s.get('_ref') or ('',)
            if r[0] == 'enum':
                if r[1] in _CTYPE_BITS:
                    return _CTYPE_BITS[r[1]]
                c = f.unit.enums.get(r[1])
                if c is not None:
                    from .frontend import walk as _walk
                    for y in _walk(c):
                        if y.get('kind') == 'ConstantExpr' and y.get('value') is not None:
                            try:
                                return int(y['value'])
                            except (TypeError, ValueError):
                                pass
                        vv = int_value(y)
                        if isinstance(vv, int) and y is not c:
                            return vv
                return None
            p = access_path(s)
            return env.get(p)
        if k == 'ArraySubscriptExpr' and '__ctype_b_loc' in canon(children(s)[0]):
            # glibc's <ctype.h> macros: (*__ctype_b_loc())[c] & _ISxxx  -  the classification bits of the C locale
            c_ = ev(children(s)[1])
            if c_ is None or not (-128 <= c_ <= 255):
                return None
            ch = chr(c_ & 0xff) if c_ >= 0 else chr(c_ + 256)
            o = ord(ch)
            bits = 0
            if 'A' <= ch <= 'Z':
                bits |= 256
            if 'a' <= ch <= 'z':
                bits |= 512
            if ch.isalpha() and o < 128:
                bits |= 1024
            if '0' <= ch <= '9':
                bits |= 2048
            if ch in '0123456789abcdefABCDEF':
                bits |= 4096
            if ch in ' \t\n\v\f\r':
                bits |= 8192
            if 32 <= o < 127:
                bits |= 16384
            if 33 <= o < 127:
                bits |= 32768
            if ch in ' \t':
                bits |= 1
            if o < 32 or o == 127:
                bits |= 2
            if 33 <= o < 127 and not ch.isalnum():
                bits |= 4
            if ch.isalnum() and o < 128:
                bits |= 8
            return bits
        if k == 'MemberExpr':
            return env.get(access_path(s))      # field reads are looked up by their path (given by the caller), else unknown
        if k == 'CallExpr':
            nm = prog.callee_name(s)
            if nm in stubs:
                return stubs[nm]([ev(a) for a in children(s)[1:]], [canon(a) for a in children(s)[1:]])
            g = prog.resolve_name(f.unit, nm) if nm else None
            if g is not None and getattr(g, 'body', None) is not None and max_steps > 50:
                vals = [ev(a) for a in children(s)[1:]]
                if any(v is None for v in vals):
                    return None
                return run_function(prog, g, vals, stubs, max_steps=max_steps // 2)
            return None
        if k == 'UnaryOperator':
            a = ev(children(s)[0])
            if a is None:
                return None
            from .frontend import dtype as _dt
            return _narrow_to({'-': -a, '+': a, '!': int(not a), '~': ~a}.get(s.get('opcode')), _dt(s))
        if k == 'BinaryOperator':
            op = s.get('opcode')
            if op == '=':
                p = access_path(children(s)[0])
                val = ev(children(s)[1])
                if p is None or val is None:
                    return None
                from .frontend import qtype as _qt
                val = _narrow_to(val, _qt(strip(children(s)[0])))
                env[p] = val
                return val
            a = ev(children(s)[0])
            if op == '&&':
                if a is None:
                    return None
                if not a:
                    return 0
                b = ev(children(s)[1])
                return None if b is None else int(bool(b))
            if op == '||':
                if a is None:
                    return None
                if a:
                    return 1
                b = ev(children(s)[1])
                return None if b is None else int(bool(b))
            b = ev(children(s)[1])
            if a is None or b is None:
                return None
            try:
                if op in ('+', '-', '*', '<<'):
                    from .frontend import dtype as _dt
                    return _narrow_to({'+': a + b, '-': a - b, '*': a * b, '<<': a << b}[op], _dt(s))
                return {'+': a + b, '-': a - b, '*': a * b, '==': int(a == b), '!=': int(a != b), '<': int(a < b),
                        '>': int(a > b), '<=': int(a <= b), '>=': int(a >= b), '&': a & b, '|': a | b, '^': a ^ b,
                        '/': int(a / b) if b else None, '%': (a - b * int(a / b)) if b else None,
                        '<<': a << b, '>>': a >> b}.get(op)
            except (ValueError, OverflowError):
                return None
        if k == 'ConditionalOperator':
            c = ev(children(s)[0])
            if c is None:
                return None
            return ev(children(s)[1 if c else 2])
        if k == 'CompoundAssignOperator':
            p = access_path(children(s)[0])
            a = env.get(p) if p else None
            b = ev(children(s)[1])
            if p is None or a is None or b is None:
                return None
            op = (s.get('opcode') or '')[:-1]
            try:
                val = {'+': a + b, '-': a - b, '*': a * b, '&': a & b, '|': a | b, '^': a ^ b, '<<': a << b, '>>': a >> b}.get(op)
            except (ValueError, OverflowError):
                return None
            if val is None:
                return None
            from .frontend import qtype as _qt
            val = _narrow_to(val, _qt(strip(children(s)[0])))
            env[p] = val
            return val
        return None

    while steps < max_steps:
        steps += 1
        visited[node.id] = visited.get(node.id, 0) + 1
        if visited[node.id] > 1 and node.kind == 'join':
            return None                      # a loop
        if node is cfg.exit:
            return None
        a = node.ast
        if node.kind == 'act' and isinstance(a, dict):
            k = a.get('kind')
            if k == 'ReturnStmt':
                return _narrow_to(ev(children(a)[0]), (f.rettype or '')) if children(a) else None
            if k == 'VarDecl':
                init = var_init(a)
                if init is not None:
                    v = ev(init)
                    if v is None:
                        return None
                    from .frontend import qtype as _qt
                    env[a.get('name')] = _narrow_to(v, _qt(a))
            elif k in ('BinaryOperator', 'CompoundAssignOperator', 'UnaryOperator', 'CallExpr'):
                if ev(a) is None and k in ('BinaryOperator', 'CompoundAssignOperator'):
                    return None
        if node.kind == 'cond':
            c = ev(a)
            if c is None:
                return None
            lab = 'T' if c else 'F'
            nxt = [s for (s, l) in node.succs if l == lab]
        elif node.kind == 'switch':
            c = ev(a)
            if c is None:
                return None
            nxt = []
            for (s, l) in node.succs:
                if isinstance(l, tuple) and l[0] == 'case' and s.info and s.info[0] == 'case':
                    cv = int_value(s.info[1])
                    if cv is not None and not isinstance(cv, str) and cv == c:
                        nxt = [s]
                        break
            if not nxt:
                nxt = [s for (s, l) in node.succs if l in ('default', 'nodefault')]
        else:
            nxt = [s for (s, l) in node.succs]
        if not nxt:
            return None
        node = nxt[0]
    return None
