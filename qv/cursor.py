"""Engine F: NUL-terminated cursor discipline (C17: CU1/CU2) and definite assignment (CU3).

Abstract domain per forward char cursor p (a `char *` local/param, or a base+index pair s[i]):
  lo(p)  = lower bound on how far the string's allocation is known to extend beyond p, established by having
           observed p[0..lo-1] non-NUL on this path - hence p[0..lo] are in bounds.  It is a fact about the
           allocation, so it survives later overwrites of those bytes.  lo = -1: one past the terminator
           (a valid pointer value, not dereferenceable); lo = -2: beyond.
  d(r,w) = lower bound of r - w for two cursors derived from the same base.
Integer/bool locals that are only ever assigned literal constants ("flags") are kept in the path state and
prune infeasible branches (the tokenisers steer by flags).  All components are capped, so the state space per
function is finite.  Only the first violation on a path is reported; the path is dropped there.
"""
import collections
from .frontend import walk, children, strip, strip_parens, qtype
from .expr import int_value, canon, var_init

CAP = 3
MAX_STEPS = 400000
CHARPTR = ('char *', 'const char *', 'unsigned char *', 'const unsigned char *')


def lit(e):
    v = int_value(e)
    if v is None or isinstance(v, str):
        return None
    return v


def var_of(e):
    """(id, name, type) of a plain local/param reference"""
    e = strip(e)
    if e.get('kind') == 'DeclRefExpr':
        r = e.get('_ref') or ('',)
        if r[0] in ('local', 'param'):
            return (r[1], r[2], qtype(e))
    return None


def ptr_off(e):
    """p, p + k, p - k (k literal) -> (var, k) for a char-pointer variable p"""
    e = strip(e)
    v = var_of(e)
    if v is not None and v[2] in CHARPTR:
        return v, 0
    if e.get('kind') == 'BinaryOperator' and e.get('opcode') in ('+', '-'):
        a, b = children(e)
        pa = ptr_off(a)
        kb = lit(b)
        if pa and kb is not None:
            return pa[0], pa[1] + (kb if e['opcode'] == '+' else -kb)
    return None


def deref_of(e):
    """*X or X[k] -> (cursor key, name, k).  X[i] with an integer variable i gives the index cursor (X, i)."""
    e = strip(e)
    if e.get('kind') == 'UnaryOperator' and e.get('opcode') == '*':
        p = ptr_off(children(e)[0])
        if p:
            return p[0][0], p[0][1], p[1]
        return None
    if e.get('kind') == 'ArraySubscriptExpr':
        a, b = children(e)
        p = ptr_off(a)
        k = lit(b)
        if p and k is not None:
            return p[0][0], p[0][1], p[1] + k
        iv = var_of(b)
        if p and p[1] == 0 and iv is not None and 'char' not in iv[2] and '*' not in iv[2]:
            return ('idx', p[0][0], iv[0]), '%s[%s]' % (p[0][1], iv[1]), 0
    return None


class St:
    __slots__ = ('m',)

    def __init__(self, d=None):
        self.m = dict(d or {})

    def key(self):
        return tuple(sorted(self.m.items(), key=repr))

    def copy(self):
        return St(self.m)

    def lo(self, v):
        return self.m.get(('lo', v))

    def setlo(self, v, x):
        if x is None:
            self.m.pop(('lo', v), None)
        else:
            self.m[('lo', v)] = max(-2, min(CAP, x))

    def window(self, v):
        best = self.lo(v)
        for k, dv in self.m.items():
            if k[0] == 'd' and k[2] == v:
                lr = self.lo(k[1])
                if lr is not None and dv > -2:
                    c = dv + lr
                    if best is None or c > best:
                        best = c
        return best

    def shift(self, v, k):
        l = self.lo(v)
        if l is not None:
            self.setlo(v, l - k if l - k >= -2 else -2)
        for key in list(self.m):
            if key[0] == 'd':
                if key[1] == v:
                    self.m[key] = max(-2, min(CAP, self.m[key] + k))
                elif key[2] == v:
                    self.m[key] = max(-2, min(CAP, self.m[key] - k))

    def drop(self, v):
        for key in list(self.m):
            if (key[0] == 'd' and (key[1] == v or key[2] == v)) or key == ('lo', v):
                del self.m[key]

    def assign_ptr(self, v, src, off):
        if src == v:
            self.shift(v, off)
            return
        for key in list(self.m):
            if key[0] == 'd' and (key[1] == v or key[2] == v):
                del self.m[key]
        if src is None:
            self.setlo(v, 0)
            return
        l = self.lo(src)
        self.setlo(v, None if l is None else l - off)
        self.m[('d', src, v)] = max(-2, min(CAP, -off))
        self.m[('d', v, src)] = max(-2, min(CAP, off))
        for key in list(self.m):
            if key[0] == 'd' and key[1] == src and key[2] not in (v, src):
                self.m[('d', v, key[2])] = max(-2, min(CAP, self.m[key] + off))
            if key[0] == 'd' and key[2] == src and key[1] not in (v, src):
                self.m[('d', key[1], v)] = max(-2, min(CAP, self.m[key] - off))


class Cursor:
    def __init__(self, prog, f, string_params, fresh_calls=('strdup', 'qstrtrim', 'qfile_load', 'qstrdupf'), init_lo=None, depth=0):
        self.prog = prog
        self.f = f
        self.init_lo = init_lo or {}         # parameter name -> window known by the caller (helper analysed in its context)
        self.depth = depth
        self.ret_lo = {}                     # return class ('T'/'F'/'?') -> {param name: minimal window at that return}
        self._summaries = {}
        self.cfg = f.cfg
        self.string_params = string_params
        self.viol = {}
        self.names = {}
        self.derefs = 0
        # flag locals: int/bool locals only ever assigned literal constants
        cand, bad = {}, set()
        for n in walk(f.body):
            k = n.get('kind')
            if k == 'VarDecl' and qtype(n) in ('int', 'bool', '_Bool'):
                init = var_init(n)
                if init is not None and lit(init) is None:
                    bad.add(n['id'])
                cand[n['id']] = n
            elif k == 'BinaryOperator' and n.get('opcode') == '=':
                v = var_of(children(n)[0])
                if v is not None and lit(children(n)[1]) is None:
                    bad.add(v[0])
            elif k == 'CompoundAssignOperator' or (k == 'UnaryOperator' and n.get('opcode') == '&'):
                v = var_of(children(n)[0])
                if v is not None:
                    bad.add(v[0])
        # flag locals and small counters: only ever assigned literals or stepped by one (their exact value is part of the
        # path state, values outside -1..8 are forgotten).  A stepped variable qualifies only if it is compared with literals
        # exclusively (a quartet position, not a loop index running to a variable bound).
        stepped_vars, nonlit_cmp = set(), set()
        for n in walk(f.body):
            k = n.get('kind')
            if k == 'UnaryOperator' and n.get('opcode') in ('++', '--'):
                v = var_of(children(n)[0])
                if v is not None:
                    stepped_vars.add(v[0])
            elif k == 'BinaryOperator' and n.get('opcode') in ('<', '<=', '>', '>=', '==', '!='):
                a_, b_ = children(n)
                for x_, y_ in ((a_, b_), (b_, a_)):
                    x0 = strip(x_)
                    if x0.get('kind') == 'UnaryOperator' and x0.get('opcode') in ('++', '--'):
                        x0 = strip(children(x0)[0])
                    v = var_of(x0)
                    if v is not None and lit(y_) is None:
                        nonlit_cmp.add(v[0])
        self.flags = set(cand) - bad - (stepped_vars & nonlit_cmp)
        compared_lit = set()
        for n in walk(f.body):
            if n.get('kind') == 'BinaryOperator' and n.get('opcode') in ('<', '<=', '>', '>=', '==', '!='):
                a_, b_ = children(n)
                for x_, y_ in ((a_, b_), (b_, a_)):
                    x0 = strip(x_)
                    if x0.get('kind') == 'UnaryOperator' and x0.get('opcode') in ('++', '--'):
                        x0 = strip(children(x0)[0])
                    v = var_of(x0)
                    if v is not None and lit(y_) is not None:
                        compared_lit.add(v[0])
        self.flags -= (stepped_vars - compared_lit)       # a stepped variable that is never tested against a literal: not tracked
        # index variables used as s[i]; count-bounded index loops (i < n with n another variable) are not NUL scans
        self.index_vars = set()
        for n in walk(f.body):
            d = deref_of(n) if n.get('kind') == 'ArraySubscriptExpr' else None
            if d and isinstance(d[0], tuple):
                self.index_vars.add(d[0][2])
        # a dereference s[i] is exempt when it sits in a loop whose condition bounds i by another variable
        self.exempt_subs = set()
        self.count_bounded = set()
        for L in walk(f.body):
            if L.get('kind') not in ('ForStmt', 'WhileStmt', 'DoStmt'):
                continue
            cond = L['inner'][2] if L.get('kind') == 'ForStmt' else (L['inner'][0] if L.get('kind') == 'WhileStmt' else L['inner'][1])
            if not cond:
                continue
            bounded = set()
            for n in walk(cond):
                if n.get('kind') == 'BinaryOperator' and n.get('opcode') in ('<', '<=', '>', '>=', '!='):
                    a, b = children(n)
                    va, vb = var_of(a), var_of(b)
                    op = n.get('opcode')
                    if va and va[2] not in CHARPTR and lit(b) is None and deref_of(b) is None and op in ('<', '<=', '!='):
                        bounded.add(va[0])
                    if vb and vb[2] not in CHARPTR and lit(a) is None and deref_of(a) is None and op in ('>', '>=', '!='):
                        bounded.add(vb[0])
            if bounded:
                for x in walk(L):
                    if x.get('kind') == 'ArraySubscriptExpr':
                        iv = var_of(children(x)[1])
                        if iv and iv[0] in bounded:
                            self.exempt_subs.add(id(x))


    def helper_summary(self, call, st, node):
        """call: a call to a static function of this unit that is handed tracked string cursors.  The helper is analysed in
        the caller's context (the windows known here become its entry windows); its violations are reported at its own
        lines; returns {cursor var id: {'T': window after a non-zero return, 'F': ... after a zero return}} or None."""
        if self.depth >= 2:
            return None
        nm = self.prog.callee_name(call)
        g = self.prog.resolve_name(self.f.unit, nm) if nm else None
        if g is None or getattr(g, 'body', None) is None or not g.static:
            return None
        args = children(call)[1:]
        bind = {}
        for p, a in zip(g.params, args):
            if qtype(p) in CHARPTR:
                po = ptr_off(a)
                if po and po[1] == 0 and st.window(po[0][0]) is not None:
                    # the window the caller knows for this cursor (through its own facts or its distance to another cursor)
                    bind[p.get('name')] = (po[0][0], st.window(po[0][0]))
        if not bind:
            return None
        key = (g.key, tuple(sorted((k, v[1]) for k, v in bind.items())))
        res = self._summaries.get(key)
        if res is None:
            sub = Cursor(self.prog, g, list(bind), init_lo={k: v[1] for k, v in bind.items()}, depth=self.depth + 1)
            try:
                sub.run()
            except RuntimeError:
                return None
            res = (sub.ret_lo, sub.viol, sub.derefs)
            self._summaries[key] = res
        ret_lo, viol, nder = res
        self.derefs += nder
        for (line, what), nd in viol.items():
            self.viol.setdefault((line, '%s (in %s, called from line %s)' % (what, g.name, node.line)), nd)
        out = {}
        for pname, (vid, _l) in bind.items():
            out[vid] = {cls: d.get(pname) for cls, d in ret_lo.items() if pname in d}
        return out

    def _is_raw_buffer(self, e):
        e = strip(e)
        return e.get('kind') == 'CallExpr' and self.prog.callee_name(e) in ('malloc', 'calloc', 'realloc', 'alloca')

    def report(self, node, line, what):
        self.viol.setdefault((line, what), node)

    def _idx_cursors(self, st, ivar):
        return [k[1] for k in st.m if k[0] == 'lo' and isinstance(k[1], tuple) and k[1][0] == 'idx' and k[1][2] == ivar]

    # ---- effects of evaluating an expression
    def eval(self, e, st, node):
        e = strip(e)
        k = e.get('kind')
        if k is None:
            return
        if k == 'BinaryOperator' and e.get('opcode') == '=':
            lhs, rhs = children(e)
            self.eval(rhs, st, node)
            lv = var_of(lhs)
            if lv is not None:
                self.names[lv[0]] = lv[1]
                if lv[2] in CHARPTR:
                    po = ptr_off(rhs)
                    if po:
                        st.assign_ptr(lv[0], po[0][0], po[1])
                    elif self._is_raw_buffer(rhs):
                        st.drop(lv[0])                       # malloc'ed buffer: not a NUL-terminated string, not tracked
                    else:
                        st.assign_ptr(lv[0], None, 0)      # a fresh NUL-terminated string / unknown start: window 0
                    # index cursors over this base are invalid now
                    for key in list(st.m):
                        if key[0] == 'lo' and isinstance(key[1], tuple) and key[1][1] == lv[0]:
                            del st.m[key]
                else:
                    c = lit(rhs)
                    if lv[0] in self.index_vars:
                        self._assign_index(st, lv[0], rhs)
                    if c is not None and lv[0] in self.flags:
                        st.m[('fl', lv[0])] = c
                    else:
                        st.m.pop(('fl', lv[0]), None)
                return
            d = deref_of(lhs)
            if d:
                self.check_access(d, st, node, lhs, write=True, zero=(lit(rhs) == 0))
            self.eval_lhs_side(lhs, st, node)
            return
        if k == 'CompoundAssignOperator':
            lhs, rhs = children(e)
            self.eval(rhs, st, node)
            lv = var_of(lhs)
            if lv is not None and e['opcode'] in ('+=', '-='):
                c = lit(rhs)
                if lv[2] in CHARPTR:
                    if c is None:
                        st.drop(lv[0])
                    else:
                        st.shift(lv[0], c if e['opcode'] == '+=' else -c)
                    return
                if lv[0] in self.index_vars:
                    for cur in self._idx_cursors(st, lv[0]):
                        if c is None:
                            st.drop(cur)
                        else:
                            st.shift(cur, c if e['opcode'] == '+=' else -c)
            if lv is not None:
                st.m.pop(('fl', lv[0]), None)
            return
        if k == 'UnaryOperator' and e.get('opcode') in ('++', '--'):
            lv = var_of(children(e)[0])
            if lv is not None:
                dlt = 1 if e['opcode'] == '++' else -1
                if lv[2] in CHARPTR:
                    st.shift(lv[0], dlt)
                else:
                    for cur in self._idx_cursors(st, lv[0]):
                        st.shift(cur, dlt)
                    fl = st.m.get(('fl', lv[0]))
                    if fl is not None and lv[0] in self.flags and -1 <= fl + dlt <= 8:
                        st.m[('fl', lv[0])] = fl + dlt
                    else:
                        st.m.pop(('fl', lv[0]), None)
            return
        if k == 'UnaryOperator' and e.get('opcode') == '*':
            inner = strip(children(e)[0])
            if inner.get('kind') == 'UnaryOperator' and inner.get('opcode') in ('++', '--') and inner.get('isPostfix'):
                lv = var_of(children(inner)[0])
                if lv is not None and lv[2] in CHARPTR:
                    self.check_access((lv[0], lv[1], 0), st, node, e, write=False)
                    st.shift(lv[0], 1 if inner['opcode'] == '++' else -1)
                    return
        d = deref_of(e)
        if d:
            self.check_access(d, st, node, e, write=False)
            if e.get('kind') == 'ArraySubscriptExpr':
                return
            return
        if k == 'CallExpr':
            for a in children(e)[1:]:
                self.eval(a, st, node)
            if node is not None and node.kind != 'cond':
                self.helper_summary(e, st, node)
            return
        for c in children(e):
            self.eval(c, st, node)

    def _assign_index(self, st, ivar, rhs):
        """i = <literal> / i = other index var: re-anchor index cursors (s, i)"""
        for cur in self._idx_cursors(st, ivar):
            st.drop(cur)
        c = lit(rhs)
        if c is not None and c >= 0:
            # cursors are created lazily at first dereference with window of the base minus c
            st.m[('iv', ivar)] = c
        else:
            ov = var_of(rhs)
            st.m.pop(('iv', ivar), None)
            if ov is not None and ov[0] in self.index_vars:
                for key in list(st.m):
                    if key[0] == 'lo' and isinstance(key[1], tuple) and key[1][0] == 'idx' and key[1][2] == ov[0]:
                        st.m[('lo', ('idx', key[1][1], ivar))] = st.m[key]

    def eval_lhs_side(self, lhs, st, node):
        l = strip(lhs)
        if l.get('kind') == 'UnaryOperator' and l.get('opcode') == '*':
            inner = strip(children(l)[0])
            if inner.get('kind') == 'UnaryOperator' and inner.get('opcode') in ('++', '--') and inner.get('isPostfix'):
                lv = var_of(children(inner)[0])
                if lv is not None and lv[2] in CHARPTR:
                    self.check_access((lv[0], lv[1], 0), st, node, lhs, write=True, zero=False)
                    st.shift(lv[0], 1 if inner['opcode'] == '++' else -1)

    def _ensure_idx(self, st, cur):
        """create an index cursor lazily: (base, i) with i known constant c and base window w -> lo = w - c"""
        if st.lo(cur) is not None:
            return
        base, ivar = cur[1], cur[2]
        c = st.m.get(('iv', ivar))
        wb = st.window(base)
        if c is not None and wb is not None:
            st.setlo(cur, wb - c)

    def check_access(self, d, st, node, expr, write, zero=False):
        v, name, j = d
        if isinstance(v, tuple):
            if id(strip(expr)) in self.exempt_subs:
                return
            self._ensure_idx(st, v)
        w = st.window(v)
        if w is None:
            return
        self.derefs += 1
        ok = (j < w) if (write and not zero) else (j <= w)
        if j < 0 and not write:
            ok = True      # reading behind a cursor that has advanced is inside the string
        if not ok:
            self.report(node, expr.get('_line') or node.line,
                        '%s of %s%s with only %d byte(s) known to lie before the terminator: %s' % (
                            'write' if write else 'read', name, ('[%d]' % j) if j else '',
                            max(w, 0), 'steps over the terminating NUL' if w >= -1 else 'cursor is already past the terminator'))
            st.m[('dead',)] = 1

    # ---- branch refinement
    def refine(self, e, st, label, node):
        s = strip(e)
        k = s.get('kind')
        truth = (label == 'T')
        st = st.copy()
        self.eval(e, st, node)
        if ('dead',) in st.m:
            return st

        def nonzero_fact(d):
            v = d[0]
            if isinstance(v, tuple):
                self._ensure_idx(st, v)
            base = st.window(v)
            if base is None:
                return
            l = st.lo(v)
            cur = l if l is not None else -2
            if d[2] + 1 > cur and d[2] <= base:
                st.setlo(v, d[2] + 1)

        d = deref_of(s)
        if d:
            if truth:
                nonzero_fact(d)
            return st
        # a predicate helper over the cursor: `if (helper(p, ...))`, `if (!helper(...))`, `helper(...) == false`
        hc, pol = None, truth
        if k == 'CallExpr':
            hc = s
        elif k == 'UnaryOperator' and s.get('opcode') == '!' and strip(children(s)[0]).get('kind') == 'CallExpr':
            hc, pol = strip(children(s)[0]), not truth
        elif k == 'BinaryOperator' and s.get('opcode') in ('==', '!='):
            a_, b_ = children(s)
            for x_, y_ in ((a_, b_), (b_, a_)):
                if strip(x_).get('kind') == 'CallExpr' and lit(y_) is not None:
                    hc = strip(x_)
                    eqv = (s['opcode'] == '==') == truth          # call == literal holds on this edge
                    pol = eqv if lit(y_) != 0 else not eqv
        if hc is not None:
            summ = self.helper_summary(hc, st, node)
            if summ:
                for vid, byc in summ.items():
                    w = byc.get('T' if pol else 'F')
                    if w is None and '?' in byc:
                        w = byc['?']
                    if w is not None and (st.lo(vid) is None or w > st.lo(vid)):
                        st.setlo(vid, w)
                return st
        if k == 'CallExpr':
            # <ctype.h> predicate (function form) true on a byte => the byte is not NUL
            nm = self.prog.callee_name(s)
            if nm and nm.startswith('is') and children(s)[1:]:
                dd = deref_of(children(s)[1])
                if dd and truth:
                    nonzero_fact(dd)
            return st
        if k == 'BinaryOperator' and s.get('opcode') in ('==', '!='):
            a, b = children(s)
            da, db = deref_of(a), deref_of(b)
            ca, cb = lit(a), lit(b)
            dd, cc = (da, cb) if da else (db, ca)
            if dd and cc is not None:
                eq = (s['opcode'] == '==') == truth
                if (eq and cc != 0) or ((not eq) and cc == 0):
                    nonzero_fact(dd)
                return st
            if dd and cc is None:
                # *p == stop (a variable): if the comparison partner is non-NUL we learn nothing
                return st
            va, vb = var_of(a), var_of(b)
            vv, cc = (va, cb) if va is not None else (vb, ca)
            if vv is not None and cc is not None:
                fl = st.m.get(('fl', vv[0]))
                eq = (s['opcode'] == '==') == truth
                if fl is not None:
                    if (fl == cc) != eq:
                        return None
                elif eq and vv[0] in self.flags:
                    st.m[('fl', vv[0])] = cc
                return st
        def stepped(x):
            """(var, value used in the comparison) for `++v`, `v++`, `--v`, `v--` (the step itself was applied by eval)"""
            x0 = strip(x)
            if x0.get('kind') == 'UnaryOperator' and x0.get('opcode') in ('++', '--'):
                v0 = var_of(children(x0)[0])
                if v0 is not None:
                    fl0 = st.m.get(('fl', v0[0]))
                    if fl0 is None:
                        return v0, None
                    d0 = 1 if x0['opcode'] == '++' else -1
                    return v0, (fl0 - d0 if x0.get('isPostfix') else fl0)
            return None, None
        if k == 'BinaryOperator' and s.get('opcode') in ('>', '<', '>=', '<=', '==', '!='):
            a, b = children(s)
            sv, val = stepped(a)
            cb = lit(b)
            if sv is not None and val is not None and cb is not None:
                res = {'>': val > cb, '<': val < cb, '>=': val >= cb, '<=': val <= cb, '==': val == cb, '!=': val != cb}[s['opcode']]
                return st if res == truth else None
        if k == 'BinaryOperator' and s.get('opcode') in ('>', '<', '>=', '<='):
            a, b = children(s)
            va, cb = var_of(a), lit(b)
            if va is not None and cb is not None:
                fl = st.m.get(('fl', va[0]))
                if fl is not None:
                    res = {'>': fl > cb, '<': fl < cb, '>=': fl >= cb, '<=': fl <= cb}[s['opcode']]
                    if res != truth:
                        return None
            # range tests on a byte: '0' <= *p, *p <= '9' etc. say nothing about NUL unless lower bound > 0
            da, db = deref_of(a), deref_of(b)
            ca, cb2 = lit(a), lit(b)
            if da and cb2 is not None and truth and s['opcode'] in ('>', '>=') and (cb2 > 0 or (s['opcode'] == '>' and cb2 >= 0)):
                nonzero_fact(da)
            if db and ca is not None and truth and s['opcode'] in ('<', '<=') and (ca > 0 or (s['opcode'] == '<' and ca >= 0)):
                nonzero_fact(db)
            return st
        v = var_of(s)
        if v is not None:
            fl = st.m.get(('fl', v[0]))
            if fl is not None and (fl != 0) != truth:
                return None
        return st

    def run(self):
        cfg = self.cfg
        states = {n.id: set() for n in cfg.nodes}
        st0 = St()
        for p in self.f.params:
            if qtype(p) in CHARPTR and p.get('name') in self.string_params:
                st0.setlo(p['id'], self.init_lo.get(p.get('name'), 0))
                self.names[p['id']] = p['name']
        states[cfg.entry.id].add(st0.key())
        work = collections.deque([(cfg.entry, st0)])
        steps = 0
        while work:
            n, st = work.popleft()
            if ('dead',) in st.m:
                continue
            steps += 1
            if steps > MAX_STEPS:
                raise RuntimeError('state explosion in %s' % self.f.name)
            outs = []
            if n.kind == 'cond':
                for (s, lab) in n.succs:
                    r = self.refine(n.ast, st, lab, n)
                    if r is not None:
                        outs.append((s, r))
            elif n.kind == 'switch':
                st2 = st.copy()
                self.eval(n.ast, st2, n)
                d = deref_of(n.ast)
                for (s, lab) in n.succs:
                    st3 = st2.copy()
                    if d and s.kind == 'join' and s.info and s.info[0] == 'case':
                        c = lit(s.info[1])
                        if c:
                            l = st3.lo(d[0])
                            if l is not None and d[2] + 1 > l:
                                st3.setlo(d[0], d[2] + 1)
                    outs.append((s, st3))
            else:
                st2 = st.copy()
                a = n.ast
                if isinstance(a, dict) and n.kind == 'act':
                    if a.get('kind') == 'VarDecl':
                        init = var_init(a)
                        self.names[a['id']] = a.get('name')
                        if init is not None:
                            self.eval(init, st2, n)
                            if qtype(a) in CHARPTR:
                                po = ptr_off(init)
                                if po:
                                    st2.assign_ptr(a['id'], po[0][0], po[1])
                                elif self._is_raw_buffer(init):
                                    st2.drop(a['id'])
                                else:
                                    st2.assign_ptr(a['id'], None, 0)
                            else:
                                c = lit(init)
                                if a['id'] in self.index_vars:
                                    self._assign_index(st2, a['id'], init)
                                if c is not None and a['id'] in self.flags:
                                    st2.m[('fl', a['id'])] = c
                    elif a.get('kind') == 'ReturnStmt':
                        if children(a):
                            self.eval(children(a)[0], st2, n)
                            v = lit(children(a)[0])
                            cls = '?' if v is None else ('T' if v != 0 else 'F')
                            for p in self.f.params:
                                if p.get('name') in self.string_params:
                                    l = st2.lo(p['id'])
                                    cur = self.ret_lo.setdefault(cls, {})
                                    l = -2 if l is None else l
                                    cur[p['name']] = l if p['name'] not in cur else min(cur[p['name']], l)
                    else:
                        self.eval(a, st2, n)
                for (s, lab) in n.succs:
                    outs.append((s, st2))
            for (s, st3) in outs:
                k = st3.key()
                if k not in states[s.id]:
                    states[s.id].add(k)
                    work.append((s, st3))
        return steps


# Frozen site list (each confirmed by reading): function -> (unit, NUL-terminated string parameters)
SITES = [
    ('qurl_decode', 'src/utilities/qencode.c', ['str']),
    ('qbase64_decode', 'src/utilities/qencode.c', ['str']),
    ('qhex_decode', 'src/utilities/qencode.c', ['str']),
    ('qparse_queries', 'src/utilities/qencode.c', ['query']),
    ('_q_makeword', 'src/internal/qinternal.c', ['str']),
    ('_parse_inline', 'src/extensions/qaconf.c', []),
    ('_is_str_number', 'src/extensions/qaconf.c', ['s']),
    ('_is_str_bool', 'src/extensions/qaconf.c', ['s']),
    ('qconfig_parse_str', 'src/extensions/qconfig.c', ['str']),
    ('_parsestr', 'src/extensions/qconfig.c', ['str']),
    ('qlisttbl_load', 'src/containers/qlisttbl.c', []),
]


def rule_cu1(prog, rep, rid='CU1'):
    rep.rule(rid, 'every dereference through a NUL-terminated cursor stays within the bytes known to precede the terminator; a cursor '
                  'is never dereferenced at or moved beyond one-past-the-terminator; in-place decoders never write ahead of the read cursor')
    for (fname, unit, params) in SITES:
        f = prog.func(fname, unit)
        if f is None:
            rep.broken.append('scan site %s (%s) not found' % (fname, unit))
            continue
        c = Cursor(prog, f, params)
        try:
            steps = c.run()
        except RuntimeError as e:
            rep.broken.append(str(e))
            continue
        rep.instance(rid)
        rep.oblige(rid, not c.viol, {'function': fname, 'abstract_steps': steps, 'cursor_dereferences_checked': c.derefs})
        for (line, what) in sorted(c.viol)[:3]:
            rep.violation(rid, f, line, 'cursor:%s' % what.split(' with ')[0], what)


def rule_cu3(prog, rep, units, rid='CU3'):
    """Definite assignment: no read of a scalar/pointer local on a path without a prior assignment
    (a `goto` that bypasses an initialiser is an ordinary edge here)."""
    rep.rule(rid, 'no scalar or pointer local is read on a path on which it was never assigned (including goto past its initialiser)')
    for rel in units:
        for f in sorted(prog.funcs_in(rel), key=lambda x: x.line or 0):
            locals_ = {}
            for x in walk(f.body):
                if x.get('kind') == 'VarDecl' and '[' not in qtype(x) and x.get('storageClass') != 'static':
                    t = qtype(x)
                    r, d = f.unit.resolve_typedef(t)
                    if r is not None and d == 0:
                        continue           # by-value records: filled by memset / field stores
                    if t.startswith('va_list') or '__va_list' in t:
                        continue
                    locals_[x['id']] = x
            if not locals_:
                continue
            from .dataflow import node_defs
            # definitely-assigned sets: IN[n] = intersection over predecessors
            cfg = f.cfg
            ALLV = frozenset(locals_)
            IN = {cfg.entry.id: frozenset()}
            gens = {}
            for n in cfg.nodes:
                g = set()
                for (var, rhs, kind, _l) in node_defs(n):
                    if var in locals_ and kind in ('init', 'assign', 'addr'):
                        g.add(var)
                gens[n.id] = g
            work = [cfg.entry]
            while work:
                n = work.pop()
                out = IN[n.id] | gens[n.id]
                for (s2, _l) in n.succs:
                    old = IN.get(s2.id)
                    new = out if old is None else (old & out)
                    if old is None or new != old:
                        IN[s2.id] = frozenset(new)
                        work.append(s2)
            reported = set()
            nreads = 0
            for n in cfg.nodes:
                if n.id not in cfg.reachable or not isinstance(n.ast, dict) or n.kind == 'macro' or n.id not in IN:
                    continue
                lhs_ids = set()
                for x in walk(n.ast):
                    if x.get('kind') == 'BinaryOperator' and x.get('opcode') == '=':
                        l = strip_parens(children(x)[0])
                        if l.get('kind') == 'DeclRefExpr':
                            lhs_ids.add(id(l))
                    elif x.get('kind') == 'UnaryOperator' and x.get('opcode') == '&':
                        l = strip_parens(children(x)[0])
                        if l.get('kind') == 'DeclRefExpr':
                            lhs_ids.add(id(l))
                    elif x.get('kind') == 'UnaryExprOrTypeTraitExpr':
                        for y in walk(x):
                            lhs_ids.add(id(y))
                if n.ast.get('kind') == 'VarDecl':
                    start = var_init(n.ast)
                    if start is None:
                        continue
                    exprs = [start]
                else:
                    exprs = [n.ast]
                assigned_here = set()
                for e in exprs:
                    # evaluation order inside the node: assignments nested in the expression come first (x = f(); then uses)
                    for x in walk(e):
                        if x.get('kind') == 'DeclRefExpr' and (x.get('_ref') or ('',))[0] == 'local' and x['_ref'][1] in locals_ \
                                and id(x) not in lhs_ids:
                            nreads += 1
                            v = x['_ref'][1]
                            if v not in IN[n.id] and v not in gens[n.id] and x['_ref'][2] not in reported:
                                reported.add(x['_ref'][2])
                                decl = locals_[v]
                                rep.violation(rid, f, x.get('_line'), 'uninit:%s' % x['_ref'][2],
                                              'local `%s` (declared at line %s) is read at line %s on a path on which it was never '
                                              'assigned%s' % (x['_ref'][2], decl.get('_line'), x.get('_line'),
                                                              ' (a jump bypasses its initialiser)' if var_init(decl) is not None else ''))
            rep.instance(rid)
            rep.oblige(rid, not reported, {'function': f.name, 'local_reads_checked': nreads})
