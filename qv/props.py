"""Property -> rule sets."""
import os
from .frontend import load_program, repo_root, CONFIGS, AnalysisBroken
from .report import Report

QUICK_CONFIGS = ['cmake-release']
THOROUGH_CONFIGS = ['cmake-release', 'autotools', 'autotools-debug']

EXPECTED_UNITS = 28


def c14(prog, rep):
    from .lock import rule_c14
    rule_c14(prog, rep)
    rep.floor('A-exit', 55)
    rep.floor('A-exit', 600, 'obligations')
    rep.floor('A-macro', 14)
    rep.floor('A-mutex-field', 8)
    rep.explanation = (
        'Lock-depth typestate over the CFG of every function of every compiled unit. '
        'Q_MUTEX_ENTER/Q_MUTEX_LEAVE (recognised by macro identity at the expansion site) are +1/-1 '
        'events, calls are replaced by callee summaries computed to a fixpoint (indirect calls through '
        'the per-object method tables are resolved from the `X->f = fn` assignments). Obligation: at '
        'every return (and fall-off-end) of every non-static function the depth set is {0}; lock/unlock '
        'primitives are {+1}/{-1}; static helpers are single-valued. All CFG paths are covered, so every '
        'outcome class (invalid argument, missing key, range error, empty/full, allocation failure) is '
        'just a branch.')
    rep.assumptions += [
        'Q_MUTEX_ENTER / Q_MUTEX_LEAVE are atomic events (internals: trylock spin and forced unlock are not analysed beyond "calls pthread_mutex_trylock / pthread_mutex_unlock")',
        'external callbacks (user comparator, qaconf callbacks) are lock-depth neutral',
        'no longjmp / signal handlers',
        'qdatabase.c is compiled away (ENABLE_MYSQL undefined in every buildable configuration)',
    ]
    rep.trusted_base += ['clang 14 front end (JSON AST)', 'qv CFG builder', 'macro atomicity']


def c13(prog, rep):
    from .lockset import rule_c13
    rule_c13(prog, rep)
    rep.floor('B-guard', 40)
    rep.floor('B-single', 70)
    rep.floor('B-immut', 80)
    rep.explanation = (
        'Guarded-by (lockset) discipline: for every container operation C13 names (insert/put, get, remove/pop, '
        'clear, toarray/tostring of tree table, hash table, list table, list/queue/stack, vector) every access to '
        'mutable shared state (container fields, node fields, element buffer) must execute at lock depth >= 1 '
        '(depths from the lock-depth analysis; static helpers inherit the minimum depth over their call sites), and '
        'the operation must enter its outermost critical section at most once on every path. Fields exempt from '
        'guarding are *derived* as written-only-by-the-constructor. This decides the lock-discipline clause - '
        'necessary for linearizability and the failure mode the property cites - not linearizability itself.')
    rep.assumptions += ['mutex macros are atomic acquire/release', 'linearizability itself (a property of schedules) is not decided',
                        'a node whose every definition in the function is a fresh allocation is private until published (flow-insensitive)']


PROPS = {
    'C13': dict(fn=c13, level='other'),
    'C14': dict(fn=c14, level='proof'),
}


def run(prop, tier):
    if prop not in PROPS:
        raise AnalysisBroken('no check for property %s' % prop)
    spec = PROPS[prop]
    rep = Report(prop, tier, level=spec['level'])
    root = repo_root()
    configs = THOROUGH_CONFIGS if tier == 'thorough' else QUICK_CONFIGS
    for cfg in configs:
        prog = load_program(cfg, root)
        rep.cur_config = cfg
        rep.configs.append(cfg)
        if not rep.units:
            rep.units = [u.rel for u in prog.units]
        rep.broken_if(len(prog.units) < EXPECTED_UNITS - 2,
                      'only %d units found (expected about %d)' % (len(prog.units), EXPECTED_UNITS))
        spec['fn'](prog, rep)
    if tier == 'thorough' and spec.get('selftest'):
        spec['selftest'](rep)
    rep.notes['root'] = root
    return rep.finish()
