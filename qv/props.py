"""Property -> rule sets."""
import os
from .frontend import load_program, repo_root, CONFIGS, AnalysisBroken
from .report import Report

QUICK_CONFIGS = ['cmake-release']
THOROUGH_CONFIGS = ['cmake-release', 'autotools', 'autotools-debug']

EXPECTED_UNITS = 28

# Instance floors: a rule that matches (almost) nothing would pass vacuously, so the run is analysis-broken (exit 2) below
# these counts.  They are ~40% of the counts confirmed on the pinned tree (exact for the fixed-size tables); rules whose
# subject can legitimately disappear in a behaviour-preserving refactoring (e.g. no predecessor-pointer loop left, no
# memcpy within one object left) have no floor.
FLOORS = {
    "C01": {
        "T1": 13,
        "T2": 3,
        "T3": 9,
        "T4": 2,
        "F1": 1,
        "GS1": 1,
        "T6": 9
    },
    "C04": {
        "T1": 13,
        "T2": 3,
        "T5": 2,
        "T10": 1,
        "T14": 2,
        "T15": 3
    },
    "C05": {
        "S1": 1,
        "S2": 1,
        "T4": 1,
        "F1": 1,
        "GS1": 1
    },
    "C07": {
        "I1": 6,
        "I2": 56,
        "I3": 1,
        "I4": 2,
        "I5": 3,
        "I10": 1,
        "I11": 2,
        "I12": 20,
        "GS1": 1
    },
    "C08": {
        "L1": 1,
        "L2": 1,
        "L3": 1,
        "L4": 3,
        "T4": 2,
        "DL1": 1,
        "L6": 1,
        "F1": 1,
        "GS1": 1
    },
    "C09": {
        "E1": 8,
        "E2": 3,
        "T4": 1,
        "DL1": 1,
        "F1": 1,
        "E7": 1,
        "GS1": 4
    },
    "C10": {
        "IDX": 4,
        "V1": 1,
        "GS1": 1
    },
    "C11": {
        "IDX": 4,
        "M2": 16,
        "M3": 26,
        "I12": 20,
        "NC1": 30
    },
    "C12": {
        "R1": 28,
        "R3": 19
    },
    "C13": {
        "B-guard": 20,
        "B-immut": 53,
        "B-single": 38,
        "GS1": 9
    },
    "C14": {
        "A-exit": 27,
        "A-macro": 7,
        "A-mutex-field": 3
    },
    "C15": {
        "A1": 29,
        "A2": 38,
        "A3": 29
    },
    "C16": {
        "TB1": 257,
        "TB2": 64,
        "TB3": 256,
        "TB5": 2,
        "TB6": 1,
        "TB7": 1
    },
    "C17": {
        "CU1": 4,
        "CU3": 24,
        "CU4": 1,
        "BW1": 6,
        "LP1": 30,
        "LP2": 1,
        "NC1": 10
    },
    "C18": {
        "H1": 2,
        "H3-m128": 8,
        "H3-m32": 3,
        "H4-fnv": 2,
        "H5-md5": 30,
        "H6": 3
    },
    "C19": {
        "Q1": 1,
        "W1": 2,
        "W2": 204,
        "F1": 1,
        "Q5": 15
    },
    "C20": {
        "B1": 3,
        "B2": 1,
        "B3": 4,
        "B4": 1
    },
    "C06": {
        "K1": 1,
        "K2": 2,
        "K3": 1,
        "K4": 1,
        "I10": 1,
        "I11": 2
    },
    "C02": {
        "ROT": 3,
        "T3": 9
    },
    "C03": {
        "T11": 1,
        "T7": 2,
        "T10": 1,
        "T5": 2
    }
}


def c14(prog, rep):
    from .lock import rule_c14
    rule_c14(prog, rep)
    rep.explanation = (
        'Lock-depth typestate over the CFG of every function of every compiled unit. '
        'Q_MUTEX_ENTER/Q_MUTEX_LEAVE (recognised by macro identity at the expansion site) are +1/-1 '
        'events, calls are replaced by callee summaries computed to a fixpoint (indirect calls through '
        'the per-object method tables are resolved from the `X->f = fn` assignments). Obligation: at '
        'every return (and fall-off-end) of every non-static function the depth set is {0}; lock/unlock '
        'primitives are {+1}/{-1}; static helpers are single-valued. All CFG paths are covered, so every '
        'outcome class (invalid argument, missing key, range error, empty/full, allocation failure) is '
        'just a branch.')
    rep.assumptions += [
        'Q_MUTEX_ENTER / Q_MUTEX_LEAVE are atomic events (internals: trylock spin and forced unlock are not analysed beyond "calls pthread_mutex_trylock / pthread_mutex_unlock")',
        'external callbacks (user comparator, qaconf callbacks) are lock-depth neutral',
        'no longjmp / signal handlers',
        'qdatabase.c is compiled away (ENABLE_MYSQL undefined in every buildable configuration)',
    ]
    rep.trusted_base += ['clang 14 front end (JSON AST)', 'qv CFG builder', 'macro atomicity']


def c13(prog, rep):
    from .lockset import rule_c13
    rule_c13(prog, rep)
    from .lock import rule_recursive
    rule_recursive(prog, rep, rid='B-recursive')
    from .globrules import rule_g1
    rule_g1(prog, rep, CONTAINER_UNITS)
    rep.explanation = (
        'Guarded-by (lockset) discipline: for every container operation C13 names (insert/put, get, remove/pop, '
        'clear, toarray/tostring of tree table, hash table, list table, list/queue/stack, vector) every access to '
        'mutable shared state (container fields, node fields, element buffer) must execute at lock depth >= 1 '
        '(depths from the lock-depth analysis; static helpers inherit the minimum depth over their call sites), and '
        'the operation must enter its outermost critical section at most once on every path. Fields exempt from '
        'guarding are *derived* as written-only-by-the-constructor. This decides the lock-discipline clause - '
        'necessary for linearizability and the failure mode the property cites - not linearizability itself.')
    rep.assumptions += ['mutex macros are atomic acquire/release', 'linearizability itself (a property of schedules) is not decided',
                        'a node whose every definition in the function is a fresh allocation is private until published (flow-insensitive)']


CONTAINER_UNITS = ['src/containers/qtreetbl.c', 'src/containers/qhashtbl.c', 'src/containers/qhasharr.c',
                   'src/containers/qlisttbl.c', 'src/containers/qlist.c', 'src/containers/qvector.c',
                   'src/containers/qqueue.c', 'src/containers/qstack.c', 'src/containers/qgrow.c']


def c11(prog, rep):
    from . import copy as C, own as O, lockset as L, hashrules as H
    om = O.OwnModel(prog)
    sm = L.SharedModel(prog)
    for u in C.C11_UNITS:
        prog.unit(u)
    C.rule_m1(prog, rep, C.C11_UNITS)
    O.rule_m2(prog, rep, om, C.C11_UNITS, sm, fault=False)
    O.rule_m3(prog, rep, om, C.C11_UNITS)
    C.rule_m4(prog, rep, C.C11_UNITS, exact=False)
    H.rule_h2(prog, rep)
    from . import chain as CH, index as IX
    CH.rule_s3(prog, rep, C.C11_UNITS)
    IX.rule_idx(prog, rep)
    O.rule_m5(prog, rep, C.C11_UNITS)
    from . import hasharr as HA
    HA.rule_i9(prog, rep)
    from . import bufrules as BW
    BW.rule_growth_room(prog, rep, C.C11_UNITS)
    BW.rule_sentinel_closed(prog, rep, C.C11_UNITS)
    O.rule_m6(prog, rep, C.C11_UNITS)
    HA.rule_i12(prog, rep)
    from . import dlist as DL
    DL.rule_fresh_position(prog, rep, ['src/containers/qlisttbl.c', 'src/containers/qlist.c'])
    from . import dimrules as DM
    DM.rule_dim1(prog, rep, C.C11_UNITS)
    DM.rule_wid2(prog, rep, [u_ for u_ in C.C11_UNITS if not u_.endswith('qhash.c')])     # hash arithmetic is compared as value graphs under C18
    from . import nullrules as NR
    NR.rule_nc1(prog, rep, C.C11_UNITS)
    rep.explanation = (
        'Structural memory-safety clauses over the 11 anchored units, all CFG paths: M1 every memcpy/strcpy/strncpy whose '
        'operands can share a base object (origins over reaching definitions) must be provably disjoint (affine distance = '
        'length, distinct whole array elements, or i<j guard) - otherwise memmove; M2 every destruction site that frees an '
        'owned field frees all owned fields and the node (ownership derived from what the code frees; replace idiom and '
        'NULL-tested fields understood), free(node) requires its owned fields released; M3 no dereference / re-free / hand-over '
        'of a freed path before re-assignment; M4 allocation size equals copy length (or +1); H2 counted hash scans test the '
        'count before dereferencing. Not decided: absence of all undefined behaviour over all histories.')
    rep.assumptions += ['aliasing is tracked by access path (one level of local alias resolution)',
                        'callee effects through summaries: frees-parameter, releases-fields-of-parameter, returns-fresh',
                        'M2 on paths through an allocation-failure branch is reported under C15, not C11']


def c15(prog, rep):
    from . import copy as C, own as O, lockset as L
    om = O.OwnModel(prog)
    sm = L.SharedModel(prog)
    units = CONTAINER_UNITS
    for u in units:
        prog.unit(u)
    O.rule_a1(prog, rep, om, units)
    O.rule_a2(prog, rep, om, units, sm)
    O.rule_a3(prog, rep, om, units)
    O.rule_m2(prog, rep, om, units, sm, fault=True, rid='M2f')
    from . import tree as T
    T.rule_a4(prog, rep, T.restructurers(prog)[0])
    T.rule_fixup_bypass(prog, rep)
    O.rule_a7(prog, rep, C.C11_UNITS)
    O.rule_a8(prog, rep, C.C11_UNITS)
    O.rule_m3(prog, rep, om, C.C11_UNITS)
    O.rule_a9(prog, rep, units)
    from . import bufrules as BW0
    BW0.rule_sentinel_closed(prog, rep, units)
    from . import bufrules as BW
    BW.rule_fmt_complete(prog, rep, units)      # a failed growth of the formatting buffer must not be taken for a complete text
    BW.rule_valist_once(prog, rep, units)
    rep.explanation = (
        'Fault-path discipline in the nine container units (and qinternal.h macros as expanded there), all CFG paths with '
        'path-sensitive value tracking: A1 every allocation result (malloc/calloc/realloc/strdup/qmemdup/qstrdupf and repo '
        'functions returning fresh-or-NULL) is NULL-tested before it is dereferenced, handed to a dereferencing callee, or left '
        'in a must-be-non-NULL node field at return; A2 no may-fail allocation is reachable after a counter increment within '
        'the operation; A3 every block allocated in a function is freed/returned/stored/handed over on every path to a return, '
        'and p = realloc(p, n) is rejected; M2f destruction completeness on allocation-failure paths. Not decided: equality of '
        'observable state before/after a failed call.')
    rep.assumptions += ['must-be-non-NULL fields are an explicit table (qv/own.py MUST_NONNULL) with one reason each',
                        'unknown external callees are assumed to take ownership of pointer arguments (no leak reported)',
                        'string utilities outside the container units are not in scope of C15']


def c12(prog, rep):
    from . import escape as E, own as O, copy as C
    om = O.OwnModel(prog)
    for u in E.ACCESSOR_UNITS:
        prog.unit(u)
    E.rule_r1(prog, rep, E.ACCESSOR_UNITS)
    E.rule_r3(prog, rep, E.ACCESSOR_UNITS, om)
    E.rule_r2(prog, rep, E.ACCESSOR_UNITS)
    C.rule_m4(prog, rep, E.ACCESSOR_UNITS + ['src/utilities/qstring.c'], rid='R2-len')
    E.rule_r2_move(prog, rep, E.ACCESSOR_UNITS)
    E.rule_r2_fill(prog, rep, E.ACCESSOR_UNITS)
    E.rule_r2_bin(prog, rep, E.ACCESSOR_UNITS)
    E.rule_r2_src(prog, rep, E.ACCESSOR_UNITS)
    from . import strrules as SR
    SR.rule_snprintf_fit(prog, rep, E.ACCESSOR_UNITS)        # putstrf / addstrf format through the shared macro
    from . import bufrules as BW, tree as T
    BW.rule_valist_once(prog, rep, E.ACCESSOR_UNITS)
    T.rule_t8(prog, rep)
    T.rule_t8(prog, rep, rid='T8h', units=['src/containers/qhashtbl.c'], any_size=True)
    from . import hasharr as HA
    HA.rule_i7(prog, rep)
    rep.explanation = (
        'R1: for every raw key/value pointer parameter (const void*/const char*/void*/char*) of every public function of the '
        'nine container units, the pointer value (through locals, offsets, casts, ?:, strchr-like derivations and callee '
        'summaries) is never stored into memory - only handed to copying primitives. R3: for the 26 copy-flag accessors '
        '(analysed under the assumption newmem == true, with infeasible CFG edges pruned) and the 22 always-copy accessors '
        '(pop*, find_min/max, toarray/tostring, static-hash get*) every returned pointer and every value stored into the '
        'cursor\'s name/data originates from a fresh allocation (interprocedural fixpoint through wrappers). R2: the size '
        'recorded next to a private copy and the malloc size equal the copied length (+1 for a terminator). Not decided: '
        'byte-for-byte equality at run time.')
    rep.assumptions += ['qhasharr(memory) keeps the region address by design (one named exemption)',
                        'libc callees do not retain their pointer arguments']


def c16(prog, rep):
    from . import tables as T
    T.rule_c16(prog, rep)
    T.rule_b64_staging(prog, rep)
    T.rule_query_split(prog, rep)
    from . import bitlaws as BL
    BL.rule_b64_encode_law(prog, rep)
    BL.rule_b64_decode_law(prog, rep)
    BL.rule_hex_laws(prog, rep)
    BL.rule_pct_laws(prog, rep)
    BL.rule_codec_framing(prog, rep)
    BL.rule_codec_purity(prog, rep)
    BL.rule_query_pairs_stored(prog, rep)
    from . import dlist as DL
    DL.rule_decode_last(prog, rep, fname='qparse_queries', rid='TB19')     # the query parser trims/splits still-encoded text
    from . import strrules as SR
    SR.rule_printf_char_hex(prog, rep, ['src/utilities/qencode.c', 'src/utilities/qstring.c', 'src/internal/qinternal.c'])
    rep.explanation = (
        'Exhaustive check of every entry of the five codec tables, read from their initialiser lists in the type-checked AST '
        '(located by role and length inside their functions, not by name): URL classification table (256 entries: value is 0 '
        'or the byte itself; literal set is URL-safe ASCII without the reserved characters), Base64 alphabet (64 entries = RFC '
        '4648), Base64 reader map (256 entries: inverse of the writer, skip marker elsewhere), hex digit table (lowercase) and '
        'hex reader map (inverse, both cases). Plus the structural clauses: padding conditionals, output allocation 4*ceil(n/3)+1, '
        'unsigned-byte indexing of the 256-entry tables, \'+\'->space and %hh via the case-folding helper. Bit laws, decided by '
        'tabulating the pure arithmetic expressions of the codecs over their finite operand domains (the expressions are taken '
        'from the AST; staged bytes, table look-ups and the previous/current sextet become free variables; no codec is run): '
        'TB10 the four Base64 alphabet indexes are the four 6-bit fields of the staged 24-bit group, in order, and read exactly the '
        'bytes they need; TB11 in state k the Base64 decoder emits ((previous << 2k) | (current >> (6-2k))) & 0xff, the state '
        'steps k -> (k+1) mod 4 and the current sextet is carried unconditionally; TB12/TB13 hex digits are (b >> 4, b & 15) and '
        'decode to 16*hi + lo from cursor offsets 0 and 1; TB14 the URL escape digits are the hex digits of (c >> 4, c & 15) and '
        'the two-digit helper returns 16*hi + lo for all digit pairs in either case. Together with the table inversions this '
        'leaves only the loop framing (which bytes are staged when) undecided for round-trip equality.')
    rep.assumptions += ['round-trip equality for all byte strings is a value computation and is not decided']


def c07(prog, rep):
    from . import hasharr as HA
    HA.rule_c07(prog, rep)
    from .globrules import rule_g1
    rule_g1(prog, rep, [HA.UNIT])           # state kept outside the region is not seen by a second handle or another process
    HA.rule_i7(prog, rep)
    HA.rule_i8(prog, rep)
    HA.rule_i10(prog, rep)
    HA.rule_i11(prog, rep)
    HA.rule_i12(prog, rep)
    rep.explanation = (
        'I1: the image record types (header, slot, and every record nested by value, incl. the anonymous union) have no pointer, '
        'function-pointer or address-sized member - a type fact. I2: no pointer-to-integer conversion exists in qhasharr.c, no '
        'pointer value is stored into an image field, and image fields are accessed in qhasharr.c only (who-may-access over all '
        'units). I3: every write to the caller\'s region in the constructor is dominated by the memsize > 0 branch (attach is '
        'write-free). I4: every memcpy/memset into an array member of a slot has a length whose upper bound (clamp domain: '
        'constants, compiler-evaluated sizeof, `(a<K)?a:K`, `if (v>K) v=K` guards) is within the member\'s capacity, and the '
        'length stored in the uint8_t datasize field is bounded by 255 - evaluated with the actual Q_HASHARR_* knob values. '
        'I5: header counters are written only by put_data/remove_data/clear/constructor. I6: every copy_slot(d,s) is followed on '
        'all paths by remove_slot(s) and the back-link repair. Not decided: well-formedness of every reachable image.')
    rep.assumptions += ['slot indexes coming from stored link/hash fields and from callers are assumed in range (image invariant / API contract)',
                        'sizeof values are taken from the compiler (clang -emit-llvm of a constant initialiser)']


def c01(prog, rep):
    from . import tree as T, counts as K, own as O
    prog.unit(T.UNIT)
    om = O.OwnModel(prog)
    o = T.rule_t1(prog, rep)
    T.rule_t2(prog, rep, o)
    res = T.rule_t3(prog, rep)
    T.rule_a4(prog, rep, res, rid='T3-root')
    K.rule_t4(prog, rep, om, units=[T.UNIT])
    from . import escape as E
    E.rule_r2(prog, rep, [T.UNIT])
    E.rule_r2_move(prog, rep, [T.UNIT])
    E.rule_r2_fill(prog, rep, [T.UNIT])
    T.rule_t6(prog, rep)
    T.rule_fixup_bypass(prog, rep, rid='T9')
    T.rule_t13(prog, rep)
    T.rule_t15(prog, rep)
    from . import bufrules as BW
    BW.rule_fmt_complete(prog, rep, [T.UNIT])
    BW.rule_valist_once(prog, rep, [T.UNIT])
    from .globrules import rule_g1
    rule_g1(prog, rep, [T.UNIT])
    rep.explanation = (
        'Structural clauses of "exact sorted map" visible in code shape, over all CFG paths of qtreetbl.c: T1 node keys are only '
        'compared through tbl->compare (one orientation for all 7 call sites), copied, freed or moved - never inspected directly '
        '(string/binary keys, default/user ordering); T2 sign-domain analysis of the comparator result at each of the 8 descent '
        'steps of put_obj/remove_obj/find_obj/find_nearest: left only where the result can be negative, right only where it can '
        'be positive, never for an equal key; T3 every rotation/fix-up/recursive call result is stored back to the link that '
        'supplied its argument (23 call sites) and the public mutators store and blacken the returned root on every path; T4 the '
        'key count moves exactly with node creation/destruction on every path (no change on the replace branch). Not decided: '
        'equality with an ideal map over histories (runtime key sets and shapes).')
    rep.assumptions += ['the user comparator is a strict weak ordering', 'behaviour over histories is not decided']


def c04(prog, rep):
    from . import tree as T
    prog.unit(T.UNIT)
    T.rule_t5(prog, rep)
    T.rule_t5c(prog, rep)
    T.rule_t7(prog, rep)
    T.rule_t7b(prog, rep)
    T.rule_t8(prog, rep)
    T.rule_t10(prog, rep)
    T.rule_t11(prog, rep)
    T.rule_t11_reserved(prog, rep)
    T.rule_t14(prog, rep)
    T.rule_t15(prog, rep)
    from . import dimrules as DM
    DM.rule_wid2(prog, rep, [T.UNIT])
    o = T.rule_t1(prog, rep, rid='T1')
    T.rule_t2(prog, rep, o)
    from . import escape as E
    E.rule_r2_src(prog, rep, [T.UNIT])
    rep.explanation = (
        'T5 (history-independence / termination precondition): every loop that climbs through the per-node parent link is '
        'reachable only after the root\'s parent link was cleared in the same call (directly or through reset_iterator; the guarded '
        'form counts; getnext\'s continuation branch is exempt by contract), and every descent step x = x->left|right is preceded '
        'by x->child->next = x. T2 (shared with C01): the descent of find_nearest goes left exactly for a negative comparator '
        'result and right for a positive one. Floor semantics of the returned key and the continuation with getnext are not decided.')
    rep.assumptions += ['floor semantics and the getnext continuation are runtime behaviour and are not decided']


def c05(prog, rep):
    from . import chain as CH, counts as K, own as O
    om = O.OwnModel(prog)
    CH.rule_s1_s2(prog, rep)
    CH.rule_s3(prog, rep, [CH.UNIT])
    K.rule_t4(prog, rep, om, units=[CH.UNIT])
    from . import escape as E
    E.rule_r2(prog, rep, [CH.UNIT])
    E.rule_r2_fill(prog, rep, [CH.UNIT])
    CH.rule_s2_strcmp(prog, rep)
    CH.rule_s4(prog, rep)
    CH.rule_s5_cursor(prog, rep, [(CH.UNIT, 'qhashtbl_getnext', 1)])
    CH.rule_s6_clear(prog, rep)
    CH.rule_s7_fresh_cursor(prog, rep, [(CH.UNIT, 'qhashtbl_getnext', 1)])
    from . import bufrules as BW
    BW.rule_fmt_complete(prog, rep, [CH.UNIT])
    BW.rule_valist_once(prog, rep, [CH.UNIT])
    from . import tree as T
    T.rule_t8(prog, rep, units=[CH.UNIT], any_size=True)    # qhashtbl accepts empty values: a NULL copy of one is not ENOMEM
    T.rule_t13(prog, rep, rid='S8', unit=CH.UNIT, node='qhashtbl_obj_s', primary=())
    O.rule_m5(prog, rep, [CH.UNIT])      # an empty value is a legal value: a resize to zero bytes must not be read as failure
    from .globrules import rule_g1
    rule_g1(prog, rep, [CH.UNIT])
    rep.explanation = (
        'Sibling-agreement and protocol rules on qhashtbl.c: S1 put/get/remove compute the chain slot from the same closed '
        'expression (hash function, length argument, modulus field, obtained by expanding local definitions) and the walk resumes '
        'at (stored hash % range) + 1; S2 the three lookups use the same chain-match predicate (polarity-insensitive); S3 in the '
        'predecessor-pointer unlink loop every path that goes round again records the cursor as predecessor and the unlink handles '
        'head and interior entries; T4 the key count moves exactly with node creation/destruction. Not decided: map behaviour over '
        'histories and chain layouts.')
    rep.assumptions += ['map behaviour over histories is not decided']


def c10(prog, rep):
    from . import index as IX, lockset as L, copy as C
    sm = L.SharedModel(prog)
    from .globrules import rule_g1
    rule_g1(prog, rep, ['src/containers/qvector.c'])
    rep.rule('V1', 'element size, growth options and initial capacity are written only by the constructor')
    for fld in ('objsize', 'options', 'initnum'):
        rep.instance('V1')
        ws = [w for w in sm.writers.get(('qvector_s', fld), []) if w[0].name not in sm.constructors['qvector_s']]
        rep.oblige('V1', not ws, {'field': 'qvector_s.' + fld,
                                  'writers': sorted({w[0].name for w in sm.writers.get(('qvector_s', fld), [])})})
        for (wf, line) in ws:
            rep.violation('V1', wf, line, 'write:%s' % fld,
                          'vector->%s is written outside the constructor: every later element copy/shift uses the changed value '
                          '(e.g. resize-to-zero leaving objsize 0 makes the vector unusable)' % fld)
    rep.broken_if(('qvector_s', 'objsize') not in sm.fields, 'qvector_s.objsize not found')
    IX.rule_idx(prog, rep)
    IX.rule_vcount(prog, rep)
    IX.rule_helper_index(prog, rep)
    IX.rule_growth(prog, rep)
    IX.rule_shift_distance(prog, rep)
    C.rule_m1(prog, rep, ['src/containers/qvector.c'])
    from . import dimrules as DM
    DM.rule_dim1(prog, rep, ['src/containers/qvector.c'])
    rep.explanation = (
        'V1 configuration immutability (who-may-write over all units): objsize/options/initnum are written by qvector() only. IDX: '
        'for each of the 10 element-address computations vector->data + E*objsize, must-facts from dominating comparisons (each '
        'tagged signed/unsigned from the type-checked operands - the int-vs-size_t comparison is what rejects negative indexes) and '
        'definition-based bounds of loop variables prove 0 <= E and E < num (E <= num for insertion). VC: num++ only after the element '
        'store of an insertion, num-- exactly once after each successful remove_at, on every path. M1: in-place shifts are '
        'overlap-safe. Not decided: array behaviour over histories and growth-policy arithmetic.')
    rep.assumptions += ['capacity (max >= num) after resize is not proved', 'behaviour over histories is not decided']


def c18(prog, rep):
    from . import hashrules as H
    H.rule_c18(prog, rep)
    from . import bitlaws as BL
    BL.rule_codec_purity(prog, rep, rid='H9', unit='src/utilities/qhash.c', what='hash functions')
    from . import dimrules as DM
    DM.rule_dim1(prog, rep, ['src/utilities/qhash.c'])
    DM.rule_wid1(prog, rep, ['src/utilities/qhash.c', 'src/internal/md5/md5c.c'])
    H.rule_chunk_pointer_advances(prog, rep)
    rep.explanation = (
        'Agreement with the published algorithms as value graphs, decided on the AST without computing any hash: each function is '
        'turned by forward substitution (helpers inlined, const locals substituted, rotates recognised, commutative operands '
        'sorted, width-normalised) into hash-consed value graphs compared with graphs built from the published algorithm by the '
        'same constructors: MurmurHash3 x86_32 and x64_128 (block framing nblocks = n/B; loop body as state-out = f(state-in, block '
        'words); tail + finaliser for every length residue n & (B-1), selected by constant propagation through the switch / '
        'if-chain), FNV-1 32/64 (offset basis, per-byte step (h*prime) ^ byte with the shift-add form normalised to the multiplier, '
        'result), MD5 (initial state; the whole 64-step block transform with constants floor(2^32*|sin i|) and round functions '
        'canonicalised by truth table). H7: MD5 padding in the table form the code has today - padding table 0x80,0..., pad length '
        'folded for the 64 buffered-byte counts, bit count encoded before the padding updates and appended last. H1/H2: no branch '
        'depends on a data byte and counted scans test the count first. H6: the containers use murmur3_32 for slots and MD5 for key '
        'digests. Not decided: MD5Update buffering, the file-range reader of qhashmd5_file.')
    rep.assumptions += ['MD5Update buffering and qhashmd5_file range reading are not modelled',
                        'integer widths/overflow behaviour of the C types are as the published algorithms assume (uint32_t/uint64_t)']


def c20(prog, rep):
    from . import configrules as CR
    CR.rule_c20(prog, rep)
    from . import dimrules as DM_
    DM_.rule_wid3(prog, rep, ['src/extensions/qaconf.c', 'src/extensions/qconfig.c'], quantity=('size', 'argc', 'num', 'count', 'len', 'cnt'))
    CR.rule_scan_abandon(prog, rep)
    CR.rule_argflag_shift(prog, rep)
    CR.rule_lineno_reset(prog, rep)
    CR.rule_number_classifier_closed(prog, rep)
    CR.rule_expansion_untouched(prog, rep)
    CR.rule_every_word_stored(prog, rep)
    from . import bitlaws as BL
    for _u in ('src/extensions/qaconf.c', 'src/extensions/qconfig.c'):
        BL.rule_codec_purity(prog, rep, rid='B11', unit=_u, what='configuration parsers')
    rep.explanation = (
        'Narrow structural clauses of the Apache-style parser (qaconf.c): B1 the literal set the boolean classifier compares against '
        '(case-insensitively) contains all eight documented spellings and maps the two polarities and "not a boolean" to three '
        'distinct results; B2 the boolean branch of the type check accepts exactly the two boolean outcomes and can write both "1" '
        'and "0"; B3 every assignment that makes the parser fail comes from an expansion that records a message with file path and '
        'line number, or propagates a nested failure; B4 the parser returns `failed ? -1 : count`, the count is incremented at one '
        'site reached by every loop iteration that created a directive record, and nested counts are added; B5 (INI parser, '
        'qconfig.c) the ${...} scan over a value is left early only on edges on which the end of the text was seen or the restart '
        'flag was set, so an unresolved reference is stepped over and references to its right are still expanded. Not decided: the '
        'callback stream / INI entry list as a function of the document (tokeniser, quoting, scopes, ${} expansion).')
    rep.assumptions += ['the callback stream, argument splitting/unescaping, section scopes and the INI-style parser are not decided']


def c08(prog, rep):
    from . import listtbl as LT, counts as K, own as O, escape as E
    om = O.OwnModel(prog)
    LT.rule_c08(prog, rep)
    from .globrules import rule_g1
    rule_g1(prog, rep, [LT.UNIT])
    K.rule_t4(prog, rep, om, units=[LT.UNIT])
    E.rule_r2(prog, rep, [LT.UNIT])
    E.rule_r2_move(prog, rep, [LT.UNIT])
    E.rule_r2_fill(prog, rep, [LT.UNIT])
    from . import dlist as DL
    DL.rule_unlink(prog, rep, LT.UNIT)
    DL.rule_link(prog, rep, LT.UNIT)
    DL.rule_matcher(prog, rep, LT.UNIT)
    DL.rule_decode_last(prog, rep)
    DL.rule_load_appends(prog, rep)
    from . import bufrules as BW
    BW.rule_growth_room(prog, rep, [LT.UNIT])
    BW.rule_fmt_complete(prog, rep, [LT.UNIT])
    BW.rule_valist_once(prog, rep, [LT.UNIT])
    DL.rule_fresh_position(prog, rep, [LT.UNIT])
    rep.explanation = (
        'Structural clauses of the ordered-multimap property in qlisttbl.c: L1 load returns a count incremented in the loading loop '
        'under the put result; L2 the sort exchanges neighbours only for a strictly positive comparison (stability) and exchanges '
        'every payload field; L3 save/load use the inverse codec pair under their flags and the same separator parameter; L4 each of '
        'the four behaviour options sets its own field and each field is read by the operation it governs; L5 every direction '
        'choice maps forward to first/next and backward to last/prev, insert-at-top links before first; T4 the entry count moves '
        'with node creation/destruction; R2 payload pointers and sizes stay paired; DL1 unlink protocol of the doubly linked chain; L6 key '
        'equality only through the option-selected matcher slots; L8 the loader trims/splits still-encoded text; L9 the loader never '
        'consults the insert-at-top option. Not decided: multimap behaviour over histories '
        'and the 16 option combinations.')
    rep.assumptions += ['behaviour over histories under the 16 option combinations is not decided']


def c09(prog, rep):
    from . import listrules as LR, counts as K, own as O, escape as E
    om = O.OwnModel(prog)
    LR.rule_c09(prog, rep)
    from .globrules import rule_g1
    rule_g1(prog, rep, ['src/containers/qlist.c', 'src/containers/qqueue.c', 'src/containers/qstack.c', 'src/containers/qgrow.c'])
    K.rule_t4(prog, rep, om, units=[LR.LIST])
    E.rule_r2(prog, rep, [LR.LIST])
    E.rule_r2_fill(prog, rep, [LR.LIST])
    from . import dlist as DL
    DL.rule_unlink(prog, rep, LR.LIST)
    DL.rule_link(prog, rep, LR.LIST)
    from . import bufrules as BW
    BW.rule_fmt_complete(prog, rep, ['src/containers/qgrow.c'])
    BW.rule_valist_once(prog, rep, ['src/containers/qgrow.c'])
    LR.rule_e7(prog, rep)
    LR.rule_e8(prog, rep)
    rep.explanation = (
        'E1: through the method table, every queue insert variant (push/pushstr/pushint) resolves to one list end and every '
        'remove/peek variant (pop*/get*) to the opposite end (FIFO); every stack variant to the same end (LIFO); every grow add '
        'variant appends at the tail and the flatteners walk first->next. E2: the list\'s first/last wrappers are the 0 / -1 forms of '
        'the *at operations. E3: the byte total is changed by exactly the stored element size wherever the count changes. E4: the '
        'link-in is dominated by the size-limit and index-range refusals. E3 also: the recorded size of a linked element is not '
        'changed without adjusting the byte total. E5: the index-to-node lookup starts its scan only under the must-facts '
        '0 <= index < num, the signedness of each comparison taken from its operand types. DL1: unlink protocol of the doubly '
        'linked chain (each side tested; end pointer re-assigned where the node is at that end; neighbour re-linked where it is '
        'not). T4/R2: count and payload/size pairing in qlist.c. Not decided: sequence behaviour of the list over histories and '
        'which element the nearest-end walk reaches.')
    rep.assumptions += ['sequence behaviour over histories is not decided']


def c02(prog, rep):
    from . import llrb as LL, tree as T
    prog.unit(T.UNIT)
    LL.rule_rot(prog, rep)
    res = T.rule_t3(prog, rep)
    T.rule_a4(prog, rep, res, rid='T3-root')
    T.rule_fixup_bypass(prog, rep, rid='T9')
    T.rule_t6(prog, rep)
    rep.explanation = (
        'Structural necessary conditions of "stays a valid left-leaning red-black tree", not validity of every reachable tree: ROT '
        'the three restructuring primitives (rotate_left, rotate_right, flip_color), evaluated symbolically as straight-line heap '
        'transformations over distinct symbolic nodes with helpers inlined, are exactly the published transformations (link moves, '
        'colour hand-over old-root -> new-root / old-root := red, negation of the three colours, return value, no other node field '
        'written); T3 every rotation / fix-up / recursive result is stored back into the link that supplied the argument; T3-root the '
        'public mutators store the returned root and blacken it on every path; T9 no return between a recursive descent and the '
        'way-up repairs. Which repairs are applied in which order (the 2-3-4 variant of this library differs from the textbook) and '
        'the invariants over reachable shapes are not decided.')
    rep.assumptions += ['distinct access paths from the subtree root denote distinct nodes (tree shape)',
                        'colour/black-height/search-order invariants over reachable trees are not decided']


def c03(prog, rep):
    from . import tree as T
    prog.unit(T.UNIT)
    T.rule_t11(prog, rep)
    T.rule_t11_reserved(prog, rep)
    T.rule_t7(prog, rep)
    T.rule_t7b(prog, rep)
    T.rule_t10(prog, rep)
    T.rule_t5(prog, rep)
    T.rule_t5c(prog, rep)
    rep.explanation = (
        'Protocol clauses of the stackless walk (epoch stamps + parent links), not "every key exactly once in ascending order" over '
        'histories: T11 the function that advances the 8-bit traversal id detects the wrap (test against 0 after the increment) and on '
        'the wrap clears the mark of every node through a function that assigns 0 to the mark and recurses into both subtrees - so marks '
        'of earlier walks and the zero mark of new nodes never equal a live id; T7 every end-of-walk exit of the walker advances the id, '
        'and no other public operation does; T10 a node is stamped only on paths that deliver it; T5/T5c every climb through the parent '
        'links, and every descent that records them, is preceded on all paths by the reset of the root\'s parent link (continuation of '
        'a walk from the caller\'s cursor exempt). The visiting order (left subtree, node, right subtree) and the behaviour over '
        'histories are not decided.')
    rep.assumptions += ['the table is not modified during a walk (as the property states)',
                        'the in-order visiting protocol of the walker loop is not decided']


def c06(prog, rep):
    from . import harrmap as HM, hasharr as HA
    HM.rule_k1(prog, rep)
    HM.rule_k2(prog, rep)
    HM.rule_k3(prog, rep)
    HM.rule_k4(prog, rep)
    HA.rule_i10(prog, rep)
    HA.rule_i11(prog, rep)
    HA.rule_i12(prog, rep)
    from . import dimrules as DM
    DM.rule_wid3(prog, rep, ['src/containers/qhasharr.c'])
    rep.explanation = (
        'Structural clauses of "exact bounded map with exact space accounting" in qhasharr.c; the map behaviour over histories, the '
        'fit boundary and the placement branch taken depend on the runtime occupancy pattern and are not decided. K1: every chunk-loop '
        'iteration of the writer that copies payload into a slot passes exactly one usedslots++ (path counting from the copy to the '
        'loop head), num++ only on the leading-slot arm and at most once per iteration. K2: in the releaser each remove_slot() is '
        'followed by exactly one usedslots-- before the next release/exit and num-- is passed exactly once on every path. K3: after '
        'the writer stored the entry\'s count through its index parameter, no failing return is reachable without remove_data() on that '
        'index (a failed put is never left partially written). K4: the lookup returns an index only on paths on which the length test, '
        'the stored-key memcmp and - unless the key is known to fit the slot - the digest memcmp succeeded (fact sets over CFG paths, '
        'dropped at each new candidate slot). I10: the digest is consulted only for key sizes for which the writer computed it. I11: '
        'every release of an entry goes with the chain-counter bookkeeping.')
    rep.assumptions += ['map behaviour over operation histories, the out-of-space boundary and the three-way placement are not decided',
                        'slot indexes coming from stored link/hash fields are assumed in range (image invariant; I12 under C07/C11 covers ring walks)']


PARSER_UNITS = ['src/utilities/qencode.c', 'src/internal/qinternal.c', 'src/extensions/qaconf.c', 'src/extensions/qconfig.c',
                'src/utilities/qstring.c', 'src/containers/qlisttbl.c']


def c17(prog, rep):
    from . import cursor as CU, copy as C
    CU.rule_cu1(prog, rep)
    CU.rule_cu3(prog, rep, PARSER_UNITS)
    from . import argvrules as AR
    AR.rule_argv_cells(prog, rep)
    from . import bufrules as BW
    BW.rule_bw1(prog, rep, PARSER_UNITS)
    from . import own as O
    O.rule_m6(prog, rep, PARSER_UNITS)
    from . import looprules as LP
    LP.rule_lp1(prog, rep, PARSER_UNITS)
    LP.rule_lp2(prog, rep, PARSER_UNITS)
    LP.rule_lp3(prog, rep, PARSER_UNITS)
    LP.rule_lp4(prog, rep, PARSER_UNITS)
    from . import nullrules as NR
    NR.rule_nc1(prog, rep, PARSER_UNITS)
    from . import dimrules as DM
    DM.rule_dim1(prog, rep, PARSER_UNITS)
    from . import strrules as SR
    SR.rule_bytetable_index(prog, rep, ['src/utilities/qencode.c', 'src/internal/qinternal.c', 'src/extensions/qaconf.c', 'src/extensions/qconfig.c'])
    from . import configrules as CR
    clf = CR.find_bool_classifier(prog)
    rep.rule('CU5', 'the word classifier whose acceptance lets the parser overwrite the word in place ("1"/"0") compares whole words '
                    '(no prefix match that would accept the empty word)')
    if clf is not None:
        CR.rule_whole_word(prog, rep, clf, 'CU5')
    C.rule_m1(prog, rep, ['src/utilities/qencode.c', 'src/extensions/qaconf.c', 'src/extensions/qconfig.c', 'src/internal/qinternal.c'])
    rep.explanation = (
        'CU1: abstract interpretation over each enumerated scan function (URL/Base64/hex decoders, query parser, word splitter, the '
        'two tokeniser loops of the Apache-style parser, number/bool classifiers, INI line splitter and ${} scanner, list-table load) '
        'in the safe-window domain: lo(p) = number of bytes after cursor p known (on this path) to precede the terminator, d(r,w) = '
        'lower bound of the distance between read and write cursors, plus flag locals kept in the path state. Every dereference p[j] '
        'needs j <= window(p); a cursor may reach one-past-the-terminator but not be dereferenced there or moved further; non-NUL '
        'stores need j < window (in-place decoders never write ahead of the reader, never over the terminator). All paths of the CFG '
        'are explored (finite capped state space: up to ~28k abstract steps for _parse_inline). CU3: definite-assignment (must) analysis '
        'for every scalar/pointer local of the parser units, goto edges included. CU4: counted-cell typestate for the argv array of '
        'the per-line record (exact saturating count of store-and-increment steps since allocation, partitioned by the literal-valued '
        'loop flags so the tokenizer loop is known to run once): argv[K] is read only after K+1 cells were stored. BW1: every '
        'explicit-extent write into a local buffer of known capacity (local char array or malloc\'ed local) fits - capacity minus '
        '(offset + length) folds to a constant >= 0 with locals expanded through their definitions and sizeof evaluated by the '
        'compiler, or the variable part is bounded by a dominating comparison. Not decided: termination (the ${} expansion loop\'s '
        'progress is a runtime fact) and accesses outside the enumerated cursor idioms (computed indexes, strlen-based tails).')
    rep.assumptions += ['string parameters listed in the site table are NUL-terminated', 'termination is not decided',
                        'count-bounded index loops (i < n) and computed indexes are not analysed by CU1']


def c19(prog, rep):
    from . import index as IX, copy as C
    IX.rule_q1(prog, rep)
    IX.rule_q2(prog, rep)
    C.rule_m1(prog, rep, ['src/utilities/qstring.c'])
    from . import bitlaws as BL
    BL.rule_codec_purity(prog, rep, rid='Q5', unit='src/utilities/qstring.c', what='string functions')
    from . import strrules as SR
    SR.rule_trimset(prog, rep)
    SR.rule_casemap(prog, rep)
    SR.rule_tailindex(prog, rep)
    SR.rule_bytetable_index(prog, rep, ['src/utilities/qstring.c'], control=['src/utilities/qencode.c'])
    SR.rule_snprintf_fit(prog, rep, ['src/utilities/qstring.c'])
    from . import bufrules as BW
    BW.rule_fmt_complete(prog, rep, ['src/utilities/qstring.c'])
    BW.rule_valist_once(prog, rep, ['src/utilities/qstring.c'])
    SR.rule_overwrite_step(prog, rep, ['src/utilities/qstring.c'])
    SR.rule_no_store_before_move(prog, rep)
    SR.rule_failure_untouched(prog, rep, ['src/utilities/qstring.c'])
    rep.explanation = (
        'Q1: for the size-parameterised routines of qstring.c (qstrcpy, qstrncpy, qstrgets - found by their `char *dst, size_t size` '
        'signature) every write into the destination is bounded: block copies and indexed stores need the must-fact len < size '
        '(from the clamp `if (n >= size) n = size - 1`, facts derived from comparisons and from assignments), delegation must pass '
        'dst and size unchanged to an already verified routine, and cursor writes must sit in a loop bounded by i < size - 1 in which the '
        'cursor advances no faster than i. M1: in-place routines use overlap-safe copies. W1: each byte-steered loop of the trim '
        'routines continues exactly for {SP,TAB,CR,LF} (loop condition evaluated for all 256 bytes, byte-independent conjuncts '
        'neutral). W2: the per-byte effect of the upper/lower-casing loops equals the ASCII case map. W3: 256-entry tables are '
        'indexed by values provably in 0..255 (control instances: the tables of qencode.c). W4: s[len - k] needs the must-fact '
        'len >= k. The functional clauses of replace / tokenizer / line reader and the output bound of qstrreplace are value '
        'computations and are not decided.')
    rep.assumptions += ['functional equality with the documented string functions is not decided']


PROPS = {
    'C17': dict(fn=c17, level='other'),
    'C19': dict(fn=c19, level='other'),
    'C09': dict(fn=c09, level='other'),
    'C08': dict(fn=c08, level='other'),
    'C20': dict(fn=c20, level='other'),
    'C18': dict(fn=c18, level='other'),
    'C10': dict(fn=c10, level='other'),
    'C05': dict(fn=c05, level='other'),
    'C01': dict(fn=c01, level='other'),
    'C04': dict(fn=c04, level='other'),
    'C07': dict(fn=c07, level='other'),
    'C06': dict(fn=c06, level='other'),
    'C02': dict(fn=c02, level='other'),
    'C03': dict(fn=c03, level='other'),
    'C16': dict(fn=c16, level='other'),
    'C11': dict(fn=c11, level='other'),
    'C12': dict(fn=c12, level='other'),
    'C15': dict(fn=c15, level='other'),
    'C13': dict(fn=c13, level='other'),
    'C14': dict(fn=c14, level='proof'),
}


def run(prop, tier):
    if prop not in PROPS:
        raise AnalysisBroken('no check for property %s' % prop)
    spec = PROPS[prop]
    root = repo_root()
    configs = THOROUGH_CONFIGS if tier == 'thorough' else QUICK_CONFIGS

    def attempt(view):
        rep = Report(prop, tier, level=spec['level'])
        expanded = []
        for cfg in configs:
            prog = load_program(cfg, root)
            if view:
                from .inline import inlined_view
                prog, done = inlined_view(prog)
                if cfg == configs[0]:
                    expanded = done
            from .dataflow import register_identity_functions
            register_identity_functions(prog)
            rep.cur_config = cfg
            rep.configs.append(cfg)
            if not rep.units:
                rep.units = [u.rel for u in prog.units]
            rep.broken_if(len(prog.units) < EXPECTED_UNITS - 2,
                          'only %d units found (expected about %d)' % (len(prog.units), EXPECTED_UNITS))
            spec['fn'](prog, rep)
            if cfg == configs[0]:
                for rid, n in FLOORS.get(prop, {}).items():
                    if rid in rep.rules:
                        rep.floor(rid, n)
                    else:
                        rep.broken.append('rule %s did not run' % rid)
        return rep, expanded

    exc = None
    rep = None
    try:
        rep, _e = attempt(bool(os.environ.get('QV_FORCE_INLINE')))       # (the variable exists to test the inliner itself)
    except AnalysisBroken as e:
        exc = e
    if exc is not None or rep.broken:
        # An anchor vanished.  Before giving up, look at the program with statement-level calls of single-exit static helpers
        # expanded in place (qv/inline.py): a helper extraction moves a protocol's stores out of the function a path rule
        # examines without changing behaviour.  The expanded view is accepted only when it is completely clean - every rule
        # finds its instances again and discharges them; otherwise the original answer (analysis-broken) stands.
        try:
            rep2, expanded = attempt(True)
            if expanded and not rep2.broken and not rep2.findings:
                rep2.notes['inlined_view'] = {'reason': str(exc) if exc is not None else '; '.join(rep.broken)[:300],
                                              'expanded_calls': ['%s <- %s (line %s)' % x for x in expanded][:60]}
                rep, exc = rep2, None
        except AnalysisBroken:
            pass
    if exc is not None:
        raise exc
    if tier == 'thorough' or os.environ.get('QV_SELFTEST'):
        from .mutants import run_selftest, run_corpus
        run_selftest(prop, rep, spec['fn'])
        if tier == 'thorough' or os.environ.get('QV_CORPUS'):
            run_corpus(prop, rep, spec['fn'])
    rep.notes['root'] = root
    return rep.finish()
