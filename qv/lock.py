"""Engine A: lock-depth typestate (C14; feeds C13)."""
import collections
from .frontend import walk, children, strip, strip_parens, Ext
from .expr import canon, int_value, is_null

LO, HI = -3, 6


class LockAnalysis:
    """Whole-program lock-depth summaries: for every function the set of net depth changes
    observable at its exits, computed to a fixpoint over the call graph."""

    def __init__(self, prog):
        self.prog = prog
        self.summary = {k: None for k in prog.funcs}     # None = no exit reached yet
        self.intended = {}                               # key -> single int used by callers
        self.cond = {}                                   # key -> (delta if it returns NULL/false, delta if non-NULL/true)
        self.external = collections.Counter()
        self.indirect_resolved = 0
        self._node_calls = {}
        self.iterations = 0
        self._fixpoint()

    # -- per node effects
    def node_calls(self, f, node):
        k = (f.key, node.id)
        c = self._node_calls.get(k)
        if c is None:
            c = []
            if node.kind != 'macro' and isinstance(node.ast, dict):
                for n in walk(node.ast):
                    if n.get('kind') == 'CallExpr':
                        c.append(n)
            self._node_calls[k] = c
        return c

    def effect(self, f, node, count=False):
        """Set of alternative depth deltas of executing this node."""
        if node.kind == 'macro':
            m = node.info[0]
            return {1} if m == 'Q_MUTEX_ENTER' else ({-1} if m == 'Q_MUTEX_LEAVE' else {0})
        total = {0}
        for call in self.node_calls(f, node):
            alts = self._call_effect(f, call, count)
            if not alts:
                return set()
            total = {a + b for a in total for b in alts}
        return total

    # -- return-value-correlated ("conditional lock") helpers -------------------------------------------------
    def _cond_call(self, f, call):
        """(d_null, d_nonnull) if every candidate callee of this call is a helper whose lock effect is determined by
        whether it returns NULL/false or not (e.g. `lock and look up: returns the element with the lock held, or NULL
        with the lock released`)."""
        cands = self.prog.callees(f.unit, call)
        if not cands or any(isinstance(c, Ext) or c.key not in self.cond for c in cands):
            return None
        vals = {self.cond[c.key] for c in cands}
        return vals.pop() if len(vals) == 1 else None

    def _node_plan(self, f, node):
        """For a node: (list of conditional calls as (call, bound variable or '@'), other calls)."""
        k = ('plan', f.key, node.id)
        c = self._node_calls.get(k)
        if c is not None:
            return c
        conds, others = [], []
        if not self.cond:
            return (conds, others)
        if node.kind != 'macro' and isinstance(node.ast, dict):
            bound = {}
            a = node.ast
            if a.get('kind') == 'VarDecl':
                from .expr import var_init
                i = var_init(a)
                if i is not None and strip(i).get('kind') == 'CallExpr':
                    bound[id(strip(i))] = a.get('name')
            for x in walk(a):
                if x.get('kind') == 'BinaryOperator' and x.get('opcode') == '=':
                    l, r = strip(children(x)[0]), strip(children(x)[1])
                    if l.get('kind') == 'DeclRefExpr' and r.get('kind') == 'CallExpr':
                        bound[id(r)] = (l.get('referencedDecl') or {}).get('name')
            for call in self.node_calls(f, node):
                cc = self._cond_call(f, call)
                if cc is not None:
                    conds.append((call, bound.get(id(call), '@%d' % node.id), cc))
                else:
                    others.append(call)
        c = (conds, others)
        self._node_calls[k] = c
        return c

    def _call_effect(self, f, call, count=False):
        alts = set()
        cands = self.prog.callees(f.unit, call)
        fn0 = strip(children(call)[0])
        if count and fn0.get('kind') == 'MemberExpr':
            if any(not isinstance(c, Ext) for c in cands):
                self.indirect_resolved += 1
        for c in cands:
            if isinstance(c, Ext):
                if count and fn0.get('kind') != 'DeclRefExpr' or (count and (fn0.get('_ref') or ('',))[0] != 'fn'):
                    self.external[c.desc] += 1
                alts.add(0)
                continue
            if c.key in self.cond:
                alts |= set(self.cond[c.key])
                continue
            if c.key in self.intended:
                alts.add(self.intended[c.key])
                continue
            s = self.summary[c.key]
            if s is None:
                continue
            alts |= s
        return alts

    @staticmethod
    def _null_test(e):
        """(tested thing, null_on_true): thing is a variable name or a CallExpr node"""
        s = strip_parens(e)
        k = s.get('kind')
        if k == 'UnaryOperator' and s.get('opcode') == '!':
            t = LockAnalysis._null_test(children(s)[0])
            return (t[0], not t[1]) if t else None
        if k == 'BinaryOperator' and s.get('opcode') in ('==', '!='):
            a, b = children(s)
            for x, y in ((a, b), (b, a)):
                if is_null(y) or int_value(y) == 0:
                    t = LockAnalysis._null_test(x)
                    if t:
                        # `x == NULL` is true when x is NULL; `(!x) == 0` is true when x is non-NULL
                        return (t[0], (s.get('opcode') == '==') != t[1])
            return None
        s0 = strip(s)
        if s0.get('kind') == 'DeclRefExpr':
            return ((s0.get('referencedDecl') or {}).get('name'), False)
        if s0.get('kind') == 'CallExpr':
            return (s0, False)
        if s0.get('kind') == 'BinaryOperator' and s0.get('opcode') == '=':
            l = strip(children(s0)[0])
            if l.get('kind') == 'DeclRefExpr':
                return ((l.get('referencedDecl') or {}).get('name'), False)
        return None

    def analyse(self, f, entry_depth=0, want_states=False, count=False, want_classes=False):
        """Forward propagation of (depth, facts) pairs; facts record, for locals bound to the result of a conditional
        helper (and for returned locals), whether they are NULL/false on this path.  Returns (exit node id -> depth set[,
        states as depth sets])."""
        from .dataflow import node_defs
        cfg = f.cfg
        names = {}
        for x in walk(f.decl):
            if x.get('kind') in ('VarDecl', 'ParmVarDecl'):
                names[x.get('id')] = x.get('name')
        # locals worth tracking: returned variables and variables bound to conditional-helper results
        tracked = set()
        for r in cfg.returns():
            if isinstance(r.ast, dict) and children(r.ast):
                e = strip(children(r.ast)[0])
                if e.get('kind') == 'DeclRefExpr':
                    tracked.add((e.get('referencedDecl') or {}).get('name'))
        for n in cfg.nodes:
            for (_c, v, _cc) in self._node_plan(f, n)[0]:
                tracked.add(v)
        start = (entry_depth, frozenset())
        state = {cfg.entry.id: {start}}
        work = [cfg.entry]
        exits = collections.defaultdict(set)
        exit_classes = collections.defaultdict(set)
        overflow = False
        while work:
            n = work.pop()
            ins = state[n.id]
            conds, others = self._node_plan(f, n) if self.cond else ([], None)
            if n.kind == 'macro' or not conds:
                eff = [(b, ()) for b in self.effect(f, n, count)]
            else:
                base = {0}
                for call in others:
                    alts = self._call_effect(f, call, count)
                    if not alts:
                        base = set()
                        break
                    base = {a + b for a in base for b in alts}
                eff = [(b, ()) for b in base]
                for (call, v, (d0, d1)) in conds:
                    eff = [(b + d, fs + ((v, cls),)) for (b, fs) in eff for (d, cls) in ((d0, 'N'), (d1, 'NN'))]
            killed = set()
            if n.kind != 'macro' and isinstance(n.ast, dict):
                killed = {names.get(d[0]) for d in node_defs(n)} - {None}
            outs = set()
            for (a, facts) in ins:
                if killed:
                    facts = frozenset(x for x in facts if x[0] not in killed)
                for (b, newf) in eff:
                    d = a + b
                    if LO <= d <= HI:
                        fs = facts
                        if newf:
                            fs = frozenset([x for x in facts if x[0] not in {y[0] for y in newf}] + list(newf))
                        outs.add((d, fs))
                    else:
                        overflow = True
            test = None
            if n.kind == 'cond' and isinstance(n.ast, dict) and tracked:
                test = self._null_test(n.ast)
                if test and isinstance(test[0], dict):
                    test = ('@%d' % n.id, test[1]) if any(test[0] is c for (c, _v, _cc) in conds) else None
                if test and test[0] not in tracked:
                    test = None
            for (s, lab) in n.succs:
                o2 = outs
                if test and lab in ('T', 'F'):
                    cls = 'N' if (lab == 'T') == test[1] else 'NN'
                    o2 = set()
                    for (d, fs) in outs:
                        known = [x[1] for x in fs if x[0] == test[0]]
                        if known and known[0] != cls:
                            continue
                        o2.add((d, fs if known else frozenset(list(fs) + [(test[0], cls)])))
                if s is cfg.exit:
                    exits[n.id] |= {d for (d, _fs) in o2}
                    if want_classes:
                        rc = '?'
                        if isinstance(n.ast, dict) and n.ast.get('kind') == 'ReturnStmt' and children(n.ast):
                            e = strip(children(n.ast)[0])
                            if is_null(e) or int_value(e) == 0:
                                rc = 'N'
                            elif isinstance(int_value(e), int):
                                rc = 'NN'
                            elif e.get('kind') == 'DeclRefExpr':
                                rc = ('var', (e.get('referencedDecl') or {}).get('name'))
                            elif e.get('kind') == 'CallExpr' and any(e is c for (c, _v, _cc) in conds):
                                rc = ('var', '@%d' % n.id)
                        for (d, fs) in o2:
                            c = rc
                            if isinstance(rc, tuple):
                                known = [x[1] for x in fs if x[0] == rc[1]]
                                c = known[0] if known else '?'
                            exit_classes[n.id].add((d, c))
                    continue
                cur = state.get(s.id)
                if cur is None:
                    state[s.id] = set(o2)
                    if o2:
                        work.append(s)
                elif not o2 <= cur:
                    cur |= o2
                    work.append(s)
        if want_classes:
            return exit_classes
        if want_states:
            return exits, {k: {d for (d, _fs) in v} for k, v in state.items()}, overflow
        return exits, overflow

    def _fixpoint(self):
        changed = True
        while changed and self.iterations < 50:
            changed = False
            self.iterations += 1
            for key, f in self.prog.funcs.items():
                exits, _ = self.analyse(f)
                s = set()
                for v in exits.values():
                    s |= v
                if s and s != self.summary[key]:
                    self.summary[key] = s
                    changed = True
            # a static helper whose exits disagree, but exactly along "returns NULL/false" versus "returns something":
            # its callers see the effect that matches how they branch on the result
            for key, f in self.prog.funcs.items():
                s = self.summary[key]
                if s and len(s) > 1 and f.static and key not in self.cond and key not in self.intended:
                    ec = self.analyse(f, want_classes=True)
                    byc = collections.defaultdict(set)
                    for v in ec.values():
                        for (d, c) in v:
                            byc[c].add(d)
                    if '?' not in byc and len(byc.get('N', ())) == 1 and len(byc.get('NN', ())) == 1:
                        self.cond[key] = (next(iter(byc['N'])), next(iter(byc['NN'])))
                        changed = True
                        for kk in [kk for kk in self._node_calls if kk[0] == 'plan']:
                            del self._node_calls[kk]
            # root-cause policy: a callee with a multi-valued summary is reported itself;
            # its callers see the effect of the majority of its exits
            for key, f in self.prog.funcs.items():
                s = self.summary[key]
                if s and len(s) > 1 and key not in self.intended and key not in self.cond:
                    exits, _ = self.analyse(f)
                    cnt = collections.Counter()
                    for v in exits.values():
                        for d in v:
                            cnt[d] += 1
                    best = sorted(cnt.items(), key=lambda kv: (-kv[1], abs(kv[0])))[0][0]
                    self.intended[key] = best
                    changed = True

    # -- witnesses
    def witness(self, f, exit_node_id, depth):
        """A CFG path (list of 'line: what') from entry to the exit node arriving with
        `depth`, found by BFS over (node, depth)."""
        cfg = f.cfg
        start = (cfg.entry.id, 0)
        parent = {start: None}
        dq = collections.deque([start])
        goal = None
        while dq:
            nid, d = dq.popleft()
            n = cfg.nodes[nid]
            for b in self.effect(f, n):
                d2 = d + b
                if not (LO <= d2 <= HI):
                    continue
                if nid == exit_node_id and d2 == depth:
                    goal = (nid, d)
                    dq.clear()
                    break
                for (s, lab) in n.succs:
                    if s is cfg.exit:
                        continue
                    st = (s.id, d2)
                    if st not in parent:
                        parent[st] = ((nid, d), lab)
                        dq.append(st)
            if goal:
                break
        path = []
        cur = goal
        while cur is not None:
            nid, d = cur
            n = cfg.nodes[nid]
            p = parent.get(cur)
            lab = p[1] if p else None
            what = n.kind
            if n.kind == 'macro':
                what = n.info[0]
            elif n.kind == 'cond':
                what = 'cond ' + canon(n.ast)[:60]
            elif n.kind == 'act' and isinstance(n.ast, dict):
                what = n.ast.get('kind', 'act')
            path.append('%s:%s depth=%d %s%s' % (f.relfile, n.line, d, what,
                                                  (' [%s]' % (lab,)) if lab else ''))
            cur = p[0] if p else None
        path.reverse()
        # keep only steps where something interesting happens
        return path

    def is_primitive(self, f):
        """A function whose body is exactly one lock-macro event."""
        ns = [n for n in f.cfg.nodes if n.id in f.cfg.reachable and n.kind in ('macro', 'act', 'cond', 'switch')]
        macros = [n for n in ns if n.kind == 'macro' and n.info[0] in ('Q_MUTEX_ENTER', 'Q_MUTEX_LEAVE')]
        others = [n for n in ns if n.kind != 'macro' and not (n.kind == 'act' and n.ast.get('_implicit'))]
        return len(macros) == 1 and not others


def lockable_records(prog):
    """Records with a `qmutex` field (derived, not named)."""
    out = {}
    for u in prog.units:
        for rname, flds in u.record_fields.items():
            if any(fl['name'] == 'qmutex' for fl in flds):
                out[rname] = True
    return sorted(out)


def rule_c14(prog, rep, la=None):
    la = la or LockAnalysis(prog)
    rep.rule('A-exit', 'every exit of every function returns at entry lock depth (lock primitives: +1/-1)')
    rep.rule('A-mutex-field', 'the qmutex field is written only by Q_MUTEX_NEW in a constructor')
    rep.rule('A-macro', 'Q_MUTEX_ENTER acquires and Q_MUTEX_LEAVE releases the pthread mutex of its operand')
    lockables = lockable_records(prog)
    rep.notes['lockable_records'] = lockables
    nfun = 0
    nexits = 0
    prim = []
    # functions that (transitively) touch a lock at all, for the evidence
    for key in sorted(prog.funcs, key=str):
        f = prog.funcs[key]
        exits, overflow = la.analyse(f, count=True)
        nfun += 1
        is_prim = la.is_primitive(f)
        if is_prim:
            prim.append(f.name)
        has_event = any(n.kind == 'macro' for n in f.cfg.nodes) or any(
            (la.summary.get(c.key) not in (None, {0})) for n in f.cfg.nodes for call in la.node_calls(f, n)
            for c in prog.callees(f.unit, call) if not isinstance(c, Ext))
        if has_event:
            rep.instance('A-exit')
        if overflow:
            rep.violation('A-exit', f, f.line, 'depth-unbounded',
                          'lock depth grows without bound (acquire inside a loop without release)')
        for nid, depths in sorted(exits.items()):
            node = f.cfg.nodes[nid]
            nexits += 1
            if is_prim:
                ok = depths in ({1}, {-1})
            elif f.static and key in la.cond:
                # conditional-lock helper: the depth at its exits is a function of whether it returns NULL/false
                ok = depths <= set(la.cond[key])
            elif f.static:
                # helper: single-valued on all exits (compared across exits below)
                ok = len(depths) <= 1
            else:
                ok = depths == {0}
            sample = None
            if has_event:
                sample = {'function': f.name, 'exit': '%s:%s' % (f.relfile, node.line),
                          'depths': sorted(depths)}
            rep.oblige('A-exit', ok, sample)
            if not ok:
                bad = sorted(d for d in depths if d != 0) or sorted(depths)
                construct = 'exit:' + exit_construct(f, node)
                rep.violation('A-exit', f, node.line, construct,
                              'returns with lock depth %s relative to entry (expected 0) at line %s'
                              % (sorted(depths), node.line), path=la.witness(f, nid, bad[0]))
        if f.static and not is_prim:
            s = la.summary.get(key)
            if s and len(s) > 1 and key not in la.cond:
                # exits individually single-valued but disagreeing with each other
                if not any(fd.function == f.name and fd.rule == 'A-exit' for fd in rep.findings):
                    rep.violation('A-exit', f, f.line, 'helper-multivalued',
                                  'static helper leaves the lock at different depths on different exits: %s'
                                  % sorted(s))
    rep.notes['functions_analysed'] = nfun
    rep.notes['exits_checked'] = nexits
    rep.notes['lock_primitives'] = sorted(prim)
    rep.notes['conditional_lock_helpers'] = {str(k): {'returns_null_or_false': v[0], 'returns_value': v[1]} for k, v in la.cond.items()}
    rep.notes['fixpoint_iterations'] = la.iterations
    rep.notes['indirect_calls_resolved'] = la.indirect_resolved
    rep.notes['external_callees_assumed_depth_neutral'] = dict(la.external.most_common(40))
    rep.notes['method_table_entries'] = len(prog.mtab)
    # --- side obligation: who writes qmutex
    for f in prog.funcs.values():
        for n in walk(f.body):
            if n.get('kind') == 'BinaryOperator' and n.get('opcode') == '=':
                l = strip(children(n)[0])
                if l.get('kind') == 'MemberExpr' and l.get('name') == 'qmutex':
                    rep.instance('A-mutex-field')
                    ok = n.get('_macro') == 'Q_MUTEX_NEW' or _is_null_store(n)
                    rep.oblige('A-mutex-field', ok, {'function': f.name, 'line': n.get('_line')})
                    if not ok:
                        rep.violation('A-mutex-field', f, n.get('_line'), 'qmutex-store',
                                      'the mutex field is re-assigned outside Q_MUTEX_NEW: "mutex present" '
                                      'can change between an acquire and its release')
    # --- side obligation: macro bodies
    seen_macros = set()
    for f in prog.funcs.values():
        for n in f.cfg.nodes:
            if n.kind == 'macro' and n.info[0] in ('Q_MUTEX_ENTER', 'Q_MUTEX_LEAVE'):
                m = n.info[0]
                names = set()
                for c in walk(n.ast):
                    if c.get('kind') == 'CallExpr':
                        nm = prog.callee_name(c)
                        if nm:
                            names.add(nm)
                rep.instance('A-macro')
                if m == 'Q_MUTEX_ENTER':
                    ok = bool(names & {'pthread_mutex_trylock', 'pthread_mutex_lock'})
                else:
                    ok = 'pthread_mutex_unlock' in names and not (names & {'pthread_mutex_trylock', 'pthread_mutex_lock'})
                rep.oblige('A-macro', ok, {'macro': m, 'function': f.name, 'calls': sorted(names)}
                           if m not in seen_macros else None)
                seen_macros.add(m)
                if not ok:
                    rep.violation('A-macro', ('src/internal/qinternal.h', m), n.line, m,
                                  '%s as expanded in %s does not %s the pthread mutex'
                                  % (m, f.name, 'acquire' if m == 'Q_MUTEX_ENTER' else 'release'))
    _macro_paths(prog, rep, la)
    rule_recursive(prog, rep)
    return la


def _macro_paths(prog, rep, la):
    """Inside the expansion of the lock macros (analysed as ordinary code in the lock/unlock
    primitives): every path on which the mutex operand is non-NULL must call
    pthread_mutex_unlock (LEAVE) / pthread_mutex_trylock|lock (ENTER)."""
    from .cfg import CFG
    from .own import cond_null_test
    rep.rule('A-macro-path', 'inside Q_MUTEX_LEAVE every path with a non-NULL mutex reaches pthread_mutex_unlock; '
                             'inside Q_MUTEX_ENTER every such path passes pthread_mutex_trylock/lock')
    for key in sorted(prog.funcs, key=str):
        f = prog.funcs[key]
        if not la.is_primitive(f):
            continue
        macro = [n for n in f.cfg.nodes if n.kind == 'macro'][0].info[0]
        want = {'pthread_mutex_unlock'} if macro == 'Q_MUTEX_LEAVE' else {'pthread_mutex_trylock', 'pthread_mutex_lock'}
        cfg = CFG(f, atomic_macros=False)
        rep.instance('A-macro-path')
        # locals holding the mutex operand (`qmutex_t *_m = (qmutex_t *)(tbl->qmutex);`, never re-assigned)
        from .expr import var_init
        aliases = set()
        for x in walk(f.body):
            if x.get('kind') == 'VarDecl' and var_init(x) is not None and canon(var_init(x)).endswith('qmutex'):
                aliases.add(x.get('name'))
        for x in walk(f.body):
            if x.get('kind') in ('BinaryOperator', 'CompoundAssignOperator') and (x.get('opcode') or '').endswith('=') \
                    and x.get('opcode') not in ('==', '!=', '<=', '>='):
                aliases.discard(canon(children(x)[0]))

        def has_call(n):
            if not isinstance(n.ast, dict):
                return False
            return any(c.get('kind') == 'CallExpr' and prog.callee_name(c) in want for c in walk(n.ast))
        # search a path entry -> exit avoiding `want` calls and avoiding the mutex-is-NULL branch
        seen = set()
        work = [(cfg.entry, [])]
        bad = None
        while work and bad is None:
            n, path = work.pop()
            if n.id in seen:
                continue
            seen.add(n.id)
            if has_call(n):
                continue
            for (s, lab) in n.succs:
                if n.kind == 'cond' and isinstance(n.ast, dict):
                    t = cond_null_test(n.ast)
                    if t and (t[0].endswith('qmutex') or t[0] in aliases) and ((lab == 'T') == t[1]):
                        continue        # mutex absent: nothing to release
                if s is cfg.exit:
                    bad = path + [n]
                    break
                work.append((s, path + [n]))
        ok = bad is None
        rep.oblige('A-macro-path', ok, {'function': f.name, 'macro': macro})
        if not ok:
            rep.violation('A-macro-path', ('src/internal/qinternal.h', macro), f.line, macro + ':path',
                          '%s as expanded in %s has a path with a non-NULL mutex that never calls %s '
                          '(the acquire/release is skipped on that path, so depths no longer pair up)'
                          % (macro, f.name, '/'.join(sorted(want))),
                          path=['%s:%s %s' % (f.relfile, x.line, x.kind + ((' ' + canon(x.ast)[:60]) if x.kind == 'cond' else ''))
                                for x in bad if x.kind in ('cond', 'act')])


def _is_null_store(n):
    from .expr import is_null
    return is_null(children(n)[1])


def exit_construct(f, node):
    """A line-number-free name for an exit: the n-th return of the function + its value."""
    rets = sorted(f.cfg.returns(), key=lambda x: (x.line or 0, x.id))
    idx = rets.index(node) if node in rets else -1
    val = ''
    if isinstance(node.ast, dict) and children(node.ast):
        val = canon(children(node.ast)[0])[:40]
    elif isinstance(node.ast, dict) and node.ast.get('_implicit'):
        val = '<end>'
    return '#%d:%s' % (idx, val)


def rule_recursive(prog, rep, rid='A-recursive'):
    """A container that exposes its lock to the user (a `lock` method in its method table) is meant to be used as
    `c->lock(c); c->op(c) ...; c->unlock(c)`, and several operations call other locking operations: every such nesting
    re-acquires the mutex.  The acquire macro force-releases a mutex it cannot get after a bounded number of attempts, which
    is harmless for a recursive mutex held by the same thread but really releases a plain one.  So the mutex of every such
    container is created recursive: in the expansion of the creation macro the branch that sets PTHREAD_MUTEX_RECURSIVE is
    taken (its condition is a constant after preprocessing)."""
    from .expr import eval_int
    rep.rule(rid, 'the mutex of every container that exposes lock()/unlock() is created recursive (nested acquisition by the '
                  'holder is part of the documented use)')
    exposed = {k[0] for k in prog.mtab if k[1] == 'lock'}
    for f in sorted(prog.funcs.values(), key=lambda x: (x.relfile, x.line or 0)):
        if f.body is None:
            continue
        sites = [x for x in walk(f.body) if x.get('kind') == 'IfStmt' and x.get('_macro') == 'Q_MUTEX_NEW' and any(
            y.get('kind') == 'CallExpr' and prog.callee_name(y) == 'pthread_mutexattr_settype' for y in walk(children(x)[1]))]
        # the innermost `if` around the call is the one that selects the mutex kind
        sites = [x for x in sites if not any(y is not x and y in sites for y in walk(children(x)[1]))]
        if not sites:
            continue
        rec = f.unit.resolve_typedef(f.rettype)[0] if f.rettype else None
        if rec not in exposed:
            continue
        for x in sites:
            rep.instance(rid)
            c = children(x)[0]
            v = eval_int(c, {})
            if v is None:
                sc = strip(c)
                if sc.get('kind') == 'BinaryOperator' and sc.get('opcode') == '==':
                    a, b = (int_value(y) for y in children(sc))
                    if isinstance(a, int) and isinstance(b, int):
                        v = int(a == b)
            ok = bool(v)
            rep.oblige(rid, ok, {'constructor': f.name, 'record': rec, 'recursive_branch_condition': canon(c)})
            if not ok:
                rep.violation(rid, f, x.get('_line'), 'mutex-kind', 'the mutex of %s is created non-recursive (%s): the documented '
                              'lock(); ...; unlock() bracket around other operations re-acquires it, and the acquire macro then '
                              'force-releases the caller\'s own lock after its retry limit' % (rec, canon(c)))
