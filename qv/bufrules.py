"""BW1 — bounded writes into local buffers of known capacity (parser and string units).

For every local buffer B whose capacity C is known in the function — a local array `T B[N]`, or a local pointer whose single
reaching definition is malloc(n)/calloc(a, b) — every write whose extent is explicit must fit:
    memcpy/memmove/strncpy/memset(B + off, _, L)       off + L <= C
    snprintf/fgets/read-like(B, L, ...)                 L <= C
    B[i] = v                                            i + 1 <= C
The proof is symbolic: C - extent folds to a constant >= 0 (same symbols on both sides), or, for a constant capacity, the
variable part of the extent is bounded by a dominating comparison (must-facts, signedness-aware).  Writes whose extent is
not explicit (strcpy, sprintf, cursor stores) are outside the rule and are listed as not analysed.
"""
import re
from .frontend import walk, children, strip, strip_parens, qtype, AnalysisBroken
from .expr import canon, int_value
from .dataflow import ReachingDefs, poly_of, offset_split, Poly
from .copy import _alloc_size_poly
from .index import Facts

LEN_AT = {'memcpy': (0, 2), 'memmove': (0, 2), 'strncpy': (0, 2), 'memset': (0, 2), 'snprintf': (0, 1), 'vsnprintf': (0, 1),
          'fgets': (0, 1), 'strncat': None}


def _capacity(prog, f, rd, node_id, base_expr):
    """(Poly capacity in bytes, description) of the buffer a destination expression designates, or None"""
    b = strip(base_expr)
    if b.get('kind') != 'DeclRefExpr' or (b.get('_ref') or ('',))[0] != 'local':
        return None
    t = qtype(b) or ''
    m = re.match(r'^(unsigned |signed )?char ?\[(\d+)\]$', t)
    if m:
        return Poly.const(int(m.group(2))), '%s[%s]' % (b['_ref'][2], m.group(2))
    if t.rstrip().endswith('*'):
        ds = rd.reaching(node_id, b['_ref'][1])
        if len(ds) != 1 or ds[0].rhs is None or ds[0].kind not in ('init', 'assign'):
            return None
        rhs = strip(ds[0].rhs)
        if rhs.get('kind') == 'BinaryOperator' and rhs.get('opcode') == '=':
            rhs = strip(children(rhs)[1])
        if rhs.get('kind') != 'CallExpr':
            return None
        an = prog.callee_name(rhs)
        if an not in ('malloc', 'calloc'):
            return None
        sz = _alloc_size_poly(rhs, an, rd, ds[0].node)
        if sz is None:
            return None
        # sizeof(char) factors are 1
        sz = Poly({tuple(a for a in mono if a != 'sizeof(char)'): c for mono, c in sz.t.items()})
        return sz, '%s(%s) at line %s' % (an, sz, rhs.get('_line'))
    return None


def _split(e, rd, node_id):
    """destination expression -> (DeclRefExpr of the local buffer, byte offset Poly) for B, B + k, k + B, &B[k]; else None"""
    e = strip(e)
    k = e.get('kind')
    if k == 'DeclRefExpr':
        return e, Poly.const(0)
    if k == 'BinaryOperator' and e.get('opcode') in ('+', '-'):
        a, b = children(e)
        ta = qtype(strip_parens(a)) or ''
        if ta.rstrip().endswith('*') or '[' in ta:
            r = _split(a, rd, node_id)
            if r is None or 'char' not in ta:
                return None
            o = poly_of(b, rd, node_id)
            return r[0], (r[1] + o if e.get('opcode') == '+' else r[1] - o)
        tb = qtype(strip_parens(b)) or ''
        if e.get('opcode') == '+' and (tb.rstrip().endswith('*') or '[' in tb) and 'char' in tb:
            r = _split(b, rd, node_id)
            return None if r is None else (r[0], r[1] + poly_of(a, rd, node_id))
        return None
    if k == 'UnaryOperator' and e.get('opcode') == '&':
        s0 = strip(children(e)[0])
        if s0.get('kind') == 'ArraySubscriptExpr':
            r = _split(children(s0)[0], rd, node_id)
            return None if r is None else (r[0], r[1] + poly_of(children(s0)[1], rd, node_id))
    return None


_ARR_CACHE = {}


def _local_array_bytes(f):
    out = _ARR_CACHE.get(id(f))
    if out is None:
        out = {}
        for x in walk(f.decl):
            if x.get('kind') == 'VarDecl':
                m = re.match(r'^(unsigned |signed )?char ?\[(\d+)\]$', qtype(x) or '')
                if m:
                    out[x.get('name')] = int(m.group(2))
        _ARR_CACHE[id(f)] = out
    return out


_SZ_CACHE = {}


def _type_size(prog, text):
    """sizeof(<type text>) evaluated by the compiler for the analysed configuration (None if it does not compile)"""
    key = (prog.config, text)
    if key not in _SZ_CACHE:
        from .hasharr import clang_sizeof
        _SZ_CACHE[key] = clang_sizeof(prog, [text]).get(text)
    return _SZ_CACHE[key]


def _subst_sizeof(p, f, prog=None):
    arrs = _local_array_bytes(f)
    out = Poly()
    for mono, c in p.t.items():
        k = c
        rest = []
        for a in mono:
            m = re.match(r'^sizeof\(?\s*(\w+)\s*\)?$', a)
            if m and m.group(1) in arrs:
                k *= arrs[m.group(1)]
                continue
            if prog is not None and a.startswith('sizeof(') and a.endswith(')'):
                v = _type_size(prog, a)
                if v is not None:
                    k *= v
                    continue
            rest.append(a)
        out = out + Poly({tuple(sorted(rest)): k})
    return out


def _helper_result_facts(prog, f, facts):
    """Facts imported from a validating helper: `r = g(.., v, ..)` with r known non-NULL/non-zero here, and every return of g
    that is not a literal 0/NULL carries a must-fact `param < K` / `param <= K` about the parameter v was passed for:
    then the same bound holds for v (v is not re-assigned in f: checked by name)."""
    from .expr import var_init, is_null
    out = set()
    nonzero = {a for (a, op, b, d) in facts if (op == '!=' and b in ('0', 'NULL')) or (op == '>' and b == '0')}
    if not nonzero:
        return out
    assigned = {}
    for y in walk(f.body):
        if y.get('kind') in ('BinaryOperator', 'CompoundAssignOperator') and (y.get('opcode') or '').endswith('=') and \
                y.get('opcode') not in ('==', '!=', '<=', '>='):
            assigned[canon(children(y)[0])] = assigned.get(canon(children(y)[0]), 0) + 1
    for y in walk(f.body):
        call, rv = None, None
        if y.get('kind') == 'VarDecl' and var_init(y) is not None and strip(var_init(y)).get('kind') == 'CallExpr':
            call, rv = strip(var_init(y)), y.get('name')
        elif y.get('kind') == 'BinaryOperator' and y.get('opcode') == '=' and strip(children(y)[1]).get('kind') == 'CallExpr':
            call, rv = strip(children(y)[1]), canon(children(y)[0])
        if call is None or rv not in nonzero:
            continue
        for g in prog.callees(f.unit, call):
            if getattr(g, 'body', None) is None or not getattr(g, 'static', False):
                continue
            gf = None
            for k, a in enumerate(children(call)[1:]):
                sa = strip(a)
                if sa.get('kind') != 'DeclRefExpr' or k >= len(g.params) or assigned.get(canon(sa), 0) > 0:
                    continue
                pn = g.params[k].get('name')
                gf = gf or Facts(g)
                arrs = _local_array_bytes(g)
                common = None
                for r in g.cfg.returns():
                    if not children(r.ast) or int_value(children(r.ast)[0]) == 0 or is_null(children(r.ast)[0]):
                        continue
                    here = set()
                    for (a2, op, b, d) in gf.at(r):
                        if a2 != pn or op not in ('<', '<='):
                            continue
                        mm = re.match(r'^\(?(?:\(\w+\))?\s*sizeof\(?\s*(\w+)\s*\)?\)?$', b)
                        if mm and mm.group(1) in arrs:
                            b = str(arrs[mm.group(1)])
                        if re.match(r'^\d+$', b):
                            here.add((op, b))
                    common = here if common is None else (common & here)
                for (op, b) in (common or ()):
                    out.add((canon(sa), op, b, 'helper:%s' % g.name))
    return out


def _fits(cap, extent, facts):
    """cap - extent >= 0 provable?  returns (ok, reason)"""
    extent = Poly({tuple(a for a in mono if a != 'sizeof(char)'): c for mono, c in extent.t.items()})
    d = cap - extent
    dc = d.as_const()
    if dc is not None:
        return dc >= 0, 'capacity - extent = %d' % dc
    cc = cap.as_const()
    if cc is not None:
        # extent = 1*v + k with a single variable v: need a must-fact v < K (K + k <= cc + ...) or v <= K
        vars_ = [m for m in extent.t if m != ()]
        if len(vars_) == 1 and len(vars_[0]) == 1 and extent.t[vars_[0]] == 1:
            v = vars_[0][0]
            k = extent.t.get((), 0)
            best = None
            mm = re.match(r'^\(?.* % (\d+)\)?$', v)
            if mm:
                best = int(mm.group(1)) - 1          # a remainder is below its divisor
            for (a, op, b, dom) in facts:
                if a != v:
                    continue
                try:
                    K = int(b, 0)
                except ValueError:
                    m = re.match(r'^\(?sizeof\b', b)
                    K = None
                if K is None:
                    continue
                ub = K - 1 if op == '<' else (K if op in ('<=', '==') else None)
                if ub is not None and (best is None or ub < best):
                    best = ub
            if best is not None:
                return best + k <= cc, 'must-fact %s <= %d, extent <= %d, capacity %d' % (v, best, best + k, cc)
            return False, 'no upper bound known for %s' % v
    # both symbolic: extent = v + k, capacity = w + c with a must-fact v < w / v <= w
    ev = [m for m in extent.t if m != ()]
    cv = [m for m in cap.t if m != ()]
    if len(ev) == 1 and len(cv) == 1 and len(ev[0]) == 1 and len(cv[0]) == 1 and extent.t[ev[0]] == 1 and cap.t[cv[0]] == 1:
        v, w = ev[0][0], cv[0][0]
        k, c = extent.t.get((), 0), cap.t.get((), 0)
        for (a, op, b, dom) in facts:
            if a == v and b == w:
                slack = {'<': 1, '<=': 0, '==': 0}.get(op)
                if slack is not None and k - slack <= c:
                    return True, 'must-fact %s %s %s' % (v, op, w)
    return None, 'capacity %s and extent %s are not comparable' % (cap, extent)


def rule_bw1(prog, rep, units, rid='BW1'):
    rep.rule(rid, 'every explicit-extent write into a local buffer of known capacity (local array or malloc\'ed local) fits: '
                  'capacity - (offset + length) folds to a constant >= 0, or the variable part is bounded by a dominating comparison')
    skipped = []
    for unit in units:
        prog.unit(unit)
        for f in sorted(prog.funcs_in(unit), key=lambda x: x.line or 0):
            if f.body is None:
                continue
            rd = None
            facts = None
            # sizeof(local array) constants for fact normalisation
            for n in f.cfg.nodes:
                if n.id not in f.cfg.reachable or not isinstance(n.ast, dict) or n.kind == 'macro':
                    continue
                sites = []
                for x in walk(n.ast):
                    if x.get('kind') == 'CallExpr':
                        nm = prog.callee_name(x)
                        if nm in LEN_AT and LEN_AT[nm]:
                            di, li = LEN_AT[nm]
                            args = children(x)[1:]
                            if len(args) > max(di, li):
                                sites.append(('call', x, args[di], args[li], nm))
                    elif x.get('kind') == 'BinaryOperator' and x.get('opcode') == '=':
                        l = strip_parens(children(x)[0])
                        if l.get('kind') == 'ArraySubscriptExpr':
                            sites.append(('store', x, children(l)[0], children(l)[1], 'store'))
                for (kind, x, dst, ln, nm) in sites:
                    rd = rd or ReachingDefs(f)
                    if n.id not in rd.IN:
                        continue
                    sp = _split(dst, rd, n.id)
                    if sp is None:
                        continue
                    bexpr, off = sp
                    base = canon(bexpr)
                    cap = _capacity(prog, f, rd, n.id, bexpr)
                    if cap is None:
                        continue
                    capp, capdesc = cap
                    capp = _subst_sizeof(capp, f, prog)
                    lp = _subst_sizeof(poly_of(ln, rd, n.id), f, prog)
                    off = _subst_sizeof(off, f, prog)
                    extent = off + lp + (Poly.const(1) if kind == 'store' else Poly.const(0))
                    facts = facts or Facts(f)
                    fa = set(facts.at(n))
                    # sizeof(<local array>) in facts -> its constant
                    arrs = _local_array_bytes(f)
                    extra = set()
                    for (a, op, b, d) in fa:
                        mm = re.match(r'^\(?(?:\(\w+\))?\s*sizeof\(?\s*(\w+)\s*\)?\)?$', b)
                        if mm and mm.group(1) in arrs:
                            extra.add((a, op, str(arrs[mm.group(1)]), d))
                    fa |= extra
                    fa |= _helper_result_facts(prog, f, fa)
                    ok, why = _fits(capp, extent, fa)
                    if ok is None:
                        # retry with the length/offset as written (locals not expanded through their definitions)
                        sp0 = _split(dst, None, n.id)
                        ext0 = _subst_sizeof(sp0[1], f, prog) + _subst_sizeof(poly_of(ln, None, n.id), f, prog) + \
                            (Poly.const(1) if kind == 'store' else Poly.const(0))
                        ok, why = _fits(capp, ext0, fa)
                        if ok is not None:
                            extent = ext0
                    if ok is None:
                        skipped.append('%s:%s %s: %s' % (f.relfile, x.get('_line'), f.name, why))
                        continue
                    rep.instance(rid)
                    rep.oblige(rid, ok, {'function': f.name, 'line': x.get('_line'), 'write': canon(x)[:70], 'capacity': capdesc,
                                         'extent': repr(extent), 'proof': why})
                    if not ok:
                        rep.violation(rid, f, x.get('_line'), '%s:%s' % (nm, canon(dst)[:30]),
                                      '%s writes %s byte(s) into %s whose capacity is %s: %s' % (canon(x)[:60], extent, base, capdesc, why))
    rep.notes['BW1_undecided'] = skipped
    rep.notes['BW1_not_analysed'] = 'writes without an explicit extent (strcpy, sprintf, stores through a moving cursor)'


def rule_growth_room(prog, rep, units, rid='GR1'):
    """Growable local arrays: `if (N <cmp> A) { A = ...; buf = realloc(buf, ... A ...); }  ...  buf[E] = ...`.
    On the path that does NOT grow, the comparison's false outcome must already imply E < A for every element index E
    written afterwards in the same iteration (E = N + k).  (Whether the growth branch makes enough room is not decided.)"""
    rep.rule(rid, 'growable array protocol: the no-growth outcome of the capacity test implies index < capacity for every '
                  'element written afterwards (an end marker needs one slot more than the elements)')
    for rel in units:
        for f in sorted(prog.funcs_in(rel), key=lambda x: x.line or 0):
            if f.body is None:
                continue
            for x in walk(f.body):
                if x.get('kind') != 'IfStmt':
                    continue
                ch = children(x)
                c = strip_parens(ch[0])
                if c.get('kind') != 'BinaryOperator' or c.get('opcode') not in ('>=', '>', '==', '<', '<='):
                    continue
                a, b = (strip(y) for y in children(c))
                if a.get('kind') != 'DeclRefExpr' or b.get('kind') != 'DeclRefExpr':
                    continue
                na, nb = (a.get('referencedDecl') or {}).get('name'), (b.get('referencedDecl') or {}).get('name')
                # the then-branch grows: it re-assigns one of the two (the capacity) and reallocs with it
                assigned = set()
                reallocs = []
                for y in walk(ch[1]):
                    if y.get('kind') in ('BinaryOperator', 'CompoundAssignOperator') and (y.get('opcode') or '').endswith('=') \
                            and y.get('opcode') not in ('==', '!=', '<=', '>='):
                        l = strip(children(y)[0])
                        if l.get('kind') == 'DeclRefExpr':
                            assigned.add((l.get('referencedDecl') or {}).get('name'))
                    if y.get('kind') == 'CallExpr' and prog.callee_name(y) == 'realloc':
                        reallocs.append(y)
                if not reallocs:
                    continue
                cap = nb if nb in assigned else (na if na in assigned else None)
                if cap is None or not any(cap in canon(r) for r in reallocs):
                    continue
                cnt = na if cap == nb else nb
                op = c.get('opcode')
                if cap == na:      # normalise to  cnt <op> cap
                    op = {'>=': '<=', '>': '<', '<': '>', '<=': '>=', '==': '=='}[op]
                # false outcome of `cnt op cap`: slack = largest s with  cnt + s <= cap - 1 ... i.e. cnt <= cap - 1 - s
                # cnt >= cap false -> cnt <= cap-1 (room for index cnt); cnt > cap false -> cnt <= cap (no room for index cnt)
                room = {'>=': 0, '>': -1, '==': None}.get(op)
                if room is None:
                    continue
                buf = canon(children(reallocs[0])[1])
                # element indexes written after the if (same compound statement): buf[cnt + k]
                from .dataflow import poly_of
                rest_ids = set()
                # statements following x in its parent compound
                for comp in walk(f.body):
                    if comp.get('kind') == 'CompoundStmt' and any(z is x for z in children(comp)):
                        sib = children(comp)
                        for z in sib[sib.index(x) + 1:]:
                            for w in walk(z):
                                rest_ids.add(id(w))
                worst = None
                for w in walk(f.body):
                    if id(w) in rest_ids and w.get('kind') == 'ArraySubscriptExpr' and canon(children(w)[0]) == buf:
                        p = poly_of(children(w)[1])
                        k = (p - __import__('qv.dataflow', fromlist=['Poly']).Poly.atom(cnt)).as_const()
                        if k is not None and (worst is None or k > worst[0]):
                            worst = (k, w)
                if worst is None:
                    continue
                rep.instance(rid)
                ok = worst[0] <= room
                rep.oblige(rid, ok, {'function': f.name, 'line': x.get('_line'), 'test': canon(c), 'highest_index_written': canon(children(worst[1])[1])})
                if not ok:
                    rep.violation(rid, f, x.get('_line'), 'room:%s' % canon(c)[:30],
                                  'when %s is false nothing grows, yet %s[%s] is written afterwards: that needs %s + %d < %s, which the '
                                  'false outcome does not give (the element after the last one - an end marker - has no slot)'
                                  % (canon(c), buf, canon(children(worst[1])[1]), cnt, worst[0], cap))


# --------------------------------------------------------------------------------------
# F1: a formatted result is accepted as complete only when it fits with its terminator

def rule_fmt_complete(prog, rep, units, rid='F1'):
    """Retry loops around vsnprintf/snprintf (the DYNAMIC_VSPRINTF expansion in every formatted put/append): the C library
    returns the length the text NEEDS; the buffer holds it completely only when that length is strictly smaller than the
    size passed.  Every path that leaves the retry loop without releasing the buffer must have established
    `result < size` (any equivalent spelling: `size > result`, `result + 1 <= size`, the negation of `result >= size`).
    Accepting `result <= size` stores a text whose last character was cut off exactly when the length equals the size."""
    from .hashrules import _loop_nodes
    rep.rule(rid, 'a vsnprintf/snprintf retry loop accepts the buffer only on paths that established result < size (strictly): '
                  'a result equal to the size means the last character was cut off')
    for u in units:
        prog.unit(u)
        for f in sorted(prog.funcs_in(u), key=lambda x: x.line or 0):
            if f.body is None:
                continue
            cfg = f.cfg
            for n in cfg.nodes:
                if n.id not in cfg.reachable or not isinstance(n.ast, dict) or n.kind == 'macro':
                    continue
                for x in walk(n.ast):
                    if x.get('kind') != 'CallExpr' or prog.callee_name(x) not in ('vsnprintf', 'snprintf'):
                        continue
                    args = children(x)[1:]
                    if len(args) < 2:
                        continue
                    res = None
                    if n.ast.get('kind') == 'VarDecl':
                        from .expr import var_init
                        if var_init(n.ast) is not None and strip(var_init(n.ast)) is x:
                            res = n.ast.get('name')
                    for z in walk(n.ast):
                        if z.get('kind') == 'BinaryOperator' and z.get('opcode') == '=' and strip(children(z)[1]) is x:
                            res = canon(children(z)[0])
                    if res is None:
                        continue
                    loops = [(h, _loop_nodes(cfg, h)) for (h, _s) in cfg.loops if h.id in cfg.reachable]
                    loops = [(h, b) for (h, b) in loops if n.id in b]
                    if not loops:
                        continue
                    head, body = min(loops, key=lambda hb: len(hb[1]))
                    buf, sz = canon(args[0]), canon(args[1])
                    target = Poly.atom(res) - Poly.atom(sz)
                    rep.instance(rid)

                    def strict_on(c, lab):
                        c = strip_parens(c)
                        if c.get('kind') != 'BinaryOperator' or c.get('opcode') not in ('<', '<=', '>', '>='):
                            return False
                        l, r = children(c)
                        d = poly_of(l) - poly_of(r)
                        op = c.get('opcode')
                        if lab == 'F':
                            op = {'<': '>=', '<=': '>', '>': '<=', '>=': '<'}[op]
                        k = (d - target).as_const()
                        if k is not None:            # res - sz + k  op  0
                            return (op == '<' and k >= 0) or (op == '<=' and k >= 1)
                        k = (d + target).as_const()
                        if k is not None:            # sz - res + k  op  0
                            return (op == '>' and k <= 0) or (op == '>=' and k <= -1)
                        return False

                    def releases(m):
                        return isinstance(m.ast, dict) and m.kind != 'macro' and any(
                            y.get('kind') == 'CallExpr' and prog.callee_name(y) == 'free' and len(children(y)) > 1
                            and canon(children(y)[1]) == buf for y in walk(m.ast))      # realloc() keeps the old block when it fails
                    bad = None
                    seen = set()
                    work = [(s, False, lab, n) for (s, lab) in n.succs]
                    while work and bad is None:
                        m, strict, lab, frm = work.pop()
                        if frm.kind == 'cond' and isinstance(frm.ast, dict) and lab in ('T', 'F') and strict_on(frm.ast, lab):
                            strict = True
                        if m.id not in body or m is cfg.exit:
                            if not strict:
                                bad = m
                            continue
                        if (m.id, strict) in seen or releases(m) or m is n:
                            continue
                        seen.add((m.id, strict))
                        for (s, l2) in m.succs:
                            work.append((s, strict, l2, m))
                    ok = bad is None
                    rep.oblige(rid, ok, {'function': f.name, 'call': canon(x)[:60], 'result': res, 'size': sz})
                    if not ok:
                        rep.violation(rid, f, x.get('_line'), 'accept:%s' % res,
                                      '%s: the retry loop around %s(%s, %s, ...) can be left with the buffer kept on a path that did '
                                      'not establish %s < %s: a text of exactly %s characters is stored with its last character cut off'
                                      % (f.name, prog.callee_name(x), buf, sz, res, sz, sz))


# --------------------------------------------------------------------------------------
# VA1: a va_list is consumed once per va_start

def rule_valist_once(prog, rep, units, rid='VA1'):
    """Typestate of a va_list: va_start makes it fresh, a v*printf-family call (or va_arg) consumes it, va_end closes it.  A second
    consumption without a new va_start / va_copy reads arguments that are no longer there (the retry of a formatting loop then
    formats garbage or crashes on a `%s`)."""
    rep.rule(rid, 'every consumption of a va_list (v*printf family) is preceded, on every path since the previous consumption, by va_start')
    consumers = {'vsnprintf', 'vsprintf', 'vprintf', 'vfprintf', 'vasprintf', 'vdprintf', 'vsscanf', 'vfscanf', 'vscanf',
                 '__builtin___vsnprintf_chk', '__builtin___vsprintf_chk', '__vsnprintf_chk', '__vsprintf_chk', '__vfprintf_chk', '__vprintf_chk'}
    for u in units:
        prog.unit(u)
        for f in sorted(prog.funcs_in(u), key=lambda x: x.line or 0):
            if f.body is None:
                continue
            cfg = f.cfg
            lists = {x.get('name') for x in walk(f.body) if x.get('kind') == 'VarDecl' and 'va_list' in (qtype(x) or '')}
            if not lists:
                continue

            def events(m):
                out = []
                if not isinstance(m.ast, dict) or m.kind == 'macro':
                    return out

                def rec(x):
                    for c in children(x):
                        rec(c)
                    if x.get('kind') == 'CallExpr':
                        c0 = strip(children(x)[0])
                        nm = prog.callee_name(x) or (c0.get('referencedDecl') or {}).get('name') or canon(c0)
                        args = [canon(strip(a)) for a in children(x)[1:]]
                        for ap in lists:
                            if ap in args or ('(&%s)' % ap) in args:
                                if 'va_start' in nm:
                                    out.append(('start', ap, x))
                                elif 'va_end' in nm:
                                    out.append(('end', ap, x))
                                elif 'va_copy' in nm:
                                    out.append(('start', args[0], x))
                                elif nm in consumers or nm.startswith('v'):
                                    out.append(('use', ap, x))
                    elif x.get('kind') == 'VAArgExpr':
                        pass
                rec(m.ast)
                return out
            IN = {cfg.entry.id: frozenset()}
            work = [cfg.entry]
            bad = {}
            nuse = 0
            while work:
                m = work.pop()
                st = set(IN[m.id])            # (ap, 'fresh' | 'used')
                for (k, ap, x) in events(m):
                    if k == 'start':
                        st = {t for t in st if t[0] != ap} | {(ap, 'fresh')}
                    elif k == 'end':
                        st = {t for t in st if t[0] != ap}
                    elif k == 'use':
                        if (ap, 'used') in st and id(x) not in bad:
                            bad[id(x)] = (x, ap)
                        st = {t for t in st if t[0] != ap} | {(ap, 'used')}
                st = frozenset(st)
                for (s, _l) in m.succs:
                    old = IN.get(s.id)
                    if old is None:
                        IN[s.id] = st
                        work.append(s)
                    elif not st <= old:
                        IN[s.id] = old | st
                        work.append(s)
            uses = [e for m in cfg.nodes if m.id in cfg.reachable for e in events(m) if e[0] == 'use']
            for (_k, ap, x) in uses:
                rep.instance(rid)
                ok = id(x) not in bad
                rep.oblige(rid, ok, {'function': f.name, 'call': canon(x)[:50]})
                if not ok:
                    rep.violation(rid, f, x.get('_line'), 'va:%s' % ap,
                                  '%s: %s consumes the va_list %s again on a path on which it was already consumed and not re-started with '
                                  'va_start: the second formatting attempt reads arguments that are gone' % (f.name, canon(x)[:50], ap))


# --------------------------------------------------------------------------------------
# GR2: a sentinel-terminated result array is closed before anyone scans it

def _nonzero_tag(e):
    """a constant != 0, or a conditional both arms of which are constants != 0 (`newmem ? 2 : 1`)"""
    v = int_value(e)
    if isinstance(v, int):
        return v != 0
    s_ = strip_parens(strip(e))
    if s_.get('kind') == 'ConditionalOperator':
        return all(_nonzero_tag(c) for c in children(s_)[1:])
    return False


def qtype_of_path(f, name):
    for x in walk(f.decl):
        if x.get('kind') in ('VarDecl', 'ParmVarDecl') and x.get('name') == name:
            return qtype(x)
    return None


def rule_sentinel_closed(prog, rep, units, rid='GR2'):
    """Result arrays that end with a sentinel element (`type == 0` after the last entry of getmulti's array) are scanned by
    their consumers (`freemulti()`, the caller) up to that sentinel.  Typestate of the array inside the function that builds
    it: storing an element (its `type` set to a non-zero tag) opens it, writing the sentinel (`type = 0`, or zero-filling the
    next element) closes it; handing the array to a scanning consumer or returning it while it may be open lets the scan run
    into uninitialised memory."""
    rep.rule(rid, 'a sentinel-terminated result array is closed (sentinel written behind the last stored element) on every path on which '
                  'it is handed to a scanning consumer or returned')
    for u in units:
        prog.unit(u)
        # scanning consumers: functions with a loop whose condition tests `->type` of a walking element pointer
        consumers = set()
        for g in prog.funcs_in(u):
            if g.body is None or not g.params:
                continue
            for (head, stmt) in g.cfg.loops:
                cond = stmt['inner'][2] if stmt.get('kind') == 'ForStmt' else (stmt['inner'][0] if stmt.get('kind') == 'WhileStmt' else None)
                if cond and '->type' in canon(cond):
                    consumers.add(g.name)
        for f in sorted(prog.funcs_in(u), key=lambda x: x.line or 0):
            if f.body is None:
                continue
            opens = [y for y in walk(f.body) if y.get('kind') == 'BinaryOperator' and y.get('opcode') == '=' and
                     strip(children(y)[0]).get('kind') == 'MemberExpr' and strip(children(y)[0]).get('name') == 'type' and
                     _nonzero_tag(children(y)[1])]
            uses = [y for y in walk(f.body) if y.get('kind') == 'CallExpr' and prog.callee_name(y) in consumers]
            if not opens or not (uses or (f.rettype or '').rstrip().endswith('*')):
                continue
            elemtype = (qtype(strip(children(strip(children(opens[0])[0]))[0])) or '').replace('*', '').strip()
            cfg = f.cfg

            def events(m):
                out = []
                if not isinstance(m.ast, dict) or m.kind == 'macro':
                    return out
                from .own import node_events
                for ev in node_events(m):
                    if ev[0] == 'assign':
                        l = strip(ev[1])
                        if l.get('kind') == 'MemberExpr' and l.get('name') == 'type':
                            v = int_value(ev[2])
                            if isinstance(v, int) and v == 0:
                                out.append('close')
                            elif _nonzero_tag(ev[2]):
                                out.append('open')
                    elif ev[0] == 'call':
                        nm = prog.callee_name(ev[1])
                        if nm == 'memset' and len(children(ev[1])) > 2 and int_value(children(ev[1])[2]) == 0 and \
                                elemtype and elemtype in (qtype(strip(strip_parens(strip(children(ev[1])[1])))) or ''):
                            out.append('close')
                        elif nm in consumers:
                            out.append(('consume', ev[1]))
                if m.kind == 'act' and m.ast.get('kind') == 'ReturnStmt' and children(m.ast) and \
                        elemtype and elemtype in (qtype(strip(children(m.ast)[0])) or ''):
                    out.append(('consume', m.ast))
                return out
            from .expr import access_path as _ap
            arrvars = {_ap(children(y)[1]) for y in uses if len(children(y)) > 1} | \
                {_ap(children(r.ast)[0]) for r in cfg.returns() if children(r.ast)}
            arrvars.discard(None)
            IN = {cfg.entry.id: frozenset(['closed'])}
            work = [cfg.entry]
            bad = {}
            while work:
                m = work.pop()
                st = set(IN[m.id])
                for e in events(m):
                    if e == 'open':
                        st = {'open'}
                    elif e == 'close':
                        st = {'closed'}
                    elif isinstance(e, tuple) and 'open' in st:
                        bad.setdefault(id(e[1]), e[1])
                st = frozenset(st)
                for (s2, lab) in m.succs:
                    st2 = st
                    if m.kind == 'cond' and isinstance(m.ast, dict):
                        from .own import cond_null_test
                        tn = cond_null_test(m.ast)
                        if tn and ((lab == 'T') == tn[1]) and tn[0] in arrvars:
                            st2 = frozenset(['closed'])          # no array at all on this edge
                    old = IN.get(s2.id)
                    if old is None:
                        IN[s2.id] = st2
                        work.append(s2)
                    elif not st2 <= old:
                        IN[s2.id] = old | st2
                        work.append(s2)
            rep.instance(rid)
            rep.oblige(rid, not bad, {'function': f.name, 'element_type': elemtype, 'scanning_consumers': sorted(consumers)})
            for e in list(bad.values())[:2]:
                rep.violation(rid, f, e.get('_line'), 'open-array',
                              '%s hands its result array on (%s) on a path on which an element was stored but the sentinel behind it was not '
                              'written yet: the consumer scans up to the sentinel and runs into uninitialised memory' % (f.name, canon(e)[:50]))
