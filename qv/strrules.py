"""C19 — byte-set and byte-map clauses of the string utilities (qstring.c).

W1  trim set: in every trim routine, each loop that is steered by the byte under a scan cursor continues exactly for the
    bytes {SP, TAB, CR, LF} (the loop condition is evaluated for all 256 byte values; conjuncts that do not depend on the
    byte - pointer comparisons - are neutral).  A loop that continues for every non-NUL byte is an end-of-string scan and
    is not a trim loop.  In particular byte 0 is never in the set (the head scan stops at the terminator).
W2  case maps: the per-byte effect of the loop body of the upper/lower-casing routines, evaluated for all 256 byte values,
    equals the ASCII map (a-z <-> A-Z, every other byte unchanged).
W4  tail indexes: an element `s[L - k]` with L the string's length is reached only under the must-fact L >= k.
"""
from .frontend import walk, children, strip, strip_parens, AnalysisBroken
from .expr import canon, int_value
from .tables import byte_pred

UNIT = 'src/utilities/qstring.c'
BLANKS = frozenset((0x20, 0x09, 0x0d, 0x0a))


def _schar(c, e):
    """value of byte c read through expression e (plain/signed char reads are sign-extended)"""
    t = ((e.get('type') or {}).get('qualType') or '')
    if 'unsigned' in t:
        return c
    return c - 256 if c >= 128 else c


def _byte_reads(cond):
    out = []
    for x in walk(cond):
        if x.get('kind') == 'UnaryOperator' and x.get('opcode') == '*':
            out.append(x)
        elif x.get('kind') == 'ArraySubscriptExpr':
            out.append(x)
    return [x for x in out if 'char' in ((x.get('type') or {}).get('qualType') or '')]


def _loops(f):
    for x in walk(f.body):
        k = x.get('kind')
        if k == 'ForStmt':
            ch = x.get('inner') or []
            # clang: init, condvar, cond, inc, body (missing parts are {} placeholders)
            if len(ch) >= 5 and ch[2]:
                yield x, ch[2], ch[4]
        elif k == 'WhileStmt':
            ch = children(x)
            if len(ch) >= 2:
                yield x, ch[0], ch[-1]
        elif k == 'DoStmt':
            ch = children(x)
            if len(ch) >= 2:
                yield x, ch[1], ch[0]


def _continue_set(prog, f, cond):
    reads = _byte_reads(cond)
    if not reads:
        return None
    out = set()
    for c in range(256):
        v = byte_pred(prog, f, cond, {'*': _schar(c, reads[0]), '?neutral': True}, {})
        if v is None:
            return 'unevaluable'
        if v:
            out.add(c)
    return out


def _fmt(bs):
    return '{' + ','.join('0x%02x' % b for b in sorted(bs)[:12]) + (',...' if len(bs) > 12 else '') + '}'


def rule_trimset(prog, rep, rid='W1'):
    rep.rule(rid, 'every byte-steered loop of the trim routines continues exactly for {SP,TAB,CR,LF} (evaluated for all 256 bytes)')
    prog.unit(UNIT)
    funcs = [f for f in prog.funcs_in(UNIT) if f.name.startswith('qstrtrim') and f.body is not None]
    if not funcs:
        raise AnalysisBroken('no qstrtrim* routine found in %s' % UNIT)
    for f in sorted(funcs, key=lambda x: x.line or 0):
        n = 0
        for loop, cond, body in _loops(f):
            cs = _continue_set(prog, f, cond)
            if cs is None:
                continue
            if cs == 'unevaluable':
                # a byte predicate the evaluator does not understand: no verdict
                raise AnalysisBroken('%s:%s loop condition %s cannot be evaluated per byte' % (f.relfile, loop.get('_line'), canon(cond)[:60]))
            if cs == set(range(1, 256)):
                continue                      # end-of-string scan
            n += 1
            rep.instance(rid)
            ok = cs == BLANKS
            rep.oblige(rid, ok, {'function': f.name, 'line': loop.get('_line'), 'continues_for': _fmt(cs)})
            if not ok:
                extra, missing = cs - BLANKS, BLANKS - cs
                rep.violation(rid, f, loop.get('_line'), 'loop:%s' % canon(cond)[:60],
                              'trim loop continues for %s%s — the documented blank set is {SP,TAB,CR,LF}' % (
                                  ('extra bytes %s ' % _fmt(extra)) if extra else '',
                                  ('but not for %s' % _fmt(missing)) if missing else ''))
        if n == 0:
            # the routine may delegate (qstrtrim = head + tail): accepted when it calls other trim routines
            callees = {prog.callee_name(x) for x in walk(f.body) if x.get('kind') == 'CallExpr'}
            if not any((c or '').startswith('qstrtrim') for c in callees):
                raise AnalysisBroken('%s: no byte-steered trim loop and no delegation found' % f.name)


def _exec_byte(prog, f, st, c, reads_sample):
    """effect of statement st on the byte under the cursor; returns new byte (0..255) or None"""
    k = st.get('kind')
    if k == 'CompoundStmt':
        for ch in children(st):
            c = _exec_byte(prog, f, ch, c, reads_sample)
            if c is None:
                return None
        return c
    if k == 'IfStmt':
        ch = children(st)
        v = byte_pred(prog, f, ch[0], {'*': _schar(c, reads_sample), '?neutral': False}, {})
        if v is None:
            return None
        if v:
            return _exec_byte(prog, f, ch[1], c, reads_sample)
        return _exec_byte(prog, f, ch[2], c, reads_sample) if len(ch) > 2 else c
    if k in ('NullStmt',):
        return c
    e = strip(st)
    k = e.get('kind')
    if k in ('CompoundAssignOperator', 'BinaryOperator') and (e.get('opcode') or '').endswith('=') \
            and e.get('opcode') not in ('==', '!=', '<=', '>='):
        lhs = strip_parens(children(e)[0])
        is_cursor_byte = (lhs.get('kind') == 'UnaryOperator' and lhs.get('opcode') == '*') or lhs.get('kind') == 'ArraySubscriptExpr'
        if not is_cursor_byte:
            return c           # cursor arithmetic etc.
        r = byte_pred(prog, f, children(e)[1], {'*': _schar(c, reads_sample)}, {})
        if r is None or isinstance(r, tuple):
            return None
        cur = _schar(c, reads_sample)
        op = e['opcode']
        try:
            nv = {'=': r, '+=': cur + r, '-=': cur - r, '^=': cur ^ r, '|=': cur | r, '&=': cur & r}.get(op)
        except TypeError:
            return None
        return None if nv is None else nv & 0xFF
    if k == 'UnaryOperator' and e.get('opcode') in ('++', '--'):
        return c
    return None


def rule_casemap(prog, rep, rid='W2'):
    rep.rule(rid, 'the per-byte effect of qstrupper/qstrlower equals the ASCII case map for all 256 byte values')
    prog.unit(UNIT)
    for name, lo, hi, delta in (('qstrupper', 97, 122, -32), ('qstrlower', 65, 90, 32)):
        f = prog.funcs.get(name)
        if f is None or f.body is None:
            raise AnalysisBroken('%s not found' % name)
        found = False
        for loop, cond, body in _loops(f):
            reads = _byte_reads(cond) or _byte_reads(body)
            if not reads:
                continue
            found = True
            bad = []
            for c in range(1, 256):
                nv = _exec_byte(prog, f, body, c, reads[0])
                if nv is None:
                    raise AnalysisBroken('%s:%s loop body cannot be evaluated per byte (byte 0x%02x)' % (f.relfile, loop.get('_line'), c))
                want = c + delta if lo <= c <= hi else c
                if nv != want:
                    bad.append((c, nv, want))
            rep.instance(rid, 255)
            rep.oblige(rid, not bad, {'function': name, 'line': loop.get('_line'), 'bytes': 255})
            if bad:
                c, nv, want = bad[0]
                rep.violation(rid, f, loop.get('_line'), 'casemap:%s' % name,
                              '%d byte values are mapped wrongly, e.g. 0x%02x -> 0x%02x (documented: 0x%02x)' % (len(bad), c, nv, want))
            break
        if not found:
            raise AnalysisBroken('%s: no byte loop found' % name)


def rule_tailindex(prog, rep, rid='W4'):
    """s[L - k] (k >= 1, L = strlen(s) or a local initialised/assigned from it) needs the must-fact L >= k."""
    from .index import Facts
    from .expr import var_init
    rep.rule(rid, 'an element addressed from the end of a string, s[len - k], is reached only when len >= k is known')
    prog.unit(UNIT)
    for f in sorted(prog.funcs_in(UNIT), key=lambda x: x.line or 0):
        if f.body is None:
            continue
        # locals that hold strlen(x)
        lens = {}
        for x in walk(f.body):
            if x.get('kind') == 'VarDecl':
                i = var_init(x)
                if i is not None and strip(i).get('kind') == 'CallExpr' and prog.callee_name(strip(i)) == 'strlen':
                    lens[x.get('name')] = canon(children(strip(i))[1])
        sites = []
        for n in f.cfg.nodes:
            if not isinstance(n.ast, dict) or n.kind == 'macro':
                continue
            for x in walk(n.ast):
                if x.get('kind') != 'ArraySubscriptExpr':
                    continue
                base, idx = children(x)[0], strip(children(x)[1])
                if idx.get('kind') != 'BinaryOperator' or idx.get('opcode') != '-':
                    continue
                k = int_value(children(idx)[1])
                if not isinstance(k, int) or k < 1:
                    continue
                L = strip(children(idx)[0])
                lc = canon(L)
                bc = canon(base)
                if L.get('kind') == 'CallExpr' and prog.callee_name(L) == 'strlen' and canon(children(L)[1]) == bc:
                    pass
                elif lens.get(lc) == bc:
                    pass
                else:
                    continue
                sites.append((n, x, lc, bc, k))
        if not sites:
            continue
        facts = Facts(f)
        for (n, x, lc, bc, k) in sites:
            rep.instance(rid)
            ok = False
            for (a, op, b, _d) in facts.at(n):
                if a != lc:
                    continue
                try:
                    m = int(b)
                except ValueError:
                    continue
                if (op == '>=' and m >= k) or (op == '>' and m >= k - 1) or (op == '==' and m >= k):
                    ok = True
            rep.oblige(rid, ok, {'function': f.name, 'line': x.get('_line'), 'element': '%s[%s - %d]' % (bc, lc, k)})
            if not ok:
                rep.violation(rid, f, x.get('_line'), 'tail:%s[%s-%d]' % (bc, lc, k),
                              '%s[%s - %d] is reached without the must-fact %s >= %d: for a shorter string the element lies '
                              'before the buffer' % (bc, lc, k, lc, k))


def _byte_index_ok(f, rd, node_id, e, depth=0):
    """True iff the index expression is provably within 0..255: an unsigned-char typed value, a mask with a constant
    <= 255, a small constant, or an integer variable all of whose reaching definitions are such values."""
    from .frontend import dtype, qtype
    x = e
    while x.get('kind') in ('ImplicitCastExpr', 'ParenExpr') and x.get('inner'):
        x = x['inner'][0]
    t = (dtype(x) if x.get('type') else '') + ' ' + (qtype(x) or '')
    if 'unsigned char' in t or 'uint8_t' in t:
        return True
    v = int_value(x)
    if isinstance(v, int):
        return 0 <= v <= 255
    if x.get('kind') == 'BinaryOperator' and x.get('opcode') == '&':
        for c in children(x):
            m = int_value(c)
            if isinstance(m, int) and 0 <= m <= 255:
                return True
        return False
    if x.get('kind') == 'CStyleCastExpr':
        # a cast to a wider type keeps the operand's range
        return _byte_index_ok(f, rd, node_id, children(x)[0], depth)
    if x.get('kind') == 'DeclRefExpr' and depth < 3:
        r = x.get('_ref') or ('',)
        if r[0] in ('local', 'param'):
            ds = rd.reaching(node_id, r[1])
            if not ds:
                return False
            for d in ds:
                if d.kind == 'param' and f.static and _PROG_W3.get('prog') is not None:
                    # an unmodified parameter of a static helper: every actual argument at every call site is a byte value
                    if not _actuals_ok(f, canon(x), depth):
                        return False
                    continue
                if d.kind not in ('init', 'assign') or d.rhs is None:
                    return False
                if not _byte_index_ok(f, rd, d.node, d.rhs, depth + 1):
                    return False
            return True
    return False


_PROG_W3 = {}


def _actuals_ok(f, pname, depth):
    from .dataflow import ReachingDefs
    prog = _PROG_W3['prog']
    pnames = [p.get('name') for p in f.params]
    if pname not in pnames:
        return False
    k = pnames.index(pname)
    sites = 0
    for g in prog.funcs_in(f.unit.rel):
        if g.body is None:
            continue
        rdg = None
        for n in g.cfg.nodes:
            if n.id not in g.cfg.reachable or not isinstance(n.ast, dict) or n.kind == 'macro':
                continue
            for y in walk(n.ast):
                if y.get('kind') == 'CallExpr' and prog.callee_name(y) == f.name and len(children(y)) > k + 1:
                    sites += 1
                    rdg = rdg or ReachingDefs(g)
                    if n.id not in rdg.IN or not _byte_index_ok(g, rdg, n.id, children(y)[k + 1], depth + 1):
                        return False
    return sites > 0


def _byte_interval(f, rd, node_id, e, depth=0):
    """(lo, hi) of an integer expression built from byte values, or None: plain/signed char -> [-128, 127], unsigned char ->
    [0, 255], constants, & mask, >> k, + c, casts to wider types, variables through all their reaching definitions."""
    from .frontend import dtype, qtype
    x = e
    while x.get('kind') in ('ImplicitCastExpr', 'ParenExpr') and x.get('inner'):
        x = x['inner'][0]
    v = int_value(x)
    if isinstance(v, int):
        return (v, v)
    k = x.get('kind')
    t = ((dtype(x) if x.get('type') else '') or '') + ' ' + (qtype(x) or '')
    if k == 'CStyleCastExpr':
        if 'unsigned char' in t or 'uint8_t' in t:
            return (0, 255)
        return _byte_interval(f, rd, node_id, children(x)[0], depth)
    if k == 'BinaryOperator' and x.get('opcode') == '&':
        for c in children(x):
            m = int_value(c)
            if isinstance(m, int) and m >= 0:
                return (0, m)
        return None
    if k == 'BinaryOperator' and x.get('opcode') == '>>':
        a = _byte_interval(f, rd, node_id, children(x)[0], depth)
        sh = int_value(children(x)[1])
        if a is None or not isinstance(sh, int):
            return None
        return (a[0] >> sh, a[1] >> sh)
    if k == 'BinaryOperator' and x.get('opcode') in ('+', '-'):
        a = _byte_interval(f, rd, node_id, children(x)[0], depth)
        b = _byte_interval(f, rd, node_id, children(x)[1], depth)
        if a is None or b is None:
            return None
        return (a[0] + b[0], a[1] + b[1]) if x['opcode'] == '+' else (a[0] - b[1], a[1] - b[0])
    if k in ('UnaryOperator', 'ArraySubscriptExpr') and (k != 'UnaryOperator' or x.get('opcode') == '*'):
        if 'unsigned char' in t or 'uint8_t' in t:
            return (0, 255)
        if _re_char.match((qtype(x) or '').replace('const', '').strip()):
            return (-128, 127)
        return None
    if k == 'DeclRefExpr' and depth < 3:
        r = x.get('_ref') or ('',)
        if 'unsigned char' in t or 'uint8_t' in t:
            return (0, 255)
        if r[0] in ('local', 'param'):
            if _re_char.match((qtype(x) or '').replace('const', '').strip()):
                return (-128, 127)
            ds = rd.reaching(node_id, r[1])
            if not ds:
                return None
            lo, hi = None, None
            for d in ds:
                if d.kind not in ('init', 'assign') or d.rhs is None:
                    return None
                iv = _byte_interval(f, rd, d.node, d.rhs, depth + 1)
                if iv is None:
                    return None
                lo = iv[0] if lo is None else min(lo, iv[0])
                hi = iv[1] if hi is None else max(hi, iv[1])
            return (lo, hi)
    return None


import re as _re_mod
_re_char = _re_mod.compile(r'^(signed )?char$')


def rule_bytetable_index(prog, rep, units, rid='W3', control=None):
    """Every subscript of a 256-entry table (one entry per byte value) uses an index that is provably within 0..255;
    a plain/signed char value (or an int holding one) is negative for bytes >= 0x80 and addresses memory before the table."""
    import re as _re
    from .frontend import qtype
    from .dataflow import ReachingDefs
    rep.rule(rid, 'a 256-entry (per byte value) table is indexed only by a value provably in 0..255: an unsigned char, a masked '
                  'value, or an int all of whose definitions are such (a plain char is negative for bytes >= 0x80)')
    n_control = 0
    _PROG_W3['prog'] = prog
    for unit in list(units) + list(control or ()):
        prog.unit(unit)
        for f in sorted(prog.funcs_in(unit), key=lambda x: x.line or 0):
            if f.body is None:
                continue
            rd = None
            for n in f.cfg.nodes:
                if not isinstance(n.ast, dict) or n.kind == 'macro':
                    continue
                for x in walk(n.ast):
                    if x.get('kind') != 'ArraySubscriptExpr':
                        continue
                    base = strip(children(x)[0])
                    m = _re.search(r'\[(\d+)\]', qtype(base) or '')
                    if m and int(m.group(1)) != 256 and unit not in (control or ()):
                        # a smaller table indexed by a value computed from a byte (bitmaps `map[c >> 3]`, nibble tables): judged
                        # only when the range of the index is computable from byte ranges
                        rd = rd or ReachingDefs(f)
                        if n.id not in rd.IN:
                            continue
                        iv = _byte_interval(f, rd, n.id, children(x)[1])
                        if iv is None or iv == (iv[0], iv[0]):
                            continue
                        # only indexes that really come from a byte value (range within what char arithmetic produces)
                        N = int(m.group(1))
                        rep.instance(rid)
                        ok2 = iv[0] >= 0 and iv[1] < N
                        rep.oblige(rid, ok2, {'function': f.name, 'line': x.get('_line'), 'subscript': canon(x)[:60], 'index_range': list(iv), 'entries': N})
                        if not ok2:
                            rep.violation(rid, f, x.get('_line'), 'index:%s' % canon(children(x)[1])[:40],
                                          '%s indexes a %d-entry table with a value in [%d, %d] (computed from a plain char, which is negative '
                                          'for bytes >= 0x80): the access lies outside the table' % (canon(x)[:60], N, iv[0], iv[1]))
                        continue
                    if not m or int(m.group(1)) != 256:
                        continue
                    rd = rd or ReachingDefs(f)
                    if n.id not in rd.IN:
                        continue
                    ok = _byte_index_ok(f, rd, n.id, children(x)[1])
                    if unit in (control or ()):
                        n_control += 1
                        if not ok:
                            raise AnalysisBroken('W3 control instance %s:%s is not recognised as byte-indexed' % (unit, x.get('_line')))
                        continue
                    rep.instance(rid)
                    rep.oblige(rid, ok, {'function': f.name, 'line': x.get('_line'), 'subscript': canon(x)[:60]})
                    if not ok:
                        rep.violation(rid, f, x.get('_line'), 'index:%s' % canon(children(x)[1])[:40],
                                      '%s indexes a 256-entry table with a value that can be negative (a plain char, or an int holding '
                                      'one): for bytes >= 0x80 the access lies before the table' % canon(x)[:60])
    if control is not None:
        rep.notes['W3_control_instances'] = n_control
        if n_control == 0:
            raise AnalysisBroken('W3: the control unit has no 256-entry table subscripts any more (rule would pass vacuously)')


def rule_snprintf_fit(prog, rep, units, rid='W5'):
    """`n = (v)snprintf(buf, size, ...)`: the output was complete only if 0 <= n < size (n == size means the last character
    was cut off).  Every comparison between the result and the size that was passed in must therefore be the strict form
    (n < size accepts, n >= size rejects)."""
    rep.rule(rid, 'the result of (v)snprintf is accepted as complete only when it is strictly below the size passed in')
    for unit in units:
        prog.unit(unit)
        for f in sorted(prog.funcs_in(unit), key=lambda x: x.line or 0):
            if f.body is None:
                continue
            pairs = []     # (result variable name, canon of the size argument)
            for x in walk(f.body):
                call = None
                var = None
                if x.get('kind') == 'VarDecl':
                    from .expr import var_init
                    i = var_init(x)
                    if i is not None and strip(i).get('kind') == 'CallExpr':
                        call, var = strip(i), x.get('name')
                elif x.get('kind') == 'BinaryOperator' and x.get('opcode') == '=' and strip(children(x)[1]).get('kind') == 'CallExpr' \
                        and strip(children(x)[0]).get('kind') == 'DeclRefExpr':
                    call, var = strip(children(x)[1]), canon(children(x)[0])
                if call is None or prog.callee_name(call) not in ('snprintf', 'vsnprintf') or len(children(call)) < 3:
                    continue
                pairs.append((var, canon(strip(children(call)[2]))))
            if not pairs:
                continue
            for x in walk(f.body):
                if x.get('kind') != 'BinaryOperator' or x.get('opcode') not in ('<', '<=', '>', '>='):
                    continue
                a, b = (canon(strip(y)) for y in children(x))
                for (var, size) in pairs:
                    op = None
                    if a == var and b == size:
                        op = x['opcode']
                    elif b == var and a == size:
                        op = {'<': '>', '<=': '>=', '>': '<', '>=': '<='}[x['opcode']]
                    if op is None:
                        continue
                    rep.instance(rid)
                    ok = op in ('<', '>=')
                    rep.oblige(rid, ok, {'function': f.name, 'line': x.get('_line'), 'test': canon(x)[:50]})
                    if not ok:
                        rep.violation(rid, f, x.get('_line'), 'fit:%s' % canon(x)[:30],
                                      '%s treats a result equal to the size as fitting: (v)snprintf returns the length the full text '
                                      'would have had, so n == size means the last character was dropped' % canon(x)[:50])


def rule_overwrite_step(prog, rep, units, rid='W6'):
    """In-place rewriting loops.  A loop that overwrites the text at its scan cursor (`memcpy(p, word, L)`) and continues the
    scan from a position computed from that cursor must continue behind what it wrote: the next cursor is `p + L` (or a
    search starting at `p + L`).  Continuing at `p + 1` lets the search match inside the text just written - the output is
    then no longer the left-to-right, non-overlapping replacement."""
    from .dataflow import poly_of
    from .looprules import _natural_body
    rep.rule(rid, 'a loop that overwrites L bytes at its scan cursor continues the scan at cursor + L, not inside the bytes it wrote')
    for unit in units:
        prog.unit(unit)
        for f in sorted(prog.funcs_in(unit), key=lambda x: x.line or 0):
            if f.body is None:
                continue
            cfg = f.cfg
            for (head, stmt) in cfg.loops:
                if head.id not in cfg.reachable:
                    continue
                body = _natural_body(cfg, head, stmt)
                writes = []
                for i in body:
                    m = cfg.nodes[i]
                    if isinstance(m.ast, dict) and m.kind != 'macro':
                        for y in walk(m.ast):
                            if y.get('kind') == 'CallExpr' and prog.callee_name(y) in ('memcpy', 'memmove', 'strncpy') and len(children(y)) > 3:
                                d = strip(children(y)[1])
                                if d.get('kind') == 'DeclRefExpr' and (d.get('_ref') or ('',))[0] == 'local':
                                    writes.append((canon(d), children(y)[3], y))
                for (cur, ln, call) in writes:
                    # the cursor's re-definitions inside the loop that mention the cursor itself
                    steps = []
                    for i in body:
                        m = cfg.nodes[i]
                        if not isinstance(m.ast, dict) or m.kind == 'macro':
                            continue
                        for y in walk(m.ast):
                            if y.get('kind') == 'BinaryOperator' and y.get('opcode') == '=' and canon(children(y)[0]) == cur:
                                r = strip(children(y)[1])
                                # p = p + c   or   p = search(p + c, ...)
                                cands = [r] + ([strip(a) for a in children(r)[1:]] if r.get('kind') == 'CallExpr' else [])
                                for c in cands:
                                    if c.get('kind') == 'BinaryOperator' and c.get('opcode') == '+':
                                        a, b = [strip(z) for z in children(c)]
                                        for (base, off) in ((a, b), (b, a)):
                                            if canon(base) == cur:
                                                steps.append((off, y))
                            elif y.get('kind') == 'CompoundAssignOperator' and y.get('opcode') == '+=' and canon(children(y)[0]) == cur:
                                steps.append((children(y)[1], y))
                    if not steps:
                        continue
                    rep.instance(rid)
                    bad = [(off, y) for (off, y) in steps if not (poly_of(off) - poly_of(ln)).is_zero()]
                    rep.oblige(rid, not bad, {'function': f.name, 'overwrite': canon(call)[:60]})
                    if bad:
                        off, y = bad[0]
                        rep.violation(rid, f, y.get('_line'), 'step:%s' % canon(off)[:20],
                                      '%s: the loop overwrites %s bytes at %s (%s) and continues at %s + %s: the scan re-enters the text it '
                                      'just wrote, so matches that begin inside a replacement are replaced again'
                                      % (f.name, canon(ln), cur, canon(call)[:50], cur, canon(off)))


def rule_no_store_before_move(prog, rep, rid='Q3'):
    """Overlap tolerance of the size-parameterised copy routines: the bytes are moved with memmove(dst, src, n) because src may
    lie inside dst; any store into dst before that move (the terminator, typically) can destroy source bytes that have not
    been moved yet."""
    from .index import _sized_dest
    from .expr import access_path
    rep.rule(rid, 'in the overlap-tolerant copy routines no store into the destination precedes the memmove that reads the source')
    unit = 'src/utilities/qstring.c'
    prog.unit(unit)
    for f in sorted(prog.funcs_in(unit), key=lambda x: x.line or 0):
        if f.body is None or not _sized_dest(f):
            continue
        dst, _size = _sized_dest(f)
        cfg = f.cfg
        moves = [n for n in cfg.nodes if n.id in cfg.reachable and isinstance(n.ast, dict) and n.kind != 'macro' and any(
            y.get('kind') == 'CallExpr' and prog.callee_name(y) == 'memmove' and len(children(y)) > 2 and access_path(children(y)[1]) == dst
            for y in walk(n.ast))]
        for mv in moves:
            rep.instance(rid)

            def stores(m):
                if not isinstance(m.ast, dict) or m.kind == 'macro' or m is mv:
                    return False
                for y in walk(m.ast):
                    if y.get('kind') == 'BinaryOperator' and y.get('opcode') == '=':
                        l = strip(children(y)[0])
                        if l.get('kind') == 'ArraySubscriptExpr' and access_path(children(l)[0]) == dst:
                            return True
                        if l.get('kind') == 'UnaryOperator' and l.get('opcode') == '*' and access_path(children(l)[0]) == dst:
                            return True
                return False
            # is there a path entry -> mv that passes a store?
            seen, work, bad = set(), [(cfg.entry, False)], None
            while work and bad is None:
                m, st = work.pop()
                if (m.id, st) in seen:
                    continue
                seen.add((m.id, st))
                if m is mv:
                    if st:
                        bad = m
                    continue
                st2 = st or stores(m)
                for (s, _l) in m.succs:
                    work.append((s, st2))
            rep.oblige(rid, bad is None, {'function': f.name, 'move_line': mv.line})
            if bad is not None:
                rep.violation(rid, f, mv.line, 'store-before-move',
                              '%s stores into %s before the memmove at line %s has read the source: with overlapping arguments (which the '
                              'routine promises to support) the store destroys a source byte that was not moved yet' % (f.name, dst, mv.line))


def rule_printf_char_hex(prog, rep, units, rid='PF1'):
    """`%x`, `%X`, `%o`, `%u` take an unsigned int.  A plain (or signed) char argument is promoted to int first, so a byte >= 0x80
    is sign-extended and prints as ffffffXX (or is cut to "ff" by a precision/size limit): every such conversion must be fed
    an unsigned char (or wider unsigned) value."""
    import re as _re
    from .frontend import qtype
    rep.rule(rid, 'the argument of a %x/%X/%o/%u conversion is not a plain or signed char (bytes >= 0x80 would be sign-extended)')
    fam = {'printf': 0, 'fprintf': 1, 'sprintf': 1, 'snprintf': 2, 'dprintf': 1, '__builtin___snprintf_chk': 4, '__builtin___sprintf_chk': 3,
           '__snprintf_chk': 4, '__sprintf_chk': 3, '__fprintf_chk': 2, '__printf_chk': 1}
    for unit in units:
        prog.unit(unit)
        for f in sorted(prog.funcs_in(unit), key=lambda x: x.line or 0):
            if f.body is None:
                continue
            for x in walk(f.body):
                if x.get('kind') != 'CallExpr':
                    continue
                nm = prog.callee_name(x)
                if nm not in fam:
                    continue
                args = children(x)[1:]
                fi = fam[nm]
                if fi >= len(args):
                    continue
                fs = strip(args[fi])
                if fs.get('kind') != 'StringLiteral':
                    continue
                fmt = fs.get('value', '')
                convs = _re.findall(r'%(?:%|[-+ #0]*(\*|\d+)?(?:\.(\*|\d+))?(hh|h|ll|l|z|j|t|L)?([a-zA-Z]))', fmt)
                k = fi + 1
                for (w_, p_, ln_, cv) in convs:
                    if cv == '':
                        continue              # %%
                    if w_ == '*':
                        k += 1
                    if p_ == '*':
                        k += 1
                    if k >= len(args):
                        break
                    a = args[k]
                    k += 1
                    if cv not in ('x', 'X', 'o', 'u') or ln_ in ('l', 'll', 'z', 'j', 't'):
                        continue
                    e = a
                    while e.get('kind') in ('ImplicitCastExpr', 'ParenExpr') and e.get('inner'):
                        e = e['inner'][0]
                    t = (qtype(e) or '').replace('const ', '').strip()
                    rep.instance(rid)
                    ok = t not in ('char', 'signed char', 'int8_t')
                    rep.oblige(rid, ok, {'function': f.name, 'line': x.get('_line'), 'conversion': '%' + cv, 'argument_type': t})
                    if not ok:
                        rep.violation(rid, f, x.get('_line'), 'signed-char-hex',
                                      '%s: %s is a %s and goes to a %%%s conversion: it is promoted to int with its sign, so a byte >= 0x80 is '
                                      'printed as ffffff.. (or cut to "ff")' % (f.name, canon(e)[:40], t, cv))


def rule_failure_untouched(prog, rep, units, rid='Q4'):
    """In-place string routines that can fail: a call that returns NULL (refuses its input) has not modified the string.  No
    path from the entry to `return NULL` passes a store into the string parameter (subscript / dereference store, or a
    memmove/memcpy/strcpy with the parameter as destination)."""
    from .expr import access_path, is_null
    from .frontend import qtype
    rep.rule(rid, 'an in-place string routine that returns NULL has not stored into its string argument on that path (a refused input is '
                  'left as it was)')
    for unit in units:
        prog.unit(unit)
        for f in sorted(prog.funcs_in(unit), key=lambda x: x.line or 0):
            if f.body is None or not f.params or not (f.rettype or '').replace(' ', '').startswith('char*'):
                continue
            p0 = f.params[0]
            if (qtype(p0) or '').replace(' ', '') != 'char*':
                continue
            sp = p0.get('name')
            cfg = f.cfg
            fails = [r for r in cfg.returns() if children(r.ast) and is_null(children(r.ast)[0])]
            if not fails:
                continue

            def stores(m):
                if not isinstance(m.ast, dict) or m.kind == 'macro':
                    return False
                for y in walk(m.ast):
                    if y.get('kind') == 'BinaryOperator' and y.get('opcode') == '=':
                        l = strip(children(y)[0])
                        if l.get('kind') == 'ArraySubscriptExpr' and access_path(children(l)[0]) == sp:
                            return True
                        if l.get('kind') == 'UnaryOperator' and l.get('opcode') == '*' and sp in canon(children(l)[0]):
                            return True
                    if y.get('kind') == 'CallExpr' and prog.callee_name(y) in ('memmove', 'memcpy', 'strcpy', 'strncpy', 'memset') \
                            and len(children(y)) > 1:
                        d = canon(children(y)[1])
                        if d == sp or d.startswith('(%s + ' % sp) or d.endswith(' + %s)' % sp):
                            return True
                return False
            for r in fails:
                rep.instance(rid)
                seen, work, bad = set(), [(cfg.entry, False)], False
                while work and not bad:
                    m, st = work.pop()
                    if (m.id, st) in seen:
                        continue
                    seen.add((m.id, st))
                    if m is r:
                        bad = st
                        continue
                    st2 = st or stores(m)
                    for (s2, _l) in m.succs:
                        work.append((s2, st2))
                rep.oblige(rid, not bad, {'function': f.name, 'failure_return_line': r.line})
                if bad:
                    rep.violation(rid, f, r.line, 'modified-then-refused',
                                  '%s can return NULL at line %s after it has already stored into %s: the caller is told the input was refused '
                                  'but the string has been changed' % (f.name, r.line, sp))
