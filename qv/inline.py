"""An "inlined view" of the program, used only as a fall-back when a rule's anchor has vanished.

Extracting a few statements of a protocol into a static helper (`link_first(list, obj)`, `account_slot(data, slot)`) leaves
the behaviour untouched but moves the stores a path rule looks for out of the function it examines: the rule then has no
instance and the check answers analysis-broken.  The inlined view undoes exactly that refactoring: every *statement-level*
call of a static, non-recursive helper of the same unit whose body has a single exit (no `return` except as its last
statement, no labels / gotos, no static locals) is replaced by a copy of the helper's body:

  * an actual that is a plain variable or a literal is substituted for the parameter (unless the helper assigns to, or
    takes the address of, that parameter);
  * every other actual is evaluated once into a fresh temporary declared in front of the copy, as the call would;
  * the helper's locals get fresh names and declaration ids per copy;
  * a trailing `return e;` becomes the expression statement `e;` (the caller ignored the value).

A call whose value is used is expanded only in the forms `v = h(...)`, `v op= h(...)` and `T v = h(...)` with v a plain
variable and h ending in its only `return e;`: the body is placed in front of the statement and the call replaced by e.
Every other call is left alone.  The helpers themselves stay in the program.  This is a semantics-preserving
source transformation; it is applied to a deep copy of the syntax tree, never to /repo."""
import copy

from .frontend import children, walk, strip, Program, _resolve_refs, qtype

MAX_DEPTH = 3


def _is_trivial_actual(e):
    s = strip(e)
    k = s.get('kind')
    if k in ('IntegerLiteral', 'CharacterLiteral', 'StringLiteral', 'FloatingLiteral'):
        return True
    if k == 'DeclRefExpr':
        rd = s.get('referencedDecl') or {}
        return rd.get('kind') in ('VarDecl', 'ParmVarDecl', 'EnumConstantDecl')
    return False


def _callee_ok(g):
    """single exit, no labels/gotos, no static locals"""
    if g is None or g.body is None or not g.static:
        return False
    stmts = children(g.body)
    for i, st in enumerate(stmts):
        for x in walk(st):
            k = x.get('kind')
            if k in ('LabelStmt', 'GotoStmt', 'IndirectGotoStmt'):
                return False
            if k == 'VarDecl' and x.get('storageClass') == 'static':
                return False
            if k == 'ReturnStmt' and not (x is st and i == len(stmts) - 1):
                return False
    for p in g.params:
        if '[' in (qtype(p) or '') or not p.get('name'):
            return False
    if any('...' in (qtype(g.decl) or '') for _ in (0,)):
        return False
    return True


def _param_written(g, pid):
    for x in walk(g.body):
        k = x.get('kind')
        tgt = None
        if k == 'BinaryOperator' and x.get('opcode') == '=':
            tgt = children(x)[0]
        elif k == 'CompoundAssignOperator':
            tgt = children(x)[0]
        elif k == 'UnaryOperator' and x.get('opcode') in ('++', '--', '&'):
            tgt = children(x)[0]
        if tgt is not None:
            s = strip(tgt)
            if s.get('kind') == 'DeclRefExpr' and (s.get('referencedDecl') or {}).get('id') == pid:
                return True
    return False


class _Inliner:
    def __init__(self, prog, unit):
        self.prog = prog
        self.unit = unit
        self.counter = 0
        self.inlined = []          # (caller, callee, line)

    def _stmt_call(self, st):
        """the CallExpr when statement st is a bare call (possibly cast to void), else None"""
        s = st
        while s.get('kind') in ('ParenExpr', 'CStyleCastExpr', 'ImplicitCastExpr') and s.get('inner'):
            s = s['inner'][0]
        return s if s.get('kind') == 'CallExpr' else None

    def expand_call(self, caller_name, call, stack):
        nm = None
        c0 = strip(children(call)[0])
        if c0.get('kind') == 'DeclRefExpr' and (c0.get('referencedDecl') or {}).get('kind') == 'FunctionDecl':
            nm = c0['referencedDecl'].get('name')
        if not nm or nm in stack or len(stack) >= MAX_DEPTH:
            return None
        g = self.prog.funcs.get((self.unit.rel, nm))
        if g is None or not _callee_ok(g):
            return None
        args = children(call)[1:]
        if len(args) != len(g.params):
            return None
        self.counter += 1
        tag = self.counter
        pre = []
        subst = {}
        for p, a in zip(g.params, args):
            pid = p.get('id')
            if _is_trivial_actual(a) and not _param_written(g, pid):
                subst[pid] = ('expr', strip(a))
            else:
                tid = '%s#t%d' % (pid, tag)
                tname = '%s__i%d' % (p.get('name'), tag)
                vd = {'id': tid, 'kind': 'VarDecl', 'name': tname, 'type': copy.deepcopy(p.get('type')), 'init': 'c',
                      'inner': [copy.deepcopy(a)], '_line': call.get('_line'), '_file': call.get('_file'), '_col': call.get('_col')}
                pre.append({'id': tid + 'd', 'kind': 'DeclStmt', 'inner': [vd], '_line': call.get('_line'), '_file': call.get('_file')})
                subst[pid] = ('tmp', tid, tname, p.get('type'))
        body = copy.deepcopy(children(g.body))
        # rename the helper's own locals
        local_ids = {}
        for st in body:
            for x in walk(st):
                if x.get('kind') == 'VarDecl':
                    nid = '%s#i%d' % (x['id'], tag)
                    local_ids[x['id']] = (nid, '%s__i%d' % (x.get('name'), tag))
        for st in body:
            for x in walk(st):
                if x.get('kind') == 'VarDecl' and x['id'] in local_ids:
                    x['id'], x['name'] = local_ids[x['id']]

        def rewrite(n):
            """returns the node to put in place of n"""
            if n.get('kind') == 'DeclRefExpr':
                rd = n.get('referencedDecl') or {}
                rid = rd.get('id')
                if rid in subst:
                    s = subst[rid]
                    if s[0] == 'expr':
                        return copy.deepcopy(s[1])
                    m = dict(n)
                    m['referencedDecl'] = {'id': s[1], 'kind': 'VarDecl', 'name': s[2], 'type': copy.deepcopy(s[3])}
                    m.pop('_ref', None)
                    return m
                if rid in local_ids:
                    n['referencedDecl'] = dict(rd, id=local_ids[rid][0], name=local_ids[rid][1])
                    n.pop('_ref', None)
                return n
            inner = n.get('inner')
            if inner:
                n['inner'] = [rewrite(c) if isinstance(c, dict) else c for c in inner]
            return n
        body = [rewrite(st) for st in body]
        if body and body[-1].get('kind') == 'ReturnStmt':
            last = body.pop()
            if children(last):
                body.append(children(last)[0])
        # nested helper calls inside the copy
        body = self.expand_block(caller_name, body, stack + [nm])
        self.inlined.append((caller_name, nm, call.get('_line')))
        return {'id': 'inl%d' % tag, 'kind': 'CompoundStmt', 'inner': pre + body, '_line': call.get('_line'),
                '_file': call.get('_file'), '_inlined_from': nm}

    def _value_call(self, e):
        """the CallExpr when expression e is nothing but a call (through parentheses / casts)"""
        s = e
        while isinstance(s, dict) and s.get('kind') in ('ParenExpr', 'CStyleCastExpr', 'ImplicitCastExpr') and s.get('inner'):
            s = s['inner'][0]
        return s if isinstance(s, dict) and s.get('kind') == 'CallExpr' else None

    def expand_value(self, caller_name, holder, idx, stack):
        """holder['inner'][idx] is `h(...)` whose value is used once, by holder (an assignment's right side or a variable's
        initialiser): returns the statements to run before holder - the expanded body - after replacing the call by the
        helper's returned expression; None when h is not expandable or returns nothing."""
        call = self._value_call(holder['inner'][idx])
        if call is None:
            return None
        c0 = strip(children(call)[0])
        nm = (c0.get('referencedDecl') or {}).get('name') if c0.get('kind') == 'DeclRefExpr' else None
        g = self.prog.funcs.get((self.unit.rel, nm)) if nm else None
        if g is None or not g.body or not children(g.body) or children(g.body)[-1].get('kind') != 'ReturnStmt' \
                or not children(children(g.body)[-1]):
            return None
        if self._stmt_call(children(children(g.body)[-1])[0]) is not None:
            return None                 # `return other(...)`: the value would itself be expanded as a statement
        blk = self.expand_call(caller_name, call, stack)
        if blk is None:
            return None
        stmts = blk['inner']
        value = stmts.pop()             # the trailing `return e;` was turned into the expression statement `e;`
        holder['inner'][idx] = value
        return stmts

    def expand_block(self, caller_name, stmts, stack):
        out = []
        for st in stmts:
            pre = None
            if isinstance(st, dict):
                k = st.get('kind')
                if k == 'DeclStmt' and len(children(st)) == 1 and children(st)[0].get('kind') == 'VarDecl' \
                        and children(st)[0].get('init') and children(st)[0].get('inner'):
                    vd = children(st)[0]
                    pre = self.expand_value(caller_name, vd, len(vd['inner']) - 1, stack)
                elif (k == 'BinaryOperator' and st.get('opcode') == '=') or k == 'CompoundAssignOperator':
                    if len(st.get('inner') or []) == 2 and self._value_call(st['inner'][0]) is None:
                        # the left side is evaluated after the helper ran: only a plain variable is safe to move across it
                        l = strip(st['inner'][0])
                        if l.get('kind') == 'DeclRefExpr':
                            pre = self.expand_value(caller_name, st, 1, stack)
            if pre is not None:
                out.extend(pre)
                out.append(st)
                continue
            out.append(self.expand_stmt(caller_name, st, stack))
        return out

    def expand_stmt(self, caller_name, st, stack):
        if not isinstance(st, dict):
            return st
        call = self._stmt_call(st)
        if call is not None:
            r = self.expand_call(caller_name, call, stack)
            return r if r is not None else st
        k = st.get('kind')
        if k == 'CompoundStmt':
            st['inner'] = self.expand_block(caller_name, children(st), stack)
        elif k == 'IfStmt':
            ch = st.get('inner') or []
            # condition first, then the arms (an init statement / condition variable is not used in this code base)
            st['inner'] = [ch[0]] + [self.expand_stmt(caller_name, c, stack) for c in ch[1:]] if ch else ch
        elif k in ('WhileStmt', 'SwitchStmt'):
            ch = st.get('inner') or []
            if ch:
                st['inner'] = ch[:-1] + [self.expand_stmt(caller_name, ch[-1], stack)]
        elif k == 'DoStmt':
            ch = st.get('inner') or []
            if ch:
                st['inner'] = [self.expand_stmt(caller_name, ch[0], stack)] + ch[1:]
        elif k == 'ForStmt':
            ch = st.get('inner') or []
            if ch:
                st['inner'] = ch[:-1] + [self.expand_stmt(caller_name, ch[-1], stack)]
        elif k in ('LabelStmt', 'CaseStmt', 'DefaultStmt'):
            ch = st.get('inner') or []
            if ch:
                st['inner'] = ch[:-1] + [self.expand_stmt(caller_name, ch[-1], stack)]
        return st


def inlined_view(prog):
    """A Program over the same units in which statement-level calls of single-exit static helpers are expanded in place.
    Returns (program, list of (caller, callee, line))."""
    new_units = []
    done = []
    for u in prog.units:
        inl = _Inliner(prog, u)
        nu = copy.copy(u)
        nu.functions = {}
        nu.decl_kind = dict(u.decl_kind)
        for name, d in u.functions.items():
            body = [c for c in children(d) if c.get('kind') == 'CompoundStmt']
            if not body:
                nu.functions[name] = d
                continue
            before = len(inl.inlined)
            nb = copy.deepcopy(body[0])
            nb['inner'] = inl.expand_block(name, children(nb), [name])
            if len(inl.inlined) == before:
                nu.functions[name] = d
                continue
            nd = dict(d)
            nd['inner'] = [c if c is not body[0] else nb for c in d.get('inner') or []]
            for x in walk(nb):
                x.pop('_ref', None)
                x.pop('_field', None)
            _resolve_refs(nd, nu)
            nu.functions[name] = nd
        done += inl.inlined
        new_units.append(nu)
    return Program(new_units, prog.root, prog.config), done
