"""Engine E: private copies and independent results (C12)."""
import collections
import re
from .frontend import walk, children, strip, strip_parens, qtype, Ext
from .expr import canon, access_path, is_null, var_init
from .dataflow import ReachingDefs, origins, poly_of, eval_cond

RAW_PTR = re.compile(r'^(const )?(void|char|unsigned char) \*(const)?$')

# Stores of a caller pointer that are the documented purpose of the call: (function, param) -> reason
R1_EXEMPT = {
    ('qhasharr', 'memory'): 'the static hash table lives in the caller-supplied region by design; only the per-process handle keeps the address',
}

ALWAYS_COPY = {
    # accessor -> reason it must always return an independent allocation
    'pop': 'the element is destroyed in the same call',
    'find_min': 'documented: malloced copy of the key',
    'find_max': 'documented: malloced copy of the key',
    'toarray': 'flattening allocates the result',
    'tostring': 'flattening allocates the result',
}

ACCESSOR_UNITS = ['src/containers/qtreetbl.c', 'src/containers/qhashtbl.c', 'src/containers/qhasharr.c',
                  'src/containers/qlisttbl.c', 'src/containers/qlist.c', 'src/containers/qvector.c',
                  'src/containers/qqueue.c', 'src/containers/qstack.c', 'src/containers/qgrow.c']


def _is_raw_ptr(p):
    return bool(RAW_PTR.match(qtype(p).strip()))


def _lhs_is_memory(lhs):
    l = strip(lhs)
    k = l.get('kind')
    if k == 'MemberExpr':
        return True
    if k == 'ArraySubscriptExpr':
        return True
    if k == 'UnaryOperator' and l.get('opcode') == '*':
        return True
    return False


def compute_stores(prog, units):
    """func key -> {param index: (line, description)} for parameters whose pointer value
    (possibly offset / through locals) is stored into memory, directly or via a callee."""
    stores = collections.defaultdict(dict)
    rds = {}
    funcs = [f for f in prog.funcs.values()]
    changed = True
    rounds = 0
    while changed and rounds < 6:
        changed = False
        rounds += 1
        for f in funcs:
            if not any(qtype(p).rstrip().endswith('*') for p in f.params):
                continue
            rd = rds.get(f.key)
            if rd is None:
                rd = rds[f.key] = ReachingDefs(f)
            pidx = {p.get('name'): i for i, p in enumerate(f.params)}
            for n in f.cfg.nodes:
                if n.id not in f.cfg.reachable or not isinstance(n.ast, dict) or n.kind == 'macro':
                    continue
                for x in walk(n.ast):
                    k = x.get('kind')
                    if k == 'BinaryOperator' and x.get('opcode') == '=':
                        lhs, rhs = children(x)
                        if not _lhs_is_memory(lhs):
                            continue
                        if not qtype(strip_parens(lhs)).rstrip().endswith('*'):
                            continue
                        for t in origins(rd, n.id, rhs):
                            if t.startswith('param:'):
                                i = pidx.get(t[6:])
                                if i is not None and i not in stores[f.key]:
                                    stores[f.key][i] = (x.get('_line'), '%s = %s' % (canon(lhs)[:40], canon(rhs)[:40]))
                                    changed = True
                    elif k == 'CallExpr':
                        args = children(x)[1:]
                        for c in prog.callees(f.unit, x):
                            if isinstance(c, Ext):
                                continue
                            for j, why in list(stores.get(c.key, {}).items()):
                                if j < len(args) and qtype(strip_parens(args[j])).rstrip().endswith('*'):
                                    for t in origins(rd, n.id, args[j]):
                                        if t.startswith('param:'):
                                            i = pidx.get(t[6:])
                                            if i is not None and i not in stores[f.key]:
                                                stores[f.key][i] = (x.get('_line'), 'passed to %s() which stores it (%s)'
                                                                    % (c.name, why[1]))
                                                changed = True
    return stores


def rule_r1(prog, rep, units, rid='R1'):
    rep.rule(rid, 'no caller-supplied key/value pointer of a public container function is stored into container-reachable memory')
    stores = compute_stores(prog, units)
    for rel in units:
        for f in sorted(prog.funcs_in(rel), key=lambda x: x.line or 0):
            if f.static:
                continue
            raw = [(i, p) for i, p in enumerate(f.params) if _is_raw_ptr(p)]
            if not raw:
                continue
            for i, p in raw:
                rep.instance(rid)
                st = stores.get(f.key, {}).get(i)
                exempt = R1_EXEMPT.get((f.name, p.get('name')))
                ok = st is None or exempt is not None
                rep.oblige(rid, ok, {'function': f.name, 'param': p.get('name'), 'type': qtype(p),
                                     'stored': st[1] if st else None, 'exempt': exempt})
                if not ok:
                    rep.violation(rid, f, st[0], 'param:%s' % p.get('name'),
                                  'the caller\'s pointer `%s` is kept by the container (%s): later changes to or release of '
                                  'the caller\'s buffer change what the container returns' % (p.get('name'), st[1]))
    rep.notes['R1_exemptions'] = {'%s(%s)' % k: v for k, v in R1_EXEMPT.items()}


# --------------------------------------------------------------------------------------
# R3: independent results

def _flag_param(f):
    for i, p in enumerate(f.params):
        if p.get('name') == 'newmem':
            return i, p
    return None, None


def _always_copy(name):
    for pre in ('qtreetbl_', 'qhashtbl_', 'qlisttbl_', 'qlist_', 'qvector_', 'qqueue_', 'qstack_', 'qgrow_'):
        if name.startswith(pre):
            t = name[len(pre):]
            for k, why in ALWAYS_COPY.items():
                if t.startswith(k):
                    return why
    if name in ('qhasharr_get', 'qhasharr_getstr', 'qhasharr_get_by_obj'):
        return 'the value is assembled from slots into a new block'
    return None


FRESH_TAGS = ('fresh:', 'null')


def rule_r3(prog, rep, units, om, rid='R3'):
    rep.rule(rid, 'with the copy flag set (and for pop / find_min / find_max / static-hash get always) the returned pointer and '
                  'the cursor\'s name/data are fresh allocations on every success path')
    # 1. classify functions
    flagged = {}
    always = {}
    for rel in units:
        for f in prog.funcs_in(rel):
            i, p = _flag_param(f)
            if i is not None:
                flagged[f.key] = i
            elif not f.static:
                why = _always_copy(f.name)
                if why and f.rettype.rstrip().endswith('*'):
                    always[f.key] = why
    # 2. fixpoint: which functions return fresh (under the assumption)
    good = set()
    detail = {}

    def ret_fresh(f, assume):
        rd = ReachingDefs(f, assume)
        bad = []
        for r in f.cfg.returns():
            if r.id not in rd.IN or not children(r.ast):
                continue
            e = children(r.ast)[0]
            if not qtype(strip_parens(e)).rstrip().endswith('*'):
                continue
            for t in origins(rd, r.id, e):
                if t.startswith(FRESH_TAGS) or t == 'lit' and False:
                    continue
                if t.startswith('call:'):
                    m = re.match(r'call:(\w+)@(\d+)', t)
                    cn = m.group(1) if m else None
                    if cn and _call_is_fresh(prog, f, cn, int(m.group(2)), good, flagged, assume, om):
                        continue
                bad.append((r.line, t))
        return bad, rd

    def cursor_fresh(f, assume, rd):
        """assignments to <cursor param>->name / ->data / by-value result .name/.data"""
        bad = []
        for n in f.cfg.nodes:
            if n.id not in rd.IN or not isinstance(n.ast, dict) or n.kind == 'macro':
                continue
            for x in walk(n.ast):
                if x.get('kind') == 'BinaryOperator' and x.get('opcode') == '=':
                    lhs, rhs = children(x)
                    l = strip(lhs)
                    if l.get('kind') != 'MemberExpr' or l.get('name') not in ('name', 'data'):
                        continue
                    b = strip(children(l)[0])
                    if b.get('kind') != 'DeclRefExpr':
                        continue
                    r = b.get('_ref') or ('',)
                    is_cursor = (r[0] == 'param' and l.get('isArrow')) or (r[0] == 'local' and not l.get('isArrow'))
                    if not is_cursor or is_null(rhs):
                        continue
                    for t in origins(rd, n.id, rhs):
                        if t.startswith(FRESH_TAGS):
                            continue
                        if t.startswith('call:'):
                            # a helper that returns a fresh copy (`dup_value()`): same fixpoint as for returned pointers
                            m = re.match(r'call:(\w+)@(\d+)', t)
                            cn = m.group(1) if m else None
                            if cn and _call_is_fresh(prog, f, cn, int(m.group(2)), good, flagged, assume, om):
                                continue
                        bad.append((x.get('_line'), '%s = %s [%s]' % (canon(lhs), canon(rhs)[:40], t)))
        return bad

    # static pointer-returning helpers without a copy flag: not obligations themselves, but callers may route through them
    helpers = []
    for rel in units:
        for f in prog.funcs_in(rel):
            if f.static and f.body is not None and f.key not in flagged and f.key not in always and (f.rettype or '').rstrip().endswith('*'):
                helpers.append(f.key)
    results = {}
    for _ in range(6):
        changed = False
        for key in list(flagged) + list(always) + helpers:
            if key in good:
                continue
            f = prog.funcs[key]
            assume = {'newmem': True} if key in flagged else {}
            bad, rd = ret_fresh(f, assume)
            badc = cursor_fresh(f, assume, rd) if key in flagged else []
            results[key] = (bad, badc)
            if not bad and not badc:
                good.add(key)
                changed = True
        if not changed:
            break
    for key in sorted(list(flagged) + list(always), key=str):
        f = prog.funcs[key]
        bad, badc = results.get(key, ([], []))
        rep.instance(rid)
        ok = key in good
        rep.oblige(rid, ok, {'function': f.name, 'kind': 'copy flag' if key in flagged else 'always copy (%s)' % always[key]})
        if not ok:
            for (line, t) in (bad[:1] or []):
                rep.violation(rid, f, line, 'return', 'with the copy flag set the function can return a pointer that is not a '
                                                      'fresh allocation (origin %s): the caller receives internal storage' % t)
            for (line, t) in badc[:1]:
                rep.violation(rid, f, line, 'cursor', 'with the copy flag set the cursor receives internal storage: %s' % t)
    rep.notes['copy_flag_functions'] = sorted(prog.funcs[k].name for k in flagged)
    rep.notes['always_copy_functions'] = sorted(prog.funcs[k].name for k in always)


def _call_is_fresh(prog, f, callee_name, line, good, flagged, assume, om):
    # find the call expression
    for x in walk(f.body):
        if x.get('kind') == 'CallExpr' and x.get('_line') == line:
            f0 = strip(children(x)[0])
            nm = None
            if f0.get('kind') == 'DeclRefExpr' and f0.get('_ref'):
                nm = f0['_ref'][1]
            elif f0.get('kind') == 'MemberExpr':
                nm = f0.get('name')
            if nm != callee_name:
                continue
            cands = [c for c in prog.callees(f.unit, x) if not isinstance(c, Ext)]
            if not cands:
                return False
            args = children(x)[1:]
            for c in cands:
                if c.key in om.fresh:
                    continue
                if c.key not in good:
                    return False
                if c.key in flagged:
                    i = flagged[c.key]
                    if i >= len(args):
                        return False
                    v = eval_cond(args[i], assume)
                    from .expr import int_value
                    if v is None:
                        c0 = int_value(args[i])
                        v = bool(c0) if c0 is not None and not isinstance(c0, str) else None
                    if v is not True:
                        return False
            return True
    return False


# --------------------------------------------------------------------------------------
# R2: copied length = stored size = reported size

SIZE_FIELD = {'data': ('size', 'datasize'), 'name': ('namesize',)}


def rule_r2(prog, rep, units, rid='R2'):
    rep.rule(rid, 'where a private copy is stored next to a size field, the recorded size is the allocated/copied length')
    for rel in units:
        for f in sorted(prog.funcs_in(rel), key=lambda x: x.line or 0):
            rd = None
            stores = []   # (base, field, rhs, node, line)
            for n in f.cfg.nodes:
                if n.id not in f.cfg.reachable or not isinstance(n.ast, dict) or n.kind == 'macro':
                    continue
                for x in walk(n.ast):
                    if x.get('kind') == 'BinaryOperator' and x.get('opcode') == '=':
                        l = strip(children(x)[0])
                        if l.get('kind') == 'MemberExpr':
                            b = access_path(children(l)[0])
                            if b:
                                stores.append((b, l.get('name'), children(x)[1], n, x.get('_line')))
            for (b, fld, rhs, n, line) in stores:
                if fld not in SIZE_FIELD:
                    continue
                if not any(x.get('kind') == 'MemberExpr' and x.get('name') == fld and x.get('_field')
                           and x['_field'][0].endswith('_obj_s') and access_path(children(x)[0]) == b
                           for x in walk(f.body)):
                    continue     # only element/node records carry (copy, size) pairs
                if rd is None:
                    rd = ReachingDefs(f)
                # the allocation that produced rhs
                asz = _fresh_size(prog, rd, n.id, rhs)
                if asz is None:
                    continue
                # does the record have the paired size field at all?
                recs = [x['_field'][0] for x in walk(f.body) if x.get('kind') == 'MemberExpr' and x.get('name') == fld
                        and x.get('_field') and access_path(children(x)[0]) == b]
                has_size_field = False
                if recs:
                    for u in prog.units:
                        fl = u.record_fields.get(recs[0])
                        if fl:
                            has_size_field = any(ff['name'] in SIZE_FIELD[fld] for ff in fl)
                            break
                sized = [st for st in stores if st[0] == b and st[1] in SIZE_FIELD[fld]]
                struct_copy = any(x.get('kind') == 'BinaryOperator' and x.get('opcode') == '=' and
                                  canon(children(x)[0]) in (b, '(*%s)' % b) and not qtype(strip_parens(children(x)[0])).rstrip().endswith('*')
                                  for x in walk(f.body))
                if has_size_field and not sized and not struct_copy:
                    rep.instance(rid)
                    rep.oblige(rid, False, {'function': f.name, 'copy': '%s->%s (%s bytes)' % (b, fld, asz), 'recorded': None})
                    rep.violation(rid, f, line, '%s->%s:size-missing' % (b, fld),
                                  'a fresh copy of %s bytes is stored in %s->%s but the paired size field is never updated in %s: the '
                                  'element keeps the previous length' % (asz, b, fld, f.name))
                for (b2, fld2, rhs2, n2, line2) in stores:
                    if b2 == b and fld2 in SIZE_FIELD[fld]:
                        rep.instance(rid)
                        sz = poly_of(rhs2, rd, n2.id)
                        dc = (asz - sz).as_const()
                        ok = dc is not None and dc in (0, 1)      # +1: separately stored terminator
                        rep.oblige(rid, ok, {'function': f.name, 'copy': '%s->%s (%s bytes)' % (b, fld, asz),
                                             'recorded': '%s->%s = %s' % (b, fld2, sz)})
                        if not ok:
                            rep.violation(rid, f, line2, '%s->%s' % (b, fld2),
                                          '%s->%s records %s but the private copy in %s->%s has %s bytes'
                                          % (b, fld2, sz, b, fld, asz))


def _fresh_size(prog, rd, node_id, e, depth=0):
    """Size polynomial of the allocation that produced pointer expression e, if it is a
    single malloc(n)/qmemdup(p, n) reaching definition."""
    e = strip(e)
    if e.get('kind') == 'CallExpr':
        nm = prog.callee_name(e)
        args = children(e)[1:]
        if nm == 'malloc' and args:
            return poly_of(args[0], rd, node_id)
        if nm == 'qmemdup' and len(args) >= 2:
            return poly_of(args[1], rd, node_id)
        return None
    if e.get('kind') == 'DeclRefExpr' and (e.get('_ref') or ('',))[0] == 'local' and depth < 3:
        ds = rd.reaching(node_id, e['_ref'][1])
        if len(ds) == 1 and ds[0].rhs is not None and ds[0].kind in ('init', 'assign'):
            return _fresh_size(prog, rd, ds[0].node, ds[0].rhs, depth + 1)
    return None


# --------------------------------------------------------------------------------------
# R2-move: a payload pointer and its size field move together

def payload_pairs(prog):
    """record -> [(pointer field, size field)] derived from the record declarations."""
    out = {}
    for u in prog.units:
        for rn, fl in u.record_fields.items():
            if not rn.endswith('_obj_s') or rn in out:
                continue
            names = {f['name']: f for f in fl}
            pairs = []
            for f in fl:
                if not f['type'].rstrip().endswith('*'):
                    continue
                for cand in (f['name'] + 'size', 'size' if f['name'] == 'data' else None):
                    if cand and cand in names and not names[cand]['type'].rstrip().endswith('*'):
                        pairs.append((f['name'], cand))
                        break
            if pairs:
                out[rn] = pairs
    return out


def rule_r2_move(prog, rep, units, rid='R2-move'):
    from .chain import expand
    rep.rule(rid, 'when a key/value pointer is taken over from another node, its size field is taken over from the same node')
    pairs = payload_pairs(prog)
    rep.notes['payload_size_pairs'] = {k: ['%s/%s' % p for p in v] for k, v in pairs.items()}
    for rel in units:
        for f in sorted(prog.funcs_in(rel), key=lambda x: x.line or 0):
            assigns = []
            for n in f.cfg.nodes:
                if n.id not in f.cfg.reachable or not isinstance(n.ast, dict) or n.kind == 'macro':
                    continue
                for x in walk(n.ast):
                    if x.get('kind') == 'BinaryOperator' and x.get('opcode') == '=':
                        l = strip(children(x)[0])
                        if l.get('kind') == 'MemberExpr' and l.get('_field') and l['_field'][0] in pairs:
                            assigns.append((n, x, l))
            if not assigns:
                continue
            rd = ReachingDefs(f)
            for (n, x, l) in assigns:
                rec, fld = l['_field'][0], l['_field'][1]
                pr = [p for p in pairs[rec] if p[0] == fld]
                if not pr:
                    continue
                sizef = pr[0][1]
                src = expand(rd, n.id, children(x)[1])
                m = re.match(r'^(.*)(->|\.)%s$' % re.escape(fld), src)
                if not m:
                    continue
                owner = m.group(1)
                dst = canon(children(l)[0]) + ('->' if l.get('isArrow') else '.')
                if owner + m.group(2) == dst:
                    continue
                # the source must itself be a node of the same record
                rep.instance(rid)
                want = '%s%s%s' % (owner, m.group(2), sizef)
                got = [expand(rd, n2.id, children(x2)[1]) for (n2, x2, l2) in assigns
                       if l2['_field'][1] == sizef and canon(children(l2)[0]) == canon(children(l)[0])]
                ok = want in got
                rep.oblige(rid, ok, {'function': f.name, 'move': '%s%s = %s' % (dst, fld, src), 'size_from': got})
                if not ok:
                    rep.violation(rid, f, x.get('_line'), 'move:%s' % fld,
                                  '%s%s takes over %s but %s%s is %s: the payload is later copied/reported with the wrong length'
                                  % (dst, fld, src, dst, sizef, ('assigned from ' + ', '.join(got)) if got else 'not updated'))


def rule_r2_fill(prog, rep, units, rid='R2-fill'):
    """Bytes copied into a node's payload field are accompanied, on every path to the return, by storing that
    length in the paired size field (an in-place overwrite must update the recorded length)."""
    from .hasharr import _path_avoiding
    rep.rule(rid, 'a copy into a node\'s value/key buffer is followed on all paths by storing the copied length in the paired size field')
    pairs = payload_pairs(prog)
    for rel in units:
        for f in sorted(prog.funcs_in(rel), key=lambda x: x.line or 0):
            for n in f.cfg.nodes:
                if n.id not in f.cfg.reachable or not isinstance(n.ast, dict) or n.kind == 'macro':
                    continue
                for x in walk(n.ast):
                    if x.get('kind') == 'CallExpr' and prog.callee_name(x) in ('memcpy', 'memmove', 'strcpy', 'strncpy'):
                        args = children(x)[1:]
                        d = strip(args[0])
                        if d.get('kind') != 'MemberExpr' or not d.get('_field') or d['_field'][0] not in pairs:
                            continue
                        pr = [p for p in pairs[d['_field'][0]] if p[0] == d['_field'][1]]
                        if not pr or len(args) < 3:
                            continue
                        owner = canon(children(d)[0]) + ('->' if d.get('isArrow') else '.')
                        want_l = owner + pr[0][1]
                        ln = canon(args[2])
                        rep.instance(rid)

                        def sets(m):
                            if not isinstance(m.ast, dict) or m.kind == 'macro':
                                return False
                            return any(y.get('kind') == 'BinaryOperator' and y.get('opcode') == '=' and canon(children(y)[0]) == want_l
                                       and canon(children(y)[1]) == ln for y in walk(m.ast))
                        # the length may also have been stored just before the copy on every path
                        before = _stored_before(f, n, want_l, ln)
                        ok = before or not _path_avoiding(f.cfg, n, sets)
                        rep.oblige(rid, ok, {'function': f.name, 'copy': canon(x)[:70], 'requires': '%s = %s' % (want_l, ln)})
                        if not ok:
                            rep.violation(rid, f, x.get('_line'), 'fill:%s' % canon(d),
                                          '%s bytes are copied into %s but some path returns without %s = %s: the element keeps a '
                                          'stale length' % (ln, canon(d), want_l, ln))


def _stored_before(f, node, lhs, rhs):
    dom = f.cfg.dominators().get(node.id, set())
    for i in dom:
        m = f.cfg.nodes[i]
        if isinstance(m.ast, dict) and m.kind != 'macro':
            for y in walk(m.ast):
                if y.get('kind') == 'BinaryOperator' and y.get('opcode') == '=' and canon(children(y)[0]) == lhs and canon(children(y)[1]) == rhs:
                    return True
    return False


def rule_r2_bin(prog, rep, units, rid='R2-bin'):
    """Binary payloads (void* fields that travel with a size field) are duplicated with byte-counted primitives; a
    string duplication (strdup/strndup) stops at the first NUL byte, so the copy is shorter than the size reported with it."""
    rep.rule(rid, 'binary payload fields (void *) are never duplicated with strdup/strndup: the copy would stop at the first NUL '
                  'while the stored size is reported')
    for rel in units:
        for f in sorted(prog.funcs_in(rel), key=lambda x: x.line or 0):
            if f.body is None:
                continue
            for x in walk(f.body):
                if x.get('kind') != 'CallExpr' or prog.callee_name(x) not in ('strdup', 'strndup'):
                    continue
                a = children(x)[1] if len(children(x)) > 1 else None
                if a is None:
                    continue
                # strip casts down to the designated object
                e = a
                while e.get('kind') in ('ImplicitCastExpr', 'ParenExpr', 'CStyleCastExpr') and e.get('inner'):
                    e = e['inner'][0]
                if e.get('kind') != 'MemberExpr':
                    continue
                rep.instance(rid)
                t = (qtype(e) or '').replace('const ', '').strip()
                ok = t != 'void *'
                rep.oblige(rid, ok, {'function': f.name, 'line': x.get('_line'), 'call': canon(x)[:60], 'field_type': t})
                if not ok:
                    rep.violation(rid, f, x.get('_line'), 'strdup:%s' % canon(e), '%s duplicates the binary payload %s as a string: the '
                                  'copy ends at the first NUL byte although the stored size is what callers are told' % (canon(x)[:50], canon(e)))


SIZE_OF_PAYLOAD = {'name': ('namesize',), 'data': ('datasize', 'size')}


def rule_r2_src(prog, rep, units, rid='R2-src'):
    """A node's payload is duplicated / copied out with that node's own size field: qmemdup(X->p, L), memcpy(dst, X->p, L)
    and malloc(L) feeding such a copy use L = X->psize (the size stored next to the payload), never a length that belongs to
    something else (a lookup key, another node)."""
    rep.rule(rid, 'a node payload (name/data) is copied with the size stored next to it in the same node')
    for rel in units:
        for f in sorted(prog.funcs_in(rel), key=lambda x: x.line or 0):
            if f.body is None:
                continue
            for x in walk(f.body):
                if x.get('kind') != 'CallExpr':
                    continue
                nm = prog.callee_name(x)
                args = children(x)[1:]
                if nm == 'qmemdup' and len(args) >= 2:
                    src, ln = args[0], args[1]
                elif nm in ('memcpy', 'memmove') and len(args) >= 3:
                    src, ln = args[1], args[2]
                else:
                    continue
                s0 = strip(src)
                if s0.get('kind') != 'MemberExpr' or s0.get('name') not in SIZE_OF_PAYLOAD:
                    continue
                rec = (s0.get('_field') or ('',))[0]
                if not rec.endswith('_obj_s'):
                    continue
                owner = canon(children(s0)[0])
                want = ['%s%s%s' % (owner, '->' if s0.get('isArrow') else '.', sf) for sf in SIZE_OF_PAYLOAD[s0['name']]]
                # does the record have that size field at all?
                flds = {fl['name'] for u in prog.units for fl in u.record_fields.get(rec, [])}
                want = [w for w, sf in zip(want, SIZE_OF_PAYLOAD[s0['name']]) if sf in flds]
                if not want:
                    continue
                rep.instance(rid)
                got = canon(strip(ln))
                # a local that was assigned the size field counts as the field
                ok = got in want
                if not ok and strip(ln).get('kind') == 'DeclRefExpr':
                    from .dataflow import ReachingDefs
                    from .expr import var_init
                    for y in walk(f.body):
                        if y.get('kind') == 'VarDecl' and y.get('name') == got and var_init(y) is not None and canon(strip(var_init(y))) in want:
                            ok = True
                        if y.get('kind') == 'BinaryOperator' and y.get('opcode') == '=' and canon(children(y)[0]) == got \
                                and canon(strip(children(y)[1])) in want:
                            ok = True
                rep.oblige(rid, ok, {'function': f.name, 'line': x.get('_line'), 'copy': canon(x)[:60], 'expected_length': want})
                if not ok:
                    rep.violation(rid, f, x.get('_line'), 'len:%s' % canon(s0), '%s copies %s with length %s; the size stored with that payload '
                                  'is %s - a shorter length truncates the copy, a longer one reads past the stored block'
                                  % (canon(x)[:50], canon(s0), got, ' / '.join(want)))
