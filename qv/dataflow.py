"""Generic intraprocedural dataflow helpers: reaching definitions, origins, symbolic
linear forms.  All work on the CFG of one function; nothing executes code."""
import re
from .frontend import walk, children, strip, strip_parens, qtype
from .expr import canon, var_init, int_value, is_null


# Repo functions that return one of their pointer parameters unchanged (or NULL): name -> parameter index.
# Filled by register_identity_functions(prog); lets `origins` look through small pass-through helpers.
IDENTITY_FUNCS = {}


OUT_FRESH = {}     # function name -> set of parameter indexes through which it hands out a fresh allocation on success


def _register_out_fresh(prog):
    """g(..., T **out, ...) returning a status: every store `*out = v` in g has a fresh allocation as origin."""
    OUT_FRESH.clear()
    for f in prog.funcs.values():
        if f.body is None:
            continue
        pp = {p.get('name'): i for i, p in enumerate(f.params) if ((p.get('type') or {}).get('qualType') or '').replace(' ', '').endswith('**')}
        if not pp:
            continue
        stores = {}
        for n in f.cfg.nodes:
            if not isinstance(n.ast, dict) or n.kind == 'macro':
                continue
            for x in walk(n.ast):
                if x.get('kind') == 'BinaryOperator' and x.get('opcode') == '=':
                    l = strip_parens(children(x)[0])
                    if l.get('kind') == 'UnaryOperator' and l.get('opcode') == '*':
                        b = strip(children(l)[0])
                        nm = (b.get('referencedDecl') or {}).get('name') if b.get('kind') == 'DeclRefExpr' else None
                        if nm in pp:
                            stores.setdefault(nm, []).append((n, children(x)[1]))
        if not stores:
            continue
        rd = ReachingDefs(f)
        for nm, sts in stores.items():
            ok = True
            for (n, rhs) in sts:
                if n.id not in rd.IN:
                    continue
                tags = origins(rd, n.id, rhs)
                if not tags or not all(t.startswith('fresh:') or t == 'null' for t in tags):
                    ok = False
            if ok:
                OUT_FRESH.setdefault(f.name, set()).add(pp[nm])


def _out_fresh_call(rd, d):
    """the call `g(..., &v, ...)` of address-taken definition d when g hands out only fresh blocks through that parameter"""
    n = rd.func.cfg.nodes[d.node]
    if not isinstance(n.ast, dict):
        return None
    for x in walk(n.ast):
        if x.get('kind') == 'CallExpr':
            f0 = strip(children(x)[0])
            nm = (f0.get('referencedDecl') or {}).get('name') if f0.get('kind') == 'DeclRefExpr' else None
            if nm in OUT_FRESH:
                for i, a in enumerate(children(x)[1:]):
                    sa = strip(a)
                    if i in OUT_FRESH[nm] and sa.get('kind') == 'UnaryOperator' and sa.get('opcode') == '&':
                        t = strip(children(sa)[0])
                        if t.get('kind') == 'DeclRefExpr' and (t.get('_ref') or ('', None))[1] == d.var:
                            return x
    return None


def _strong_out_def(rd, d, use_id):
    """d: an address-taken definition `g(..., &v, ...)` at a condition node that tests g's status.  True iff g hands out a fresh
    block through that parameter and the use can only be reached over the success edge of that test."""
    cfg = rd.func.cfg
    n = cfg.nodes[d.node]
    if n.kind != 'cond' or not isinstance(n.ast, dict):
        return None
    call = None
    for x in walk(n.ast):
        if x.get('kind') == 'CallExpr':
            f0 = strip(children(x)[0])
            nm = (f0.get('referencedDecl') or {}).get('name') if f0.get('kind') == 'DeclRefExpr' else None
            if nm in OUT_FRESH:
                for i, a in enumerate(children(x)[1:]):
                    sa = strip(a)
                    if i in OUT_FRESH[nm] and sa.get('kind') == 'UnaryOperator' and sa.get('opcode') == '&':
                        t = strip(children(sa)[0])
                        if t.get('kind') == 'DeclRefExpr' and (t.get('_ref') or ('', None))[1] == d.var:
                            call = x
    if call is None:
        return None
    # polarity of the test: which edge means "the helper succeeded (returned non-zero)"
    c = strip_parens(n.ast)
    succ_label = None
    if strip(c) is call or c is call:
        succ_label = 'T'
    elif c.get('kind') == 'UnaryOperator' and c.get('opcode') == '!' and strip(children(c)[0]) is call:
        succ_label = 'F'
    elif c.get('kind') == 'BinaryOperator' and c.get('opcode') in ('==', '!='):
        a, b = children(c)
        for x, y in ((a, b), (b, a)):
            v = int_value(y)
            if strip(x) is call and isinstance(v, int):
                eq_is_success = v != 0
                succ_label = ('T' if eq_is_success else 'F') if c.get('opcode') == '==' else ('F' if eq_is_success else 'T')
    if succ_label is None:
        return None
    # is the use reachable from the entry without the success edge?
    assume = getattr(rd, 'assume', None)
    seen, work = set(), [cfg.entry]
    while work:
        m = work.pop()
        if m.id in seen:
            continue
        seen.add(m.id)
        for (s2, lab) in m.succs:
            if m.id == n.id and lab == succ_label:
                continue
            if assume and m.kind == 'cond' and lab in ('T', 'F') and isinstance(m.ast, dict):
                v = eval_cond(m.ast, assume)
                if v is not None and v != (lab == 'T'):
                    continue
            work.append(s2)
    if use_id in seen:
        return None
    return 'fresh:out@%s' % call.get('_line')


def register_identity_functions(prog):
    _ADDR_HELPERS['prog'] = prog
    _register_identity_functions(prog)
    _register_out_fresh(prog)


def _register_identity_functions(prog):
    IDENTITY_FUNCS.clear()
    for f in prog.funcs.values():
        if not f.rettype.rstrip().endswith('*'):
            continue
        rets = [r for r in f.cfg.returns() if children(r.ast)]
        if not rets:
            continue
        idx = None
        ok = True
        for r in rets:
            e = strip(children(r.ast)[0])
            if e.get('kind') == 'IntegerLiteral':
                continue
            if e.get('kind') == 'DeclRefExpr' and (e.get('_ref') or ('',))[0] == 'param':
                i = e['_ref'][3]
                # the parameter must not be reassigned inside the function
                reassigned = any(x.get('kind') == 'BinaryOperator' and x.get('opcode') == '=' and
                                 strip(children(x)[0]).get('kind') == 'DeclRefExpr' and
                                 (strip(children(x)[0]).get('_ref') or ('', None))[1] == e['_ref'][1] for x in walk(f.body))
                if reassigned or (idx is not None and idx != i):
                    ok = False
                    break
                idx = i
            else:
                ok = False
                break
        if ok and idx is not None and idx >= 0:
            IDENTITY_FUNCS[f.name] = idx


class Def:
    __slots__ = ('id', 'var', 'node', 'rhs', 'kind', 'line')

    def __init__(self, id, var, node, rhs, kind, line):
        self.id = id
        self.var = var      # decl id
        self.node = node    # CFG node id
        self.rhs = rhs      # expression or None
        self.kind = kind    # 'init' | 'assign' | 'update' | 'param' | 'addr' | 'uninit'
        self.line = line


def node_defs(n):
    """Definitions of locals/params made by CFG node n, in evaluation order:
    list of (var decl id, rhs or None, kind, line)."""
    out = []
    a = n.ast
    if not isinstance(a, dict) or n.kind == 'macro':
        return out
    if a.get('kind') == 'VarDecl':
        init = var_init(a)
        # collect assignments nested in the initialiser first
        if init is not None:
            out += _expr_defs(init)
            out.append((a['id'], init, 'init', a.get('_line')))
        else:
            out.append((a['id'], None, 'uninit', a.get('_line')))
        return out
    return _expr_defs(a)


def _expr_defs(e):
    out = []
    # post-order so that inner assignments come first (x = y = f())
    def rec(x):
        for c in children(x):
            rec(c)
        k = x.get('kind')
        if k == 'BinaryOperator' and x.get('opcode') == '=':
            l = strip_parens(children(x)[0])
            if l.get('kind') == 'DeclRefExpr' and l.get('_ref') and l['_ref'][0] in ('local', 'param'):
                out.append((l['_ref'][1], children(x)[1], 'assign', x.get('_line')))
        elif k == 'CompoundAssignOperator':
            l = strip_parens(children(x)[0])
            if l.get('kind') == 'DeclRefExpr' and l.get('_ref') and l['_ref'][0] in ('local', 'param'):
                out.append((l['_ref'][1], x, 'update', x.get('_line')))
        elif k == 'UnaryOperator' and x.get('opcode') in ('++', '--'):
            l = strip_parens(children(x)[0])
            if l.get('kind') == 'DeclRefExpr' and l.get('_ref') and l['_ref'][0] in ('local', 'param'):
                out.append((l['_ref'][1], x, 'update', x.get('_line')))
        elif k == 'UnaryOperator' and x.get('opcode') == '&':
            l = strip_parens(children(x)[0])
            if l.get('kind') == 'DeclRefExpr' and l.get('_ref') and l['_ref'][0] in ('local', 'param'):
                out.append((l['_ref'][1], None, 'addr', x.get('_line')))
    rec(e)
    return out


def eval_cond(e, assume):
    """Truth value of a condition under `assume` ({param name: bool}), or None if unknown.
    Understands p, !p, p == true/false/0/1, p != ..."""
    if not assume:
        return None
    s = strip_parens(e)
    k = s.get('kind')
    if k == 'UnaryOperator' and s.get('opcode') == '!':
        v = eval_cond(children(s)[0], assume)
        return None if v is None else (not v)
    if k == 'BinaryOperator' and s.get('opcode') in ('==', '!='):
        a, b = children(s)
        for x, y in ((a, b), (b, a)):
            xs = strip(x)
            if xs.get('kind') == 'DeclRefExpr' and xs.get('_ref') and xs['_ref'][0] == 'param' \
                    and xs['_ref'][2] in assume:
                c = int_value(y)
                if c is not None and not isinstance(c, str):
                    v = (assume[xs['_ref'][2]] == bool(c))
                    return v if s.get('opcode') == '==' else (not v)
        return None
    xs = strip(s)
    if xs.get('kind') == 'DeclRefExpr' and xs.get('_ref') and xs['_ref'][0] == 'param' and xs['_ref'][2] in assume:
        return assume[xs['_ref'][2]]
    return None


class ReachingDefs:
    def __init__(self, func, assume=None):
        """assume: {param name: bool} - CFG edges contradicting the assumption are not followed."""
        self.func = func
        self.assume = assume
        cfg = func.cfg
        self.defs = []
        self.node_gen = {}
        for p in func.params:
            d = Def(len(self.defs), p['id'], cfg.entry.id, None, 'param', p.get('_line'))
            self.defs.append(d)
        entry_defs = {d.var: frozenset([d.id]) for d in self.defs}
        for n in cfg.nodes:
            g = []
            for (var, rhs, kind, line) in node_defs(n):
                d = Def(len(self.defs), var, n.id, rhs, kind, line)
                self.defs.append(d)
                g.append(d)
            self.node_gen[n.id] = g
        self.IN = {cfg.entry.id: dict(entry_defs)}
        self.OUT = {}
        work = [cfg.entry]
        while work:
            n = work.pop()
            cur = dict(self.IN.get(n.id, {}))
            for d in self.node_gen[n.id]:
                if d.kind == 'addr':
                    cur[d.var] = cur.get(d.var, frozenset()) | frozenset([d.id])
                else:
                    cur[d.var] = frozenset([d.id])
            self.OUT[n.id] = cur
            for (s, _l) in n.succs:
                if assume and n.kind == 'cond' and _l in ('T', 'F') and isinstance(n.ast, dict):
                    v = eval_cond(n.ast, assume)
                    if v is not None and v != (_l == 'T'):
                        continue
                old = self.IN.get(s.id)
                if old is None:
                    self.IN[s.id] = dict(cur)
                    work.append(s)
                else:
                    ch = False
                    for v, ds in cur.items():
                        o = old.get(v)
                        if o is None:
                            old[v] = ds
                            ch = True
                        elif not ds <= o:
                            old[v] = o | ds
                            ch = True
                    if ch:
                        work.append(s)

    def reaching(self, node_id, var):
        """Definitions of var reaching the *start* of node."""
        return [self.defs[i] for i in sorted(self.IN.get(node_id, {}).get(var, ()))]


# --------------------------------------------------------------------------------------
# origins: which base object may a pointer expression point into

def _moved_out(rd, d, use_id):
    """d: `v = X->f` (pointer field load). True iff every CFG path from the definition to the use passes a store
    `X->f = NULL` (same canonical path) and X is not re-assigned in between."""
    r = strip(d.rhs)
    if r.get('kind') != 'MemberExpr' or not qtype(r).rstrip().endswith('*'):
        return False
    path = canon(r)
    cfg = rd.func.cfg
    detach = set()
    for n in cfg.nodes:
        if not isinstance(n.ast, dict) or n.kind == 'macro':
            continue
        for x in walk(n.ast):
            if x.get('kind') == 'BinaryOperator' and x.get('opcode') == '=' and canon(children(x)[0]) == path \
                    and is_null(children(x)[1]):
                detach.add(n.id)
    if not detach or d.node in detach:
        return False
    byid = {n.id: n for n in cfg.nodes}
    seen, work = {d.node}, [byid[d.node]]
    while work:
        n = work.pop()
        for (s, _l) in n.succs:
            if s.id in detach or s.id in seen:
                continue
            if s.id == use_id:
                return False
            seen.add(s.id)
            work.append(s)
    return True


def origins(rd, node_id, e, prog=None, depth=0, seen=None):
    """Set of origin tags of pointer expression e evaluated at CFG node node_id.
    Tags: 'param:<name>', 'path:<canon>', 'fresh:<line>', 'lit', 'addr:<name>', 'call:<name>@<line>',
    'null', 'unknown'."""
    if seen is None:
        seen = set()
    e = strip(e)
    k = e.get('kind')
    if k == 'DeclRefExpr':
        r = e.get('_ref') or ('',)
        if r[0] in ('local', 'param'):
            out = set()
            if OUT_FRESH:
                for d in rd.reaching(node_id, r[1]):
                    if d.kind == 'addr':
                        strong = _strong_out_def(rd, d, node_id)
                        if strong:
                            return {strong}
            for d in rd.reaching(node_id, r[1]):
                if d.kind == 'param':
                    out.add('param:%s' % r[2])
                elif d.kind in ('init', 'assign') and d.rhs is not None:
                    key = (d.id)
                    if key in seen:
                        continue
                    seen.add(key)
                    if _moved_out(rd, d, node_id):
                        # `v = X->f; ... X->f = NULL;` on every path to the use: the container gave its only reference
                        # away - for the receiver the block is as good as freshly allocated (ownership transfer)
                        out.add('fresh:moved@%s' % d.line)
                        continue
                    out |= origins(rd, d.node, d.rhs, prog, depth + 1, seen)
                elif d.kind == 'update':
                    # p += k / p++ : same base as before the update
                    key = (d.id)
                    if key in seen:
                        continue
                    seen.add(key)
                    out |= origins(rd, d.node, e, prog, depth + 1, seen)
                elif d.kind == 'addr':
                    call = _out_fresh_call(rd, d) if OUT_FRESH else None
                    key = ('addr', d.id)
                    if call is None:
                        out.add('unknown')
                    elif key not in seen:
                        # the callee stores nothing but fresh blocks (or NULL) through this parameter: after the call the variable
                        # holds such a block or - when the callee did not store - what it held before the call
                        seen.add(key)
                        out.add('fresh:out@%s' % call.get('_line'))
                        if any(d0.id != d.id for d0 in rd.reaching(d.node, r[1])):
                            out |= origins(rd, d.node, e, prog, depth + 1, {k for k in seen if isinstance(k, tuple)})
                else:
                    out.add('uninit')
            return out or {'unknown'}
        if r[0] == 'global':
            return {'path:%s' % r[2]}
        return {'unknown'}
    if k == 'MemberExpr':
        t = qtype(e)
        if '[' in t:   # array member: the containing object
            return {'path:%s' % canon(e)}
        return {'path:%s' % canon_subst(rd, node_id, e)}
    if k == 'BinaryOperator' and e.get('opcode') in ('+', '-'):
        ch = children(e)
        a = origins(rd, node_id, ch[0], prog, depth, seen)
        if qtype(strip(ch[1])).rstrip().endswith('*') and e.get('opcode') == '+':
            a = a | origins(rd, node_id, ch[1], prog, depth, seen)
        return a
    if k == 'BinaryOperator' and e.get('opcode') == '=':
        return origins(rd, node_id, children(e)[1], prog, depth, seen)
    if k == 'BinaryOperator' and e.get('opcode') == ',':
        return origins(rd, node_id, children(e)[1], prog, depth, seen)
    if k in ('CompoundAssignOperator',):
        return origins(rd, node_id, children(e)[0], prog, depth, seen)
    if k == 'UnaryOperator':
        op = e.get('opcode')
        c = children(e)[0]
        if op == '&':
            s = strip(c)
            if s.get('kind') == 'ArraySubscriptExpr':
                return origins(rd, node_id, children(s)[0], prog, depth, seen)
            if s.get('kind') == 'MemberExpr':
                return {'path:%s' % canon_subst(rd, node_id, s)}
            if s.get('kind') == 'DeclRefExpr':
                return {'addr:%s' % canon(s)}
            if s.get('kind') == 'UnaryOperator' and s.get('opcode') == '*':
                return origins(rd, node_id, children(s)[0], prog, depth, seen)
            return {'unknown'}
        if op in ('++', '--'):
            return origins(rd, node_id, c, prog, depth, seen)
        if op == '*':
            return {'path:*%s' % canon_subst(rd, node_id, c)}
        return {'unknown'}
    if k == 'ArraySubscriptExpr':
        return {'path:%s' % canon_subst(rd, node_id, e)}
    if k == 'ConditionalOperator':
        ch = children(e)
        v = eval_cond(ch[0], getattr(rd, 'assume', None))
        if v is True:
            return origins(rd, node_id, ch[1], prog, depth, seen)
        if v is False:
            return origins(rd, node_id, ch[2], prog, depth, seen)
        return origins(rd, node_id, ch[1], prog, depth, seen) | origins(rd, node_id, ch[2], prog, depth, seen)
    if k == 'CallExpr':
        nm = None
        f0 = strip(children(e)[0])
        if f0.get('kind') == 'DeclRefExpr' and f0.get('_ref'):
            nm = f0['_ref'][1]
        elif f0.get('kind') == 'MemberExpr':
            nm = f0.get('name')
        if nm in ('malloc', 'calloc', 'strdup', 'strndup', 'qmemdup', 'qstrdupf'):
            return {'fresh:%s' % e.get('_line')}
        if nm == 'realloc':
            return {'fresh:%s' % e.get('_line')}
        if nm in IDENTITY_FUNCS and IDENTITY_FUNCS[nm] + 1 < len(children(e)):
            return origins(rd, node_id, children(e)[1 + IDENTITY_FUNCS[nm]], prog, depth, seen)
        if nm in ('strchr', 'strrchr', 'strstr', 'strpbrk', 'memchr', 'strcpy', 'strncpy', 'memcpy', 'memmove',
                  'strcat', 'qstrtrim', 'qstrtrim_head', 'qstrtrim_tail', 'qstrupper', 'qstrlower', 'qstrcpy',
                  'qstrncpy', 'qstrunchar', 'qstrrev'):
            return origins(rd, node_id, children(e)[1], prog, depth, seen)
        return {'call:%s@%s' % (nm, e.get('_line'))}
    if k == 'IntegerLiteral':
        return {'null'}
    if k == 'StringLiteral':
        return {'lit'}
    if k == 'CompoundLiteralExpr':
        return {'lit'}
    return {'unknown'}


def canon_subst(rd, node_id, e):
    """canon(e) where a local pointer variable with a single reaching pure definition is
    replaced by that definition's canonical form (one level of alias resolution)."""
    e = strip(e)
    k = e.get('kind')
    if k == 'DeclRefExpr':
        r = e.get('_ref') or ('',)
        if r[0] == 'local':
            ds = rd.reaching(node_id, r[1])
            if len(ds) == 1 and ds[0].kind in ('init', 'assign') and ds[0].rhs is not None:
                rhs = strip(ds[0].rhs)
                if rhs.get('kind') in ('MemberExpr', 'DeclRefExpr') and rhs is not e:
                    if not (rhs.get('kind') == 'DeclRefExpr' and rhs.get('_ref', ('',))[0] == 'local'):
                        return canon(rhs)
        return canon(e)
    if k == 'MemberExpr':
        return canon_subst(rd, node_id, children(e)[0]) + ('->' if e.get('isArrow') else '.') + e.get('name', '?')
    if k == 'ArraySubscriptExpr':
        ch = children(e)
        return '%s[%s]' % (canon_subst(rd, node_id, ch[0]), canon(ch[1]))
    return canon(e)


# --------------------------------------------------------------------------------------
# symbolic linear forms (polynomials with integer coefficients over canonical atoms)

class Poly:
    """dict: monomial (sorted tuple of atom strings) -> int coefficient."""

    def __init__(self, terms=None):
        self.t = {k: v for k, v in (terms or {}).items() if v != 0}

    @staticmethod
    def const(c):
        return Poly({(): c})

    @staticmethod
    def atom(a):
        return Poly({(a,): 1})

    def __add__(self, o):
        t = dict(self.t)
        for k, v in o.t.items():
            t[k] = t.get(k, 0) + v
        return Poly(t)

    def __neg__(self):
        return Poly({k: -v for k, v in self.t.items()})

    def __sub__(self, o):
        return self + (-o)

    def __mul__(self, o):
        t = {}
        for k1, v1 in self.t.items():
            for k2, v2 in o.t.items():
                k = tuple(sorted(k1 + k2))
                t[k] = t.get(k, 0) + v1 * v2
        return Poly(t)

    def __eq__(self, o):
        return self.t == o.t

    def is_zero(self):
        return not self.t

    def as_const(self):
        if not self.t:
            return 0
        if list(self.t.keys()) == [()]:
            return self.t[()]
        return None

    def __repr__(self):
        if not self.t:
            return '0'
        return ' + '.join(str(v) if not k else ('%s%s' % (('%d*' % v) if v != 1 else '', '*'.join(k))) for k, v in sorted(self.t.items()))


def poly_of(e, rd=None, node_id=None, depth=0):
    """Polynomial of an integer/pointer-offset expression.  Local variables with a single
    reaching pure definition are expanded (bounded depth)."""
    e = strip(e)
    k = e.get('kind')
    v = int_value(e)
    if v is not None and isinstance(v, int):
        return Poly.const(v)
    if k == 'BinaryOperator':
        op = e.get('opcode')
        ch = children(e)
        if op in ('+', '-', '*'):
            a = poly_of(ch[0], rd, node_id, depth)
            b = poly_of(ch[1], rd, node_id, depth)
            return a + b if op == '+' else (a - b if op == '-' else a * b)
    if k == 'UnaryOperator' and e.get('opcode') == '-':
        return -poly_of(children(e)[0], rd, node_id, depth)
    if k == 'DeclRefExpr' and rd is not None and depth < 4:
        r = e.get('_ref') or ('',)
        if r[0] == 'local':
            ds = rd.reaching(node_id, r[1])
            if len(ds) == 1 and ds[0].kind in ('init', 'assign') and ds[0].rhs is not None:
                rhs = strip(ds[0].rhs)
                if rhs.get('kind') in ('BinaryOperator', 'UnaryOperator', 'MemberExpr', 'IntegerLiteral',
                                       'UnaryExprOrTypeTraitExpr') and not _mentions(rhs, r[1]):
                    # only expand if operands of the definition are not redefined in between: conservative
                    # check = the definition dominates and its free locals have the same reaching defs
                    if _stable(rd, ds[0].node, node_id, rhs):
                        return poly_of(rhs, rd, ds[0].node, depth + 1)
    return Poly.atom(canon(e))


def _mentions(e, var_id):
    for n in walk(e):
        if n.get('kind') == 'DeclRefExpr' and n.get('_ref') and len(n['_ref']) > 1 and n['_ref'][1] == var_id:
            return True
    return False


def _stable(rd, from_node, to_node, e):
    for n in walk(e):
        if n.get('kind') == 'DeclRefExpr' and n.get('_ref') and n['_ref'][0] in ('local', 'param'):
            a = rd.IN.get(from_node, {}).get(n['_ref'][1])
            b = rd.IN.get(to_node, {}).get(n['_ref'][1])
            if a != b:
                return False
    return True


def offset_split(e, rd=None, node_id=None, depth=0):
    """Split a pointer expression into (base canon string, offset Poly in *bytes if the
    arithmetic is on char/void pointers, elements otherwise*)."""
    e = strip(e)
    k = e.get('kind')
    if k == 'BinaryOperator' and e.get('opcode') in ('+', '-'):
        ch = children(e)
        lt = qtype(strip_parens(ch[0]))
        if lt.rstrip().endswith('*') or '[' in lt:
            b, off = offset_split(ch[0], rd, node_id, depth)
            o2 = poly_of(ch[1], rd, node_id)
            return b, (off + o2 if e.get('opcode') == '+' else off - o2)
        rt = qtype(strip_parens(ch[1]))
        if rt.rstrip().endswith('*') and e.get('opcode') == '+':
            b, off = offset_split(ch[1], rd, node_id, depth)
            return b, off + poly_of(ch[0], rd, node_id)
    if k == 'UnaryOperator' and e.get('opcode') == '&':
        s = strip(children(e)[0])
        if s.get('kind') == 'ArraySubscriptExpr':
            ch = children(s)
            b, off = offset_split(ch[0], rd, node_id, depth)
            return b, off + poly_of(ch[1], rd, node_id) * Poly.atom('sizeof(%s)' % qtype(s))
    if k == 'DeclRefExpr' and rd is not None and depth < 4:
        r = e.get('_ref') or ('',)
        if r[0] == 'local':
            ds = rd.reaching(node_id, r[1])
            if len(ds) == 1 and ds[0].kind in ('init', 'assign') and ds[0].rhs is not None \
                    and not _mentions(ds[0].rhs, r[1]) and _stable(rd, ds[0].node, node_id, ds[0].rhs):
                return offset_split(ds[0].rhs, rd, ds[0].node, depth + 1)
    if k == 'CallExpr' and _ADDR_HELPERS.get('prog') is not None and depth < 4:
        # an address helper: a static function whose only statement returns base-of-a-parameter + offset-over-parameters
        prog = _ADDR_HELPERS['prog']
        nm = prog.callee_name(e)
        g = None
        if nm:
            for cand in prog.funcs.values():
                if cand.name == nm and cand.static and cand.body is not None:
                    g = cand
                    break
        if g is not None:
            stmts = [c for c in children(g.body)]
            if len(stmts) == 1 and stmts[0].get('kind') == 'ReturnStmt' and children(stmts[0]):
                b0, off0 = offset_split(children(stmts[0])[0])
                pn = [p.get('name') for p in g.params]
                args = children(e)[1:]
                if len(args) == len(pn):
                    amap = {p_: a for p_, a in zip(pn, args)}

                    def ren(t):
                        m = re.match(r'^([A-Za-z_]\w*)((?:->\w+)*)$', t)
                        if m and m.group(1) in amap:
                            return canon(amap[m.group(1)]) + m.group(2) if m.group(2) else None
                        return t
                    nb = ren(b0)
                    if nb is not None:
                        total = Poly()
                        ok = True
                        for mono, coef in off0.t.items():
                            term = Poly.const(coef)
                            for atom in mono:
                                m = re.match(r'^([A-Za-z_]\w*)$', atom)
                                if m and atom in amap:
                                    term = term * poly_of(amap[atom], rd, node_id)
                                else:
                                    ra = ren(atom)
                                    if ra is None:
                                        ok = False
                                        break
                                    term = term * Poly.atom(ra)
                            if not ok:
                                break
                            total = total + term
                        if ok:
                            return nb, total
    return canon(e), Poly()


_ADDR_HELPERS = {}
