"""CU4 — counted-array discipline of the Apache-style tokenizer (qaconf.c).

The per-line callback record owns a heap array `argv` whose first `argc` cells are initialised (cell `argc` is stored, then
`argc` is incremented).  A read of `rec->argv[K]` with a constant K is a read of an initialised cell only if at least K+1
cells were stored on every path from the allocation of `rec` to the read.  Must-analysis: lower bound of the number of
store+increment steps since the record was allocated (join = minimum), path-sensitive on the literal-valued flag locals
that steer the tokenizer loop (so the loop is known to run at least once).
"""
from .frontend import walk, children, strip, strip_parens, AnalysisBroken, qtype
from .expr import canon, access_path, int_value
from .own import propagate, node_events

CAP = 3


def _flag_locals(f):
    """bool/int locals only ever assigned the literals true/false/0/1"""
    vals = {}
    bad = set()
    for x in walk(f.body):
        if x.get('kind') == 'VarDecl':
            from .expr import var_init
            i = var_init(x)
            if i is not None:
                v = int_value(i)
                if isinstance(v, int) and v in (0, 1):
                    vals.setdefault(x.get('name'), set()).add(v)
                else:
                    bad.add(x.get('name'))
        elif x.get('kind') == 'BinaryOperator' and x.get('opcode') == '=':
            l = strip(children(x)[0])
            if l.get('kind') == 'DeclRefExpr':
                v = int_value(children(x)[1])
                nm = (l.get('referencedDecl') or {}).get('name')
                if isinstance(v, int) and v in (0, 1):
                    vals.setdefault(nm, set()).add(v)
                else:
                    bad.add(nm)
        elif x.get('kind') in ('CompoundAssignOperator',) or (x.get('kind') == 'UnaryOperator' and x.get('opcode') in ('++', '--')):
            l = strip(children(x)[0])
            if l.get('kind') == 'DeclRefExpr':
                bad.add((l.get('referencedDecl') or {}).get('name'))
    return {k for k in vals if k not in bad}


def _flag_test(c, flags):
    """(flag, value the flag has on the T edge) for `f`, `!f`, `f == lit`, `f != lit`"""
    c = strip_parens(strip(c)) if c.get('kind') in ('ImplicitCastExpr', 'ParenExpr') else strip_parens(c)
    s = strip(c)
    if s.get('kind') == 'DeclRefExpr':
        nm = (s.get('referencedDecl') or {}).get('name')
        return (nm, 1) if nm in flags else None
    if s.get('kind') == 'UnaryOperator' and s.get('opcode') == '!':
        t = _flag_test(children(s)[0], flags)
        return (t[0], 1 - t[1]) if t else None
    if s.get('kind') == 'BinaryOperator' and s.get('opcode') in ('==', '!='):
        a, b = children(s)
        for x, y in ((a, b), (b, a)):
            sx = strip(x)
            v = int_value(y)
            if sx.get('kind') == 'DeclRefExpr' and isinstance(v, int) and v in (0, 1):
                nm = (sx.get('referencedDecl') or {}).get('name')
                if nm in flags:
                    return (nm, v if s.get('opcode') == '==' else 1 - v)
    return None


def _count_test(c, recs):
    """(record, op, K) for `rec->argc <op> K` (either operand order)"""
    s = strip_parens(c)
    if s.get('kind') != 'BinaryOperator' or s.get('opcode') not in ('==', '!=', '<', '>', '<=', '>='):
        return None
    a, b = children(s)
    flip = {'==': '==', '!=': '!=', '<': '>', '>': '<', '<=': '>=', '>=': '<='}
    for x, y, op in ((a, b, s['opcode']), (b, a, flip[s['opcode']])):
        sx = strip(x)
        K = int_value(y)
        if sx.get('kind') == 'MemberExpr' and sx.get('name') == 'argc' and isinstance(K, int):
            r = access_path(children(sx)[0])
            if r in recs:
                return r, op, K
    return None


def _analyse(prog, f, recs, flags, summaries, collect_reads=True):
    """Partitioned forward analysis.  Returns (reads, exits) where reads = [(line, rec, K, count, text)] and
    exits = [(return class 'T'/'F'/'?', {rec: count})]."""
    reads = []
    exits = []
    cfg = f.cfg

    def helper_call(e):
        """(helper summary, record) if e is a call to a summarised helper whose first argument is a tracked record"""
        e = strip(e)
        if e.get('kind') != 'CallExpr':
            return None
        for c in prog.callees(f.unit, e):
            sm = summaries.get(getattr(c, 'key', None))
            if sm is None:
                return None
            args = children(e)[1:]
            if sm['param'] < len(args):
                r = access_path(args[sm['param']])
                if r in recs:
                    return sm, r
        return None

    def tested_call(c):
        """for a condition that tests a helper call: (summary, record, class on the true edge)"""
        s0 = strip_parens(c)
        k = s0.get('kind')
        if k == 'UnaryOperator' and s0.get('opcode') == '!':
            t = tested_call(children(s0)[0])
            return (t[0], t[1], 'F' if t[2] == 'T' else 'T') if t else None
        if k == 'BinaryOperator' and s0.get('opcode') in ('==', '!='):
            a, b = children(s0)
            for x, y in ((a, b), (b, a)):
                v = int_value(y)
                h = helper_call(x)
                if h and isinstance(v, int):
                    eq_cls = 'T' if v != 0 else 'F'
                    cls = eq_cls if s0.get('opcode') == '==' else ('F' if eq_cls == 'T' else 'T')
                    return h[0], h[1], cls
            return None
        h = helper_call(s0)
        if h:
            return h[0], h[1], 'T'
        return None

    def transfer(n, st, skip_call=None):
        if not isinstance(n.ast, dict) or n.kind == 'macro':
            return st
        s = dict(st)
        lhs_ids = set()
        for x in walk(n.ast):
            if x.get('kind') == 'BinaryOperator' and x.get('opcode') == '=':
                lhs_ids.add(id(strip_parens(children(x)[0])))
        for x in walk(n.ast):
            if x.get('kind') == 'ArraySubscriptExpr' and id(x) not in lhs_ids:
                b = strip(children(x)[0])
                if b.get('kind') == 'MemberExpr' and b.get('name') == 'argv':
                    r = access_path(children(b)[0])
                    k = int_value(children(x)[1])
                    if r in recs and isinstance(k, int):
                        reads.append((x.get('_line'), r, k, s.get(('lb', r), 0), canon(x)))
        for ev in node_events(n):
            if ev[0] == 'assign':
                l = strip(ev[1])
                if l.get('kind') == 'DeclRefExpr':
                    nm = (l.get('referencedDecl') or {}).get('name')
                    if nm in recs and not collect_reads is False:
                        s[('lb', nm)] = 0
                    if nm in flags:
                        s[('flag', nm)] = int_value(ev[2])
                elif l.get('kind') == 'MemberExpr' and l.get('name') == 'argc':
                    r = access_path(children(l)[0])
                    if r in recs:
                        s[('lb', r)] = 0
            elif ev[0] == 'decl':
                nm = ev[1].get('name')
                if nm in flags and ev[2] is not None:
                    s[('flag', nm)] = int_value(ev[2])
                if nm in recs:
                    s[('lb', nm)] = 0
            elif ev[0] == 'update':
                l = strip(ev[1])
                if l.get('kind') == 'MemberExpr' and l.get('name') == 'argc':
                    r = access_path(children(l)[0])
                    x = ev[2]
                    if r in recs:
                        if x.get('kind') == 'UnaryOperator' and x.get('opcode') == '++':
                            s[('lb', r)] = min(CAP, s.get(('lb', r), 0) + 1)
                        else:
                            s[('lb', r)] = 0
            elif ev[0] == 'call':
                # a flag handed to the callee by address (`next_word(&pos, &done, ...)`) has an unknown value afterwards
                for a_ in children(ev[1])[1:]:
                    sa_ = strip(a_)
                    if sa_.get('kind') == 'UnaryOperator' and sa_.get('opcode') == '&':
                        t_ = strip(children(sa_)[0])
                        nm_ = (t_.get('referencedDecl') or {}).get('name') if t_.get('kind') == 'DeclRefExpr' else None
                        if nm_ in flags:
                            s[('flag', nm_)] = None
                if ev[1] is skip_call:
                    continue
                h = helper_call(ev[1])
                if h:
                    sm, r = h
                    s[('lb', r)] = min(CAP, s.get(('lb', r), 0) + min(sm['gain'].values()))
        return frozenset(s.items())

    def branch(n, st, lab, tested):
        if not isinstance(n.ast, dict):
            return st
        if tested:
            sm, r, cls_true = tested
            cls = cls_true if lab == 'T' else ('F' if cls_true == 'T' else 'T')
            s = dict(st)
            s[('lb', r)] = min(CAP, s.get(('lb', r), 0) + sm['gain'].get(cls, min(sm['gain'].values())))
            return frozenset(s.items())
        ct = _count_test(n.ast, recs)
        if ct:
            s = dict(st)
            c = s.get(('lb', ct[0]), 0)
            op, K = ct[1], ct[2]
            if lab == 'F':
                op = {'==': '!=', '!=': '==', '<': '>=', '>=': '<', '>': '<=', '<=': '>'}[op]
            if c < CAP:
                holds = {'==': c == K, '!=': c != K, '<': c < K, '>=': c >= K, '>': c > K, '<=': c <= K}[op]
                return st if holds else None
            if K < CAP:
                holds = {'==': False, '!=': True, '<': False, '>=': True, '>': True, '<=': False}[op]
                return st if holds else None
            return st
        t = _flag_test(n.ast, flags)
        if not t:
            return st
        s = dict(st)
        val = t[1] if lab == 'T' else 1 - t[1]
        known = s.get(('flag', t[0]))
        if known is not None and known != val:
            return None
        s[('flag', t[0])] = val
        return frozenset(s.items())

    table = {cfg.entry.id: {frozenset((('lb', r), 0) for r in recs)}}
    work = [(cfg.entry, next(iter(table[cfg.entry.id])))]
    seen = set()
    steps = 0
    while work:
        n, st = work.pop()
        if (n.id, st) in seen:
            continue
        seen.add((n.id, st))
        steps += 1
        if steps > 300000:
            raise AnalysisBroken('%s: argv-cell analysis does not converge' % f.name)
        tested = tested_call(n.ast) if (n.kind == 'cond' and isinstance(n.ast, dict) and summaries) else None
        skip = None
        if tested:
            for x in walk(n.ast):
                if x.get('kind') == 'CallExpr' and helper_call(x):
                    skip = x
        out = transfer(n, st, skip)
        for (sx, lab) in n.succs:
            o2 = out
            if lab in ('T', 'F'):
                o2 = branch(n, out, lab, tested)
                if o2 is None:
                    continue
            if sx is cfg.exit:
                cls = '?'
                if isinstance(n.ast, dict) and n.ast.get('kind') == 'ReturnStmt' and children(n.ast):
                    v = int_value(children(n.ast)[0])
                    if isinstance(v, int):
                        cls = 'T' if v != 0 else 'F'
                d = dict(o2)
                exits.append((cls, {r: d.get(('lb', r), 0) for r in recs}))
                continue
            # drop None-valued flags for a canonical key
            o2 = frozenset((k, v) for (k, v) in o2 if v is not None)
            work.append((sx, o2))
    return reads, exits


def rule_argv_cells(prog, rep, unit='src/extensions/qaconf.c', rid='CU4'):
    rep.rule(rid, 'a cell rec->argv[K] of the per-line record is read only after at least K+1 store-and-count steps on every path '
                  'since the record was allocated (reads of uninitialised heap cells in error paths included)')
    prog.unit(unit)
    # helper summaries: static functions that count cells of a record handed in as a parameter
    summaries = {}
    for f in prog.funcs_in(unit):
        if f.body is None or not f.static:
            continue
        for i, p in enumerate(f.params):
            if 'cbdata' not in (qtype(p) or ''):
                continue
            pn = p.get('name')
            incs = any(x.get('kind') == 'UnaryOperator' and x.get('opcode') == '++' and strip(children(x)[0]).get('kind') == 'MemberExpr'
                       and strip(children(x)[0]).get('name') == 'argc' and access_path(children(strip(children(x)[0]))[0]) == pn
                       for x in walk(f.body))
            allocs = any(x.get('kind') == 'BinaryOperator' and x.get('opcode') == '=' and canon(children(x)[0]) == pn for x in walk(f.body))
            if incs and not allocs:
                _reads, exits = _analyse(prog, f, {pn}, _flag_locals(f), {}, collect_reads=False)
                gain = {}
                for (cls, d) in exits:
                    gain[cls] = min(gain.get(cls, CAP), d[pn])
                if gain:
                    summaries[f.key] = {'param': i, 'gain': gain, 'name': f.name}
    rep.notes['CU4_helper_summaries'] = {v['name']: v['gain'] for v in summaries.values()}
    total = 0
    for f in sorted(prog.funcs_in(unit), key=lambda x: x.line or 0):
        if f.body is None:
            continue
        recs = set()
        for x in walk(f.body):
            if x.get('kind') == 'BinaryOperator' and x.get('opcode') == '=':
                l = strip(children(x)[0])
                if l.get('kind') == 'DeclRefExpr' and 'cbdata' in (qtype(l) or ''):
                    if any(y.get('kind') == 'CallExpr' and prog.callee_name(y) in ('malloc', 'calloc') for y in walk(children(x)[1])):
                        recs.add((l.get('referencedDecl') or {}).get('name'))
            elif x.get('kind') == 'VarDecl' and 'cbdata' in (qtype(x) or ''):
                from .expr import var_init
                i = var_init(x)
                if i is not None and any(y.get('kind') == 'CallExpr' and prog.callee_name(y) in ('malloc', 'calloc') for y in walk(i)):
                    recs.add(x.get('name'))
        if not recs:
            continue
        reads, _exits = _analyse(prog, f, recs, _flag_locals(f), summaries)
        by = {}
        for (line, r, k, lb, txt) in reads:
            key = (line, r, k, txt)
            by[key] = min(by.get(key, CAP), lb)
        for (line, r, k, txt), lb in sorted(by.items()):
            rep.instance(rid)
            total += 1
            ok = lb >= k + 1
            rep.oblige(rid, ok, {'function': f.name, 'line': line, 'read': txt, 'cells_stored_at_least': lb})
            if not ok:
                rep.violation(rid, f, line, 'argvread:%s' % txt,
                              '%s is read on a path on which only %d cell(s) of the freshly allocated argv array have been stored: '
                              'the cell is uninitialised heap memory' % (txt, lb))
    if total == 0:
        raise AnalysisBroken('%s: no constant-index read of a fresh record\'s argv found' % unit)
