"""CU4 — counted-array discipline of the Apache-style tokenizer (qaconf.c).

The per-line callback record owns a heap array `argv` whose first `argc` cells are initialised (cell `argc` is stored, then
`argc` is incremented).  A read of `rec->argv[K]` with a constant K is a read of an initialised cell only if at least K+1
cells were stored on every path from the allocation of `rec` to the read.  Must-analysis: lower bound of the number of
store+increment steps since the record was allocated (join = minimum), path-sensitive on the literal-valued flag locals
that steer the tokenizer loop (so the loop is known to run at least once).
"""
from .frontend import walk, children, strip, strip_parens, AnalysisBroken, qtype
from .expr import canon, access_path, int_value
from .own import propagate, node_events

CAP = 3


def _flag_locals(f):
    """bool/int locals only ever assigned the literals true/false/0/1"""
    vals = {}
    bad = set()
    for x in walk(f.body):
        if x.get('kind') == 'VarDecl':
            from .expr import var_init
            i = var_init(x)
            if i is not None:
                v = int_value(i)
                if isinstance(v, int) and v in (0, 1):
                    vals.setdefault(x.get('name'), set()).add(v)
                else:
                    bad.add(x.get('name'))
        elif x.get('kind') == 'BinaryOperator' and x.get('opcode') == '=':
            l = strip(children(x)[0])
            if l.get('kind') == 'DeclRefExpr':
                v = int_value(children(x)[1])
                nm = (l.get('referencedDecl') or {}).get('name')
                if isinstance(v, int) and v in (0, 1):
                    vals.setdefault(nm, set()).add(v)
                else:
                    bad.add(nm)
        elif x.get('kind') in ('CompoundAssignOperator',) or (x.get('kind') == 'UnaryOperator' and x.get('opcode') in ('++', '--', '&')):
            l = strip(children(x)[0])
            if l.get('kind') == 'DeclRefExpr':
                bad.add((l.get('referencedDecl') or {}).get('name'))
    return {k for k in vals if k not in bad}


def _flag_test(c, flags):
    """(flag, value the flag has on the T edge) for `f`, `!f`, `f == lit`, `f != lit`"""
    c = strip_parens(strip(c)) if c.get('kind') in ('ImplicitCastExpr', 'ParenExpr') else strip_parens(c)
    s = strip(c)
    if s.get('kind') == 'DeclRefExpr':
        nm = (s.get('referencedDecl') or {}).get('name')
        return (nm, 1) if nm in flags else None
    if s.get('kind') == 'UnaryOperator' and s.get('opcode') == '!':
        t = _flag_test(children(s)[0], flags)
        return (t[0], 1 - t[1]) if t else None
    if s.get('kind') == 'BinaryOperator' and s.get('opcode') in ('==', '!='):
        a, b = children(s)
        for x, y in ((a, b), (b, a)):
            sx = strip(x)
            v = int_value(y)
            if sx.get('kind') == 'DeclRefExpr' and isinstance(v, int) and v in (0, 1):
                nm = (sx.get('referencedDecl') or {}).get('name')
                if nm in flags:
                    return (nm, v if s.get('opcode') == '==' else 1 - v)
    return None


def _count_test(c, recs):
    """(record, op, K) for `rec->argc <op> K` (either operand order)"""
    s = strip_parens(c)
    if s.get('kind') != 'BinaryOperator' or s.get('opcode') not in ('==', '!=', '<', '>', '<=', '>='):
        return None
    a, b = children(s)
    flip = {'==': '==', '!=': '!=', '<': '>', '>': '<', '<=': '>=', '>=': '<='}
    for x, y, op in ((a, b, s['opcode']), (b, a, flip[s['opcode']])):
        sx = strip(x)
        K = int_value(y)
        if sx.get('kind') == 'MemberExpr' and sx.get('name') == 'argc' and isinstance(K, int):
            r = access_path(children(sx)[0])
            if r in recs:
                return r, op, K
    return None


def rule_argv_cells(prog, rep, unit='src/extensions/qaconf.c', rid='CU4'):
    rep.rule(rid, 'a cell rec->argv[K] of the per-line record is read only after at least K+1 store-and-count steps on every path '
                  'since the record was allocated (reads of uninitialised heap cells in error paths included)')
    prog.unit(unit)
    total = 0
    for f in sorted(prog.funcs_in(unit), key=lambda x: x.line or 0):
        if f.body is None:
            continue
        # records allocated in this function: locals assigned from malloc/calloc whose type has argc/argv
        recs = set()
        for x in walk(f.body):
            if x.get('kind') == 'BinaryOperator' and x.get('opcode') == '=':
                l = strip(children(x)[0])
                if l.get('kind') == 'DeclRefExpr' and 'cbdata' in (qtype(l) or ''):
                    if any(y.get('kind') == 'CallExpr' and prog.callee_name(y) in ('malloc', 'calloc') for y in walk(children(x)[1])):
                        recs.add((l.get('referencedDecl') or {}).get('name'))
        if not recs:
            continue
        flags = _flag_locals(f)
        reads = []

        def transfer(n, st):
            if not isinstance(n.ast, dict) or n.kind == 'macro':
                return st
            s = dict(st)
            # reads first (evaluation of the node's expressions), then effects
            lhs_ids = set()
            for x in walk(n.ast):
                if x.get('kind') == 'BinaryOperator' and x.get('opcode') == '=':
                    lhs_ids.add(id(strip_parens(children(x)[0])))
            for x in walk(n.ast):
                if x.get('kind') == 'ArraySubscriptExpr' and id(x) not in lhs_ids:
                    b = strip(children(x)[0])
                    if b.get('kind') == 'MemberExpr' and b.get('name') == 'argv':
                        r = access_path(children(b)[0])
                        k = int_value(children(x)[1])
                        if r in recs and isinstance(k, int):
                            reads.append((x.get('_line'), r, k, s.get(('lb', r), 0), canon(x)))
            for ev in node_events(n):
                if ev[0] == 'assign':
                    l = strip(ev[1])
                    if l.get('kind') == 'DeclRefExpr':
                        nm = (l.get('referencedDecl') or {}).get('name')
                        if nm in recs:
                            s[('lb', nm)] = 0
                        if nm in flags:
                            v = int_value(ev[2])
                            s[('flag', nm)] = v
                    elif l.get('kind') == 'MemberExpr' and l.get('name') == 'argc':
                        r = access_path(children(l)[0])
                        if r in recs:
                            s[('lb', r)] = 0
                elif ev[0] == 'decl':
                    nm = ev[1].get('name')
                    if nm in flags and ev[2] is not None:
                        s[('flag', nm)] = int_value(ev[2])
                    if nm in recs:
                        s[('lb', nm)] = 0
                elif ev[0] == 'update':
                    l = strip(ev[1])
                    if l.get('kind') == 'MemberExpr' and l.get('name') == 'argc':
                        r = access_path(children(l)[0])
                        x = ev[2]
                        if r in recs:
                            if x.get('kind') == 'UnaryOperator' and x.get('opcode') == '++':
                                s[('lb', r)] = min(CAP, s.get(('lb', r), 0) + 1)
                            else:
                                s[('lb', r)] = 0
            return frozenset(s.items())

        def branch(n, st, lab):
            if not isinstance(n.ast, dict):
                return st
            ct = _count_test(n.ast, recs)
            if ct:
                s = dict(st)
                c = s.get(('lb', ct[0]), 0)
                op, K = ct[1], ct[2]
                if lab == 'F':
                    op = {'==': '!=', '!=': '==', '<': '>=', '>=': '<', '>': '<=', '<=': '>'}[op]
                if c < CAP:
                    holds = {'==': c == K, '!=': c != K, '<': c < K, '>=': c >= K, '>': c > K, '<=': c <= K}[op]
                    return st if holds else None
                if K < CAP:       # c stands for "CAP or more"
                    holds = {'==': False, '!=': True, '<': False, '>=': True, '>': True, '<=': False}[op]
                    return st if holds else None
                return st
            t = _flag_test(n.ast, flags)
            if not t:
                return st
            s = dict(st)
            val = t[1] if lab == 'T' else 1 - t[1]
            known = s.get(('flag', t[0]))
            if known is not None and known != val:
                return None
            s[('flag', t[0])] = val
            return frozenset(s.items())

        # worklist over (node, flag valuation) partitions; within a partition the bounds are joined by minimum
        cfg = f.cfg

        def split(st):
            d = dict(st)
            # the flag valuation and the (saturating) cell counts form the partition key: nothing is joined
            fl = frozenset((k, v) for k, v in d.items() if k[0] in ('flag', 'lb') and v is not None)
            return fl, {}

        table = {cfg.entry.id: {frozenset(): {}}}
        work = [(cfg.entry, frozenset())]
        steps = 0
        while work:
            n, fl = work.pop()
            steps += 1
            if steps > 200000:
                raise AnalysisBroken('%s: argv-cell analysis does not converge' % f.name)
            lbs = table[n.id][fl]
            st = frozenset(list(fl) + list(lbs.items()))
            out = transfer(n, st)
            for (sx, lab) in n.succs:
                o2 = out
                if lab in ('T', 'F'):
                    o2 = branch(n, out, lab)
                    if o2 is None:
                        continue
                fl2, lb2 = split(o2)
                slot = table.setdefault(sx.id, {})
                old = slot.get(fl2)
                if old is None:
                    slot[fl2] = dict(lb2)
                    work.append((sx, fl2))
                else:
                    changed = False
                    for k in set(old) | set(lb2):
                        m = min(old.get(k, 0), lb2.get(k, 0))
                        if old.get(k) != m:
                            old[k] = m
                            changed = True
                    if changed:
                        work.append((sx, fl2))
        # the transfer function records reads for every state it is applied to: aggregate per read site (minimum bound)
        by = {}
        for (line, r, k, lb, txt) in reads:
            key = (line, r, k, txt)
            by[key] = min(by.get(key, CAP), lb)
        for (line, r, k, txt), lb in sorted(by.items()):
            rep.instance(rid)
            total += 1
            ok = lb >= k + 1
            rep.oblige(rid, ok, {'function': f.name, 'line': line, 'read': txt, 'cells_stored_at_least': lb})
            if not ok:
                rep.violation(rid, f, line, 'argvread:%s' % txt,
                              '%s is read on a path on which only %d cell(s) of the freshly allocated argv array have been stored: '
                              'the cell is uninitialised heap memory' % (txt, lb))
    if total == 0:
        raise AnalysisBroken('%s: no constant-index read of a fresh record\'s argv found' % unit)
