"""C08 rules for the list table (qlisttbl.c)."""
from .frontend import walk, children, strip, strip_parens, qtype
from .expr import canon, access_path, int_value

UNIT = 'src/containers/qlisttbl.c'
NODE = 'qlisttbl_obj_s'


def rule_c08(prog, rep):
    prog.unit(UNIT)
    rep.rule('L1', 'load() returns a count that is incremented inside the loading loop, once per successfully added entry')
    rep.rule('L2', 'the sort exchanges two neighbours only for a strictly positive comparison (equal keys keep their order) and '
                   'exchanges every payload field of the node')
    rep.rule('L3', 'save and load use the inverse codec pair, each under its own flag, and the same separator parameter')
    rep.rule('L4', 'each behaviour option sets its own field in the constructor and each field is read by the operation it governs')
    rep.rule('L5', 'every direction choice maps lookup-forward to first/next and backward to last/prev; insert-at-top links before '
                   'first, otherwise after last')
    # ---- L1
    f = prog.need_func('qlisttbl_load')
    cnt = None
    for r in f.cfg.returns():
        if children(r.ast):
            p = access_path(children(r.ast)[0])
            if p:
                cnt = p
    rep.instance('L1')
    incs = []
    if cnt:
        for (head, loop) in f.cfg.loops:
            for x in walk(loop):
                if (x.get('kind') == 'UnaryOperator' and x.get('opcode') == '++' and access_path(children(x)[0]) == cnt) or \
                        (x.get('kind') == 'CompoundAssignOperator' and x.get('opcode') == '+=' and access_path(children(x)[0]) == cnt):
                    incs.append(x)
    ok = bool(cnt) and bool(incs)
    rep.oblige('L1', ok, {'returned_variable': cnt, 'increments_in_loop': len(incs)})
    if not ok:
        rep.violation('L1', f, f.line, 'count:%s' % cnt, 'qlisttbl_load() returns `%s`, which is never incremented while entries are '
                      'added: the number of loaded entries is not reported' % cnt)
    if incs:
        # the increment is control-dependent on the put succeeding
        rep.instance('L1')
        puts = [x for x in walk(f.body) if x.get('kind') == 'CallExpr' and (prog.callee_name(x) or '').startswith('qlisttbl_put')]
        guarded = False
        for x in walk(f.body):
            if x.get('kind') == 'IfStmt' and any(y is incs[0] for y in walk(children(x)[1])):
                guarded = any(y.get('kind') == 'CallExpr' and (prog.callee_name(y) or '').startswith('qlisttbl_put') for y in walk(children(x)[0]))
        rep.oblige('L1', guarded or not puts, {'increment_guarded_by_put_result': guarded})
        if puts and not guarded:
            rep.violation('L1', f, incs[0].get('_line'), 'count-guard', 'the loaded-entry count is incremented whether or not the entry was added')
    # ---- L2
    f = prog.need_func('qlisttbl_sort')
    swaps = []
    for x in walk(f.body):
        if x.get('kind') == 'IfStmt':
            c = strip_parens(children(x)[0])
            if c.get('kind') == 'BinaryOperator' and any(y.get('kind') == 'CallExpr' and strip(children(y)[0]).get('name') == 'namecmp'
                                                         for y in walk(c)):
                swaps.append((x, c))
    rep.broken_if(not swaps, 'qlisttbl_sort: comparison guarding the exchange not found')
    for (st, c) in swaps:
        rep.instance('L2')
        op = c.get('opcode')
        a, b = children(c)
        va, vb = int_value(a), int_value(b)
        strict = (op == '>' and vb == 0) or (op == '<' and va == 0) or (op == '>=' and vb == 1) or (op == '<=' and va == 1)
        # orientation: namecmp(first, second) > 0 with first the earlier node
        call = [y for y in walk(c) if y.get('kind') == 'CallExpr'][0]
        args = [canon(z) for z in children(call)[1:]]
        rep.oblige('L2', strict, {'swap_condition': canon(c)})
        if not strict:
            rep.violation('L2', f, st.get('_line'), 'swap-cond', 'neighbours are exchanged when %s: equal keys are exchanged too, so the sort '
                          'is not stable' % canon(c))
        # payload completeness
        u = prog.unit(UNIT)
        fields = [fl['name'] for fl in u.record_fields.get(NODE, []) if fl['name'] not in ('prev', 'next')]
        moved = {}
        for y in walk(children(st)[1]):
            if y.get('kind') == 'BinaryOperator' and y.get('opcode') == '=':
                l = strip(children(y)[0])
                if l.get('kind') == 'MemberExpr' and l.get('_field') and l['_field'][0] == NODE:
                    moved.setdefault(canon(children(l)[0]), set()).add(l.get('name'))
        rep.instance('L2')
        okp = len(moved) >= 2 and all(set(fields) <= v for v in moved.values())
        whole = any(y.get('kind') == 'BinaryOperator' and y.get('opcode') == '=' and canon(children(y)[0]).startswith('(*')
                    for y in walk(children(st)[1]))
        rep.oblige('L2', okp or whole, {'payload_fields': fields, 'exchanged': {k: sorted(v) for k, v in moved.items()}})
        if not (okp or whole):
            rep.violation('L2', f, st.get('_line'), 'swap-fields', 'the exchange moves %s but the node payload is %s: an entry ends up with '
                          'another entry\'s %s' % ({k: sorted(v) for k, v in moved.items()}, fields,
                                                   sorted(set(fields) - set.intersection(*moved.values()) if moved else fields)))
    # ---- L3
    fs, fl = prog.need_func('qlisttbl_save'), prog.need_func('qlisttbl_load')

    def closure(fn):
        seen, work = {fn.key: fn}, [fn]
        while work:
            g = work.pop()
            for x in walk(g.body):
                if x.get('kind') == 'CallExpr':
                    for c in prog.callees(g.unit, x):
                        if getattr(c, 'body', None) is not None and c.unit.rel == UNIT and c.key not in seen and c.static:
                            seen[c.key] = c
                            work.append(c)
        return list(seen.values())

    def flag_controlled_codecs(fn, suffix):
        """codec calls (q*<suffix>) in fn and its static helpers that execute exactly when a bool parameter of the function
        containing them is true (flag-aware reachability: unreachable under flag == false, reachable under flag == true)"""
        from .dataflow import ReachingDefs
        out = []
        uncontrolled = []
        for g in closure(fn):
            flags = [p_.get('name') for p_ in g.params if qtype(p_) in ('bool', '_Bool', 'const bool')]
            for n in g.cfg.nodes:
                if not isinstance(n.ast, dict) or n.kind == 'macro':
                    continue
                for y in walk(n.ast):
                    if y.get('kind') == 'CallExpr' and (prog.callee_name(y) or '').startswith('q') and (prog.callee_name(y) or '').endswith(suffix):
                        ctl = False
                        for fl_ in flags:
                            on = ReachingDefs(g, {fl_: True})
                            off = ReachingDefs(g, {fl_: False})
                            if n.id in on.IN and n.id not in off.IN:
                                ctl = True
                        (out if ctl else uncontrolled).append(prog.callee_name(y))
        return out, uncontrolled
    enc, enc_u = flag_controlled_codecs(fs, '_encode')
    dec, dec_u = flag_controlled_codecs(fl, '_decode')
    rep.instance('L3')
    ok = len(set(enc)) == 1 and len(set(dec)) == 1 and enc[0][:-7] == dec[0][:-7] and not enc_u and not dec_u
    rep.oblige('L3', ok, {'save_encoder': enc, 'load_decoder': dec, 'not_flag_controlled': enc_u + dec_u})
    if not ok:
        rep.violation('L3', fl, fl.line, 'codec', 'save encodes with %s and load decodes with %s under their flags (not flag-controlled: %s): '
                      'not an inverse pair under matching flags' % (sorted(set(enc)), sorted(set(dec)), enc_u + dec_u))

    def sep_used(fn, only=None):
        for g in closure(fn):
            seps = [p_.get('name') for p_ in g.params if qtype(p_) in ('char', 'const char')]
            if not seps:
                continue
            for x in walk(g.body):
                if x.get('kind') == 'CallExpr' and (only is None or prog.callee_name(x) == only):
                    if any(access_path(y) == seps[0] for y in children(x)[1:]):
                        if only is not None or not any(getattr(c, 'body', None) is not None and c.unit.rel == UNIT
                                                       for c in prog.callees(g.unit, x)):
                            return True
        return False
    rep.instance('L3')
    used_s = sep_used(fs)                      # reaches an output primitive
    used_l = sep_used(fl, '_q_makeword')       # reaches the splitter
    rep.oblige('L3', used_s and used_l, {'save_uses_separator': used_s, 'load_splits_on_separator': used_l})
    if not (used_s and used_l):
        rep.violation('L3', fl, fl.line, 'separator', 'save and load do not both use their separator parameter')
    # ---- L4
    ctor = prog.need_func('qlisttbl')
    wiring = {}
    for x in walk(ctor.body):
        if x.get('kind') == 'IfStmt':
            c = canon(children(x)[0])
            for y in walk(children(x)[0]):
                if y.get('kind') == 'DeclRefExpr' and (y.get('_ref') or ('',))[0] == 'enum':
                    flag = y['_ref'][1]
                    flds = set()
                    for z in walk(children(x)[1]):
                        if z.get('kind') == 'BinaryOperator' and z.get('opcode') == '=':
                            l = strip(children(z)[0])
                            if l.get('kind') == 'MemberExpr':
                                flds.add(l.get('name'))
                    wiring[flag] = flds
    expected_readers = {'unique': {'qlisttbl_put'}, 'inserttop': {'qlisttbl_put', 'findobj'},
                        'lookupforward': {'findobj', 'qlisttbl_getnext'}, 'namematch': {'findobj', 'qlisttbl_getnext'},
                        'namecmp': {'qlisttbl_sort'}}
    rep.notes['option_wiring'] = {k: sorted(v) for k, v in wiring.items()}
    behaviour = {k: v for k, v in wiring.items() if 'THREADSAFE' not in k}
    seen_fields = []
    for flag, flds in sorted(behaviour.items()):
        rep.instance('L4')
        ok = bool(flds) and not any(fl_ in seen_fields for fl_ in flds if fl_ != 'qmutex')
        rep.oblige('L4', ok, {'option': flag, 'sets': sorted(flds)})
        if not ok:
            rep.violation('L4', ctor, ctor.line, 'option:%s' % flag, 'option %s sets %s (nothing, or a field already owned by another option)'
                          % (flag, sorted(flds)))
        seen_fields += list(flds)
    rep.broken_if(len(behaviour) < 4, 'constructor: fewer than 4 behaviour options found (%s)' % sorted(behaviour))
    for fld, readers in sorted(expected_readers.items()):
        rep.instance('L4')
        actual = set()
        for g in prog.funcs_in(UNIT):
            if g.name == 'qlisttbl':
                continue
            for x in walk(g.body):
                if x.get('kind') == 'MemberExpr' and x.get('name') == fld and (x.get('_field') or ('',))[0] == 'qlisttbl_s':
                    actual.add(g.name)
        # a function also consults the field when a helper it calls does (transitively)
        changed = True
        while changed:
            changed = False
            for g in prog.funcs_in(UNIT):
                if g.name in actual or g.name == 'qlisttbl':
                    continue
                for x in walk(g.body):
                    if x.get('kind') == 'CallExpr':
                        from .frontend import Ext
                        if any((not isinstance(c, Ext)) and c.name in actual for c in prog.callees(g.unit, x)):
                            actual.add(g.name)
                            changed = True
                            break
        ok = readers <= actual
        rep.oblige('L4', ok, {'field': fld, 'read_by': sorted(actual)})
        if not ok:
            rep.violation('L4', ctor, ctor.line, 'field:%s' % fld, 'the option field `%s` is not consulted by %s (read by %s): the option has no '
                          'effect there' % (fld, sorted(readers - actual), sorted(actual)))
    # ---- L5
    for g in sorted(prog.funcs_in(UNIT), key=lambda x: x.line or 0):
        for x in walk(g.body):
            if x.get('kind') == 'ConditionalOperator' and canon(children(x)[0]).endswith('->lookupforward'):
                rep.instance('L5')
                a, b = strip(children(x)[1]), strip(children(x)[2])
                ok = a.get('name') in ('first', 'next') and b.get('name') in ('last', 'prev') and \
                    ((a.get('name') == 'first') == (b.get('name') == 'last'))
                rep.oblige('L5', ok, {'function': g.name, 'choice': canon(x)})
                if not ok:
                    rep.violation('L5', g, x.get('_line'), 'dir:%s' % canon(x)[:40], 'direction choice %s: lookup-forward must select first/next '
                                  'and backward last/prev' % canon(x))
            if x.get('kind') == 'IfStmt' and 'inserttop' in canon(children(x)[0]) and len(children(x)) >= 3:
                rep.instance('L5')
                c = strip_parens(children(x)[0])
                top_on_then = not (c.get('kind') == 'BinaryOperator' and c.get('opcode') == '==' and int_value(children(c)[1]) == 0)
                then_s = ' '.join(canon(y) for y in walk(children(x)[1]) if y.get('kind') == 'BinaryOperator' and y.get('opcode') == '=')
                else_s = ' '.join(canon(y) for y in walk(children(x)[2]) if y.get('kind') == 'BinaryOperator' and y.get('opcode') == '=')
                top_s, bot_s = (then_s, else_s) if top_on_then else (else_s, then_s)
                ok = '->first' in top_s and '->last' not in top_s and '->last' in bot_s and '->first' not in bot_s
                rep.oblige('L5', ok, {'function': g.name, 'top_arm': top_s[:80], 'bottom_arm': bot_s[:80]})
                if not ok:
                    rep.violation('L5', g, x.get('_line'), 'inserttop', 'insert-at-top must link before tbl->first and the default after '
                                  'tbl->last; found top: %s / bottom: %s' % (top_s[:80], bot_s[:80]))
