"""DIM1 - units of measure for sizes: an element count is not a byte offset.

A value obtained by dividing a byte size by an element size (`n / sizeof(T)`, `n / 4`, `n >> 2`) counts ELEMENTS.  Added to a
byte pointer (`unsigned char *p; p + words`, `p += n`), used as a byte subscript base, or passed as the length of a byte
copy, it is off by the element size - unless it was multiplied back (`words * sizeof(T)`).  The rule propagates the
dimension "count of W-byte elements" through copies, +/- with counts or constants, min/conditional selections and loop
bookkeeping, and reports the use of such a value where bytes are expected.  Word-wise fast paths (swap, hash block staging)
are where this goes wrong: the blocks are walked in elements, the tail in bytes.
"""
from .frontend import walk, children, strip, strip_parens, qtype
from .expr import canon, int_value, var_init
from .valgraph import pointee_size, _SIZEOF


def _sizeof_value(e):
    e = strip_parens(strip(e))
    if e.get('kind') == 'UnaryExprOrTypeTraitExpr' and e.get('name') == 'sizeof':
        at = ((e.get('argType') or {}).get('qualType') or '').replace('const ', '').strip()
        if at in _SIZEOF:
            return _SIZEOF[at]
        if children(e):
            at = (qtype(strip_parens(children(e)[0])) or '').replace('const ', '').strip()
            return _SIZEOF.get(at)
        return None
    v = int_value(e)
    return v if isinstance(v, int) else None


def rule_dim1(prog, rep, units, rid='DIM1'):
    rep.rule(rid, 'a count of W-byte elements (a byte size divided by W > 1) is not used as a byte offset or byte length: added to a byte '
                  'pointer, or passed as the length of a byte copy, it must have been multiplied back by the element size')
    for unit in units:
        prog.unit(unit)
        for f in sorted(prog.funcs_in(unit), key=lambda x: x.line or 0):
            if f.body is None:
                continue
            # ---- dimension of variables: name -> W (count of W-byte elements); fixpoint over the definitions (flow-insensitive, all
            # definitions must agree)
            defs = {}
            for x in walk(f.body):
                if x.get('kind') == 'VarDecl' and var_init(x) is not None:
                    defs.setdefault(x.get('name'), []).append(var_init(x))
                elif x.get('kind') == 'BinaryOperator' and x.get('opcode') == '=':
                    l = strip(children(x)[0])
                    if l.get('kind') == 'DeclRefExpr':
                        defs.setdefault(canon(l), []).append(children(x)[1])
                elif x.get('kind') == 'CompoundAssignOperator' and x.get('opcode') in ('+=', '-='):
                    l = strip(children(x)[0])
                    if l.get('kind') == 'DeclRefExpr':
                        defs.setdefault(canon(l), []).append(('self', children(x)[1]))
            dim = {}

            def dim_of(e, depth=0):
                """W if e counts W-byte elements, 0 if it is a plain constant, None if unknown / bytes"""
                e = strip_parens(strip(e))
                k = e.get('kind')
                if isinstance(int_value(e), int):
                    return 0
                if k == 'CStyleCastExpr':
                    return dim_of(children(e)[0], depth)
                if k == 'DeclRefExpr':
                    return dim.get(canon(e))
                if k == 'BinaryOperator':
                    a, b = children(e)
                    op = e.get('opcode')
                    if op == '/':
                        w = _sizeof_value(b)
                        if isinstance(w, int) and w > 1 and dim_of(a, depth) in (None,) and not isinstance(int_value(a), int):
                            return w
                        return None
                    if op == '>>':
                        sh = int_value(b)
                        if isinstance(sh, int) and sh >= 1 and dim_of(a, depth) is None and not isinstance(int_value(a), int) \
                                and 'char' not in (qtype(strip(a)) or '') and 'int8' not in (qtype(strip(a)) or ''):
                            return 1 << sh
                        return None
                    if op in ('+', '-'):
                        da, db = dim_of(a, depth), dim_of(b, depth)
                        if da and db in (da, 0):
                            return da
                        if db and da in (db, 0):
                            return db
                        return None
                    return None
                if k == 'ConditionalOperator':
                    _c, a, b = children(e)
                    da, db = dim_of(a, depth), dim_of(b, depth)
                    if da and db in (da, 0):
                        return da
                    if db and da in (db, 0):
                        return db
                    return None
                return None
            def def_dim(v, d):
                if isinstance(d, tuple):             # v += e / v -= e: keeps v's dimension when e is a count of the same kind or a constant
                    dd = dim_of(d[1])
                    if dd == 0:
                        return dim.get(v, None) or 0
                    return dd
                return dim_of(d)
            # optimistic phase: a variable gets W when some definition says W and none says another W'
            for _ in range(6):
                changed = False
                for v, ds in defs.items():
                    ws = {def_dim(v, d) for d in ds} - {None, 0}
                    if len(ws) == 1:
                        w = next(iter(ws))
                        if dim.get(v) != w:
                            dim[v] = w
                            changed = True
                if not changed:
                    break
            # validation phase: every definition of a dimensioned variable must be a count of the same kind (or a constant)
            while True:
                drop = [v for v in dim if any(def_dim(v, d) not in (dim[v], 0) for d in defs.get(v, ()))]
                if not drop:
                    break
                for v in drop:
                    del dim[v]
            if not dim:
                continue
            # ---- uses where bytes are expected
            for x in walk(f.body):
                k = x.get('kind')
                uses = []
                if k == 'BinaryOperator' and x.get('opcode') in ('+', '-'):
                    a, b = children(x)
                    for (p, o) in ((a, b), (b, a)):
                        sp = strip(p)
                        if (qtype(sp) or '').rstrip().endswith('*') and pointee_size(sp) == 1:
                            uses.append((o, 'added to the byte pointer %s' % canon(sp)[:30]))
                elif k == 'CompoundAssignOperator' and x.get('opcode') in ('+=', '-='):
                    sp = strip(children(x)[0])
                    if (qtype(sp) or '').rstrip().endswith('*') and pointee_size(sp) == 1:
                        uses.append((children(x)[1], 'added to the byte pointer %s' % canon(sp)[:30]))
                elif k == 'CallExpr' and prog.callee_name(x) in ('memcpy', 'memmove', 'memset', 'memcmp') and len(children(x)) >= 4:
                    uses.append((children(x)[3], 'passed as the byte length of %s()' % prog.callee_name(x)))
                for (e, how) in uses:
                    w = dim_of(e)
                    if w and w > 1:
                        rep.instance(rid)
                        rep.oblige(rid, False, {'function': f.name, 'line': x.get('_line'), 'expr': canon(e)[:40]})
                        rep.violation(rid, f, x.get('_line'), 'dim:%s' % canon(e)[:20],
                                      '%s: %s counts %d-byte elements (it comes from a division by the element size) but is %s without being '
                                      'multiplied back: the offset/length is %d times too small' % (f.name, canon(e)[:40], w, how, w))
                    elif uses and w == 0:
                        pass
            # instances: every variable with an element dimension that is used somewhere
            for v, w in sorted(dim.items()):
                rep.instance(rid)
                rep.oblige(rid, True, {'function': f.name, 'element_count': v, 'element_size': w})


def rule_wid1(prog, rep, units, rid='WID1'):
    """Narrow arithmetic widened too late.  `wide += (uint32_t) x << k` (or `* k`) performs the shift in 32 bits and only then
    converts the result to the 64-bit type of the accumulator: the bits shifted out of the 32-bit value are lost before the
    widening.  The rule reports an ImplicitCastExpr (IntegralCast) from a <= 32-bit type to a 64-bit type whose operand is a left
    shift / multiplication of a non-constant 32-bit value - unless the shifted operand is provably small (a byte-typed value or
    a masked value that still fits after the shift)."""
    rep.rule(rid, 'a left shift or multiplication of a 32-bit value is not widened to 64 bits only afterwards (the high bits would be lost '
                  'before the conversion), unless the operand provably fits')
    from .valgraph import width_of
    for unit in units:
        prog.unit(unit)
        for f in sorted(prog.funcs_in(unit), key=lambda x: x.line or 0):
            if f.body is None:
                continue
            for x in walk(f.body):
                if x.get('kind') != 'ImplicitCastExpr' or x.get('castKind') != 'IntegralCast':
                    continue
                if width_of(x) != 64:
                    continue
                inner = x['inner'][0] if x.get('inner') else None
                while inner is not None and inner.get('kind') == 'ParenExpr':
                    inner = inner['inner'][0]
                if inner is None or inner.get('kind') != 'BinaryOperator' or inner.get('opcode') not in ('<<', '*'):
                    continue
                if width_of(inner) > 32:
                    continue
                a, b = children(inner)
                if isinstance(int_value(a), int) and isinstance(int_value(b), int):
                    continue
                rep.instance(rid)
                # operand provably small: byte-typed operand shifted by <= 24, or masked
                ok = False
                sa = a
                while sa.get('kind') in ('ImplicitCastExpr', 'ParenExpr', 'CStyleCastExpr') and sa.get('inner'):
                    t_ = (qtype(sa) or '')
                    sa = sa['inner'][0]
                opw = width_of(sa)
                sh = int_value(b)
                if inner.get('opcode') == '<<' and isinstance(sh, int) and opw + sh <= 31:
                    ok = True
                if inner.get('opcode') == '*' and isinstance(int_value(b), int) and opw <= 16 and int_value(b) < 65536:
                    ok = True
                sa2 = strip_parens(strip(a))
                if sa2.get('kind') == 'BinaryOperator' and sa2.get('opcode') == '&' and inner.get('opcode') == '<<' and isinstance(sh, int):
                    ms = [int_value(c) for c in children(sa2) if isinstance(int_value(c), int)]
                    if ms and (min(ms) << sh) < (1 << 32):
                        ok = True
                rep.oblige(rid, ok, {'function': f.name, 'line': x.get('_line'), 'expr': canon(inner)[:50]})
                if not ok:
                    rep.violation(rid, f, x.get('_line'), 'narrow:%s' % canon(inner)[:24],
                                  '%s: %s is computed in %d bits and only then converted to 64 bits: the bits the %s pushes beyond bit 31 '
                                  'are lost before the widening' % (f.name, canon(inner)[:50], width_of(inner),
                                                                    'shift' if inner.get('opcode') == '<<' else 'multiplication'))


def rule_wid2(prog, rep, units, rid='WID2'):
    """Shift registers.  `v = (v << k) | bit` inside a loop records one k-bit item per iteration in a fixed-width variable; after
    width/k iterations the oldest items fall off the top.  Unless the variable is re-initialised inside the loop (a staging
    word that is flushed) or the loop is bounded by a counter compared with a constant <= width/k, the loop's trip count -
    the depth of a tree, the length of a text - decides whether information is lost."""
    from .valgraph import width_of
    from .looprules import _natural_body
    rep.rule(rid, 'a shift-register accumulation (v = (v << k) | x) in a loop is flushed inside the loop or the loop is bounded by width/k '
                  'iterations: otherwise the oldest bits are shifted out when the input is deep/long enough')
    for unit in units:
        prog.unit(unit)
        for f in sorted(prog.funcs_in(unit), key=lambda x: x.line or 0):
            if f.body is None:
                continue
            cfg = f.cfg
            for (head, stmt) in cfg.loops:
                if head.id not in cfg.reachable:
                    continue
                body = _natural_body(cfg, head, stmt)
                accs = []
                for i in body:
                    m = cfg.nodes[i]
                    if not isinstance(m.ast, dict) or m.kind == 'macro':
                        continue
                    for y in walk(m.ast):
                        v = k = None
                        if y.get('kind') == 'BinaryOperator' and y.get('opcode') == '=':
                            l = strip(children(y)[0])
                            if l.get('kind') != 'DeclRefExpr':
                                continue
                            rot = any(z.get('kind') == 'BinaryOperator' and z.get('opcode') == '>>' and canon(children(z)[0]) == canon(l)
                                      for z in walk(children(y)[1]))          # (v << k) | (v >> (w - k)): a rotation loses nothing
                            for z in walk(children(y)[1]):
                                if not rot and z.get('kind') == 'BinaryOperator' and z.get('opcode') == '<<' and canon(children(z)[0]) == canon(l) \
                                        and isinstance(int_value(children(z)[1]), int):
                                    v, k = l, int_value(children(z)[1])
                        elif y.get('kind') == 'CompoundAssignOperator' and y.get('opcode') == '<<=' and isinstance(int_value(children(y)[1]), int):
                            l = strip(children(y)[0])
                            if l.get('kind') == 'DeclRefExpr':
                                v, k = l, int_value(children(y)[1])
                        if v is not None and k:
                            accs.append((v, k, y))
                for (v, k, y) in accs:
                    nm = canon(v)
                    # flushed inside the loop: any other plain assignment of v in the loop body that does not read v
                    flushed = False
                    for i in body:
                        m = cfg.nodes[i]
                        if not isinstance(m.ast, dict) or m.kind == 'macro':
                            continue
                        for z in walk(m.ast):
                            if z.get('kind') == 'BinaryOperator' and z.get('opcode') == '=' and canon(children(z)[0]) == nm and z is not y \
                                    and nm not in [canon(q) for q in walk(children(z)[1]) if q.get('kind') == 'DeclRefExpr']:
                                flushed = True
                            if z.get('kind') == 'VarDecl' and z.get('name') == nm:
                                flushed = True          # declared inside the loop: a fresh register per iteration
                    if flushed:
                        continue
                    rep.instance(rid)
                    w = width_of(v)
                    limit = w // k
                    bounded = False
                    for i in body:
                        m = cfg.nodes[i]
                        if m.kind == 'cond' and isinstance(m.ast, dict):
                            c = strip_parens(m.ast)
                            if c.get('kind') == 'BinaryOperator' and c.get('opcode') in ('<', '<=', '>', '>=', '!='):
                                vals = [int_value(q) for q in children(c)]
                                vals = [q for q in vals if isinstance(q, int)]
                                if vals and 0 < max(vals) <= limit:
                                    bounded = True
                    rep.oblige(rid, bounded, {'function': f.name, 'register': nm, 'width': w, 'bits_per_iteration': k})
                    if not bounded:
                        rep.violation(rid, f, y.get('_line'), 'shiftreg:%s' % nm,
                                      '%s: %s collects %d bit(s) per iteration of the loop at line %s in a %d-bit variable and is neither flushed '
                                      'inside the loop nor is the loop bounded by %d iterations: beyond that the oldest bits are shifted out '
                                      '(the result depends on how deep / long the input is)' % (f.name, nm, k, head.line, w, limit))


def rule_wid3(prog, rep, units, rid='WID3', quantity=('size',)):
    """A length is not squeezed through a narrower local.  A local variable, parameter or return value of an 8-bit (or 16-bit)
    integer type that receives a wider size value (a size_t / uint16_t expression over a `...size` quantity) silently keeps
    the value modulo 256 (65536): every length with a multiple of that added behaves like a short one.  Accepted only when
    the value was clamped first (`(x < K) ? x : K`, `x & mask`, or a dominating comparison is not attempted here)."""
    from .valgraph import width_of
    rep.rule(rid, 'a size value is not stored into a local / returned through a type narrower than the one it came from, unless clamped or masked')
    for unit in units:
        prog.unit(unit)
        for f in sorted(prog.funcs_in(unit), key=lambda x: x.line or 0):
            if f.body is None:
                continue

            def judge(dst_w, e, line, what):
                e0 = e
                while e0.get('kind') in ('ImplicitCastExpr', 'ParenExpr') and e0.get('inner'):
                    if e0.get('kind') == 'ImplicitCastExpr' and e0.get('castKind') not in ('IntegralCast', 'LValueToRValue', 'NoOp'):
                        break
                    e0 = e0['inner'][0]
                src_w = width_of(e0)
                txt = canon(e0)
                if src_w <= dst_w or not any(q in txt for q in quantity) or isinstance(int_value(e0), int):
                    return
                rep.instance(rid)
                s0 = strip_parens(strip(e0))
                ok = False
                if s0.get('kind') == 'ConditionalOperator':
                    arms = [int_value(c) for c in children(s0)[1:]]
                    if any(isinstance(a, int) and a < (1 << dst_w) for a in arms):
                        ok = True
                if s0.get('kind') == 'BinaryOperator' and s0.get('opcode') in ('&', '%'):
                    ms = [int_value(c) for c in children(s0) if isinstance(int_value(c), int)]
                    if ms and max(ms) <= (1 << dst_w):
                        ok = True
                rep.oblige(rid, ok, {'function': f.name, 'line': line, 'value': txt[:50], 'from_bits': src_w, 'to_bits': dst_w})
                if not ok:
                    rep.violation(rid, f, line, 'narrow:%s' % txt[:24],
                                  '%s: the %d-bit size value %s is %s a %d-bit type: sizes that differ by a multiple of %d become '
                                  'indistinguishable' % (f.name, src_w, txt[:50], what, dst_w, 1 << dst_w))
            for x in walk(f.body):
                if x.get('kind') == 'VarDecl' and var_init(x) is not None:
                    w = width_of(x)
                    if w in (8, 16) and 'char *' not in (qtype(x) or ''):
                        judge(w, var_init(x), x.get('_line'), 'stored into a local of')
                elif x.get('kind') == 'ReturnStmt' and children(x):
                    rt = (f.rettype or '').replace('const ', '').strip()
                    w = {'uint8_t': 8, 'unsigned char': 8, 'uint16_t': 16, 'unsigned short': 16}.get(rt)
                    if w:
                        judge(w, children(x)[0], x.get('_line'), 'returned through')
