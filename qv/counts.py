"""T4: element-count pairing for the node-based containers (tree table, hash table, list table, list).

On every CFG path of every function of the unit:
  * an increment of the container's key/element counter is preceded by the creation of a node on that
    path (or the function links a node it received as a parameter);
  * a node created on the path and still alive at the return (not freed, not returned) is counted;
  * the destruction of a node that was reachable from the container is accompanied by a decrement (or the
    counter is zeroed), unless the function is a helper whose callers do the accounting (then each call
    site counts as a destruction);
  * a decrement is accompanied by a destruction.
"""
import collections
from .frontend import walk, children, strip, strip_parens, qtype, Ext
from .expr import canon, access_path, int_value, is_null
from .own import propagate, node_events, cond_null_test

CONTAINERS = {
    # unit -> (container record, node record, counter fields)
    'src/containers/qtreetbl.c': ('qtreetbl_s', 'qtreetbl_obj_s', ('num',)),
    'src/containers/qhashtbl.c': ('qhashtbl_s', 'qhashtbl_obj_s', ('num',)),
    'src/containers/qlisttbl.c': ('qlisttbl_s', 'qlisttbl_obj_s', ('num',)),
    'src/containers/qlist.c': ('qlist_s', 'qlist_obj_s', ('num', 'datasum')),
}


def _rec(f, e):
    return f.unit.resolve_typedef(qtype(strip_parens(e)))


def rule_t4(prog, rep, om, units=None, rid='T4'):
    rep.rule(rid, 'the element counter moves exactly with node creation and destruction on every path '
                  '(no count change on the replace branch, no uncounted insert/remove)')
    for unit, (crec, nrec, counters) in CONTAINERS.items():
        if units is not None and unit not in units:
            continue
        prog.unit(unit)
        funcs = sorted(prog.funcs_in(unit), key=lambda x: x.line or 0)
        # --- summaries (fixpoint): creators return a fresh node; destroyers free a shared node without accounting;
        #     counters: helpers that inc/dec on behalf of callers
        creators = set()
        for f in funcs:
            r, d = f.unit.resolve_typedef(f.rettype)
            if r == nrec and d == 1 and f.key in om.fresh:
                creators.add(f.name)
        summ = {f.name: {'destroys': False, 'inc': False, 'dec': False, 'zero': False, 'links_param': False} for f in funcs}
        results = {}
        for _round in range(5):
            changed = False
            for f in funcs:
                res = _analyse(prog, om, f, crec, nrec, counters, creators, summ)
                results[f.name] = res
                new = dict(summ[f.name])
                new['destroys'] = res['destroy_unaccounted'] and f.static
                new['inc'] = res['any_inc']
                new['dec'] = res['any_dec']
                new['zero'] = res['any_zero']
                new['links_param'] = res['links_param']
                if new != summ[f.name]:
                    summ[f.name] = new
                    changed = True
            if not changed:
                break
        rep.notes.setdefault('T4_summaries', {})[unit] = {k: v for k, v in summ.items() if any(v.values())}
        rep.notes.setdefault('T4_creators', {})[unit] = sorted(creators)
        for f in funcs:
            res = results[f.name]
            if not res['relevant']:
                continue
            rep.instance(rid)
            bad = list(res['violations'])
            if res['destroy_unaccounted'] and not f.static:
                bad.append((res['destroy_line'], 'destroy', 'a node reachable from the container is freed on a path that neither '
                            'decrements nor zeroes %s.%s' % (crec, counters[0])))
            rep.oblige(rid, not bad, {'function': f.name, 'unit': unit.split('/')[-1],
                                      'events': sorted(k for k in ('any_inc', 'any_dec', 'any_zero') if res[k])})
            for (line, what, msg) in bad[:2]:
                rep.violation(rid, f, line, '%s:%s' % (what, counters[0]), msg)


def _analyse(prog, om, f, crec, nrec, counters, creators, summ):
    viol = []
    info = {'relevant': False, 'violations': viol, 'destroy_unaccounted': False, 'destroy_line': None,
            'any_inc': False, 'any_dec': False, 'any_zero': False, 'links_param': False}
    node_params = [p.get('name') for p in f.params if _rec(f, p) == (nrec, 1)]
    # by-value cursors / public cursor params are not container nodes
    public_cursor = set(node_params) if not f.static else set()

    def counter_write(x):
        """(kind) for ++/--/+=/-=/=0 on a counter field of the container record"""
        k = x.get('kind')
        tgt = None
        kind = None
        if k == 'UnaryOperator' and x.get('opcode') in ('++', '--'):
            tgt, kind = strip(children(x)[0]), 'inc' if x.get('opcode') == '++' else 'dec'
        elif k == 'CompoundAssignOperator' and x.get('opcode') in ('+=', '-='):
            tgt, kind = strip(children(x)[0]), 'inc' if x.get('opcode') == '+=' else 'dec'
        elif k == 'BinaryOperator' and x.get('opcode') == '=':
            tgt = strip(children(x)[0])
            kind = 'zero' if int_value(children(x)[1]) == 0 else 'set'
        elif k == 'CallExpr' and len(children(x)) >= 3 and int_value(children(x)[2]) == 0 and \
                (strip(children(x)[0]).get('referencedDecl') or {}).get('name') in ('memset', '__builtin_memset'):
            # memset(&X->counter, 0, n): a zero fill that starts at the counter field
            d = strip(children(x)[1])
            if d.get('kind') == 'UnaryOperator' and d.get('opcode') == '&':
                tgt, kind = strip(children(d)[0]), 'zero'
        if tgt is not None and tgt.get('kind') == 'MemberExpr' and tgt.get('_field') and \
                tgt['_field'][0] == crec and tgt['_field'][1] == counters[0]:
            return kind
        return None

    def is_fresh_var(st, p):
        return ('C', p) in st or ('Cn', p) in st

    def transfer(n, st):
        if not isinstance(n.ast, dict) or n.kind == 'macro':
            return st
        s = set(st)
        for x in walk(n.ast):
            cw = counter_write(x)
            if cw:
                info['relevant'] = True
                if cw == 'inc':
                    info['any_inc'] = True
                    created = any(y[0] == 'C' for y in s) or ('L',) in s
                    if not created:
                        viol.append((x.get('_line'), 'inc', '%s is incremented on a path on which no node was created '
                                     '(e.g. the replace-existing-key branch): the count drifts from the number of elements'
                                     % canon(children(x)[0])))
                    s.add(('I',))
                elif cw == 'dec':
                    info['any_dec'] = True
                    s.add(('D',))
                elif cw in ('zero',):
                    info['any_zero'] = True
                    s.add(('Z',))
        for ev in node_events(n):
            if ev[0] in ('assign', 'decl'):
                if ev[0] == 'assign':
                    lhs, rhs = ev[1], ev[2]
                    lp = access_path(lhs)
                    is_local = strip(lhs).get('kind') == 'DeclRefExpr'
                else:
                    lp, rhs, is_local = ev[1].get('name'), ev[2], True
                    if rhs is None:
                        continue
                r0 = strip(rhs)
                if is_local and lp:
                    s = {y for y in s if not (y[0] in ('C', 'N') and y[1] == lp)}
                    if is_null(rhs):
                        s.add(('N', lp))
                    if r0.get('kind') == 'CallExpr':
                        nm = prog.callee_name(r0)
                        rt = _rec(f, strip_parens(lhs) if ev[0] == 'assign' else ev[1])
                        if nm in creators or (nm in ('malloc', 'calloc') and rt == (nrec, 1)):
                            s.add(('C', lp))
                            info['relevant'] = True
                elif not is_local:
                    # storing a fresh node into a link = it becomes part of the container
                    rp = access_path(rhs)
                    if rp and (('C', rp) in s):
                        s.add(('L',))
                    if rp in node_params and f.static:
                        s.add(('L',))
                        info['links_param'] = True
            elif ev[0] == 'call':
                call = ev[1]
                nm = prog.callee_name(call)
                args = children(call)[1:]
                if nm == 'free' and args:
                    a = strip(args[0])
                    p = access_path(a)
                    if p and _rec(f, a) == (nrec, 1):
                        info['relevant'] = True
                        if ('C', p) in s:
                            s.discard(('C', p))        # creation rolled back
                        elif p in public_cursor or ('N', p) in s:
                            pass
                        else:
                            s.add(('X', call.get('_line')))
                else:
                    for c in prog.callees(f.unit, call):
                        if isinstance(c, Ext) or c.name not in summ:
                            continue
                        sm = summ[c.name]
                        if sm['destroys']:
                            s.add(('X', call.get('_line')))
                            info['relevant'] = True
                        # a created node handed to a linking helper that counts it (insertobj-style)
                        if sm['inc'] and sm.get('links_param'):
                            for a in args:
                                p = access_path(a)
                                if p and ('C', p) in s:
                                    s.add(('L',))
                                    s.add(('I',))
        if n.kind == 'act' and n.ast.get('kind') == 'ReturnStmt':
            xs = [y for y in s if y[0] == 'X']
            ret = access_path(children(n.ast)[0]) if children(n.ast) else None
            alive = [y for y in s if y[0] == 'C' and y[1] != ret]
            if xs and not (('D',) in s or ('Z',) in s):
                info['destroy_unaccounted'] = True
                info['destroy_line'] = xs[0][1]
            if ('D',) in s and not xs and not ('Z',) in s:
                viol.append((n.line, 'dec', 'the counter is decremented on a path (returning at line %s) on which no node is '
                             'destroyed' % n.line))
            if alive and ('L',) in s and not ('I',) in s:
                viol.append((n.line, 'uncounted', 'a node created and linked on this path (returning at line %s) is not counted'
                             % n.line))
        return frozenset(s)

    def branch(n, st, lab):
        t = cond_null_test(n.ast) if isinstance(n.ast, dict) else None
        if not t:
            return st
        path, null_on_true = t
        if (lab == 'T') == null_on_true and ('C', path) in st:
            return frozenset([y for y in st if y != ('C', path)] + [('N', path)])
        return st

    propagate(f, frozenset(), transfer, branch)
    # dedupe
    seen = set()
    out = []
    for v in viol:
        if (v[1], v[0]) not in seen:
            seen.add((v[1], v[0]))
            out.append(v)
    info['violations'] = out
    return info
