"""C16 — bit laws of the codecs, decided by evaluating the pure arithmetic expressions of the encoders/decoders over their
finite operand domains (bytes 0..255, sextets 0..63, nibbles 0..15).  No codec is run: the expressions are taken from
the AST, their leaves (staging bytes, table look-ups, the current/previous sextet) become free variables, and the
resulting closed forms are tabulated against RFC 4648 / the %hh law.

TB10  Base64 encoder: the four alphabet indexes, as functions of the staged byte triple, are the four 6-bit fields of the
      24-bit group, in order.
TB11  Base64 decoder: in state k (k sextets of the quartet already consumed, k = 1..3) the emitted byte is
      ((previous << 2k) | (current >> (6 - 2k))) & 0xff; state k steps to (k + 1) mod 4; the current sextet becomes the
      previous one on every valid character.
TB12  Hex encoder: the two digit indexes of a byte are (b >> 4, b & 15), high digit first.
TB13  Hex decoder: the emitted byte is 16 * value(first digit) + value(second digit) and the two look-ups read the
      cursor at offsets 0 and 1.
TB14  %hh: the URL encoder's two escape digits are hexadecimal digits of value (c >> 4, c & 15); the shared helper that
      turns two hex digits into a byte returns 16 * hi + lo for every pair of digits in either case.
"""
from .frontend import walk, children, strip, strip_parens, qtype, AnalysisBroken
from .expr import canon, int_value, var_init


class NotEvaluable(Exception):
    pass


def pyexpr(e, leaf):
    """AST expression -> Python expression text over the variables produced by leaf()"""
    nm = leaf(e)
    if nm is not None:
        return nm
    k = e.get('kind')
    if k in ('ParenExpr', 'ImplicitCastExpr', 'ConstantExpr'):
        return pyexpr(children(e)[0], leaf)
    if k == 'CStyleCastExpr':
        t = qtype(e) or ''
        inner = pyexpr(children(e)[0], leaf)
        if t in ('unsigned char', 'uint8_t'):
            return '((%s) & 255)' % inner
        if t in ('char', 'signed char'):
            return '((((%s) + 128) & 255) - 128)' % inner
        return inner
    v = int_value(e)
    if isinstance(v, int):
        return str(v)
    if k == 'BinaryOperator':
        op = e.get('opcode')
        a, b = children(e)
        if op in ('&', '|', '^', '<<', '>>', '+', '-', '*'):
            return '((%s) %s (%s))' % (pyexpr(a, leaf), op, pyexpr(b, leaf))
        if op in ('==', '!=', '<', '>', '<=', '>='):
            return '(1 if (%s) %s (%s) else 0)' % (pyexpr(a, leaf), op, pyexpr(b, leaf))
        if op == '&&':
            return '(1 if ((%s) and (%s)) else 0)' % (pyexpr(a, leaf), pyexpr(b, leaf))
        if op == '||':
            return '(1 if ((%s) or (%s)) else 0)' % (pyexpr(a, leaf), pyexpr(b, leaf))
    if k == 'UnaryOperator' and e.get('opcode') in ('-', '~', '+'):
        return '(%s(%s))' % (e['opcode'], pyexpr(children(e)[0], leaf))
    if k == 'ConditionalOperator':
        c, a, b = children(e)
        return '((%s) if (%s) else (%s))' % (pyexpr(a, leaf), pyexpr(c, leaf), pyexpr(b, leaf))
    if k == 'ArraySubscriptExpr':
        b = strip(children(e)[0])
        nm = (b.get('referencedDecl') or {}).get('name')
        if nm in (_CTX.get('tabs') or {}):
            return '__T[%r][(%s)]' % (nm, pyexpr(children(e)[1], leaf))
    if k == 'CallExpr' and _CTX.get('prog') is not None:
        # a small pure helper of the repository: tabulated by the loop-free interpreter at evaluation time
        prog = _CTX['prog']
        nm = prog.callee_name(e)
        g = prog.resolve_name(_CTX['unit'], nm) if nm else None
        if g is not None and getattr(g, 'body', None) is not None:
            args = ', '.join(pyexpr(a, leaf) for a in children(e)[1:])
            return '__call(%r, [%s])' % (nm, args)
    raise NotEvaluable(canon(e)[:60])


_CTX = {}


def _call(nm, args):
    from .interp import run_function
    prog = _CTX['prog']
    g = prog.resolve_name(_CTX['unit'], nm)
    v = run_function(prog, g, list(args), {})
    if v is None:
        raise NotEvaluable('helper %s cannot be tabulated' % nm)
    return v


class _Tab(list):
    """a constant table: an index outside it is an error of the code under analysis, not Python's from-the-end indexing"""
    def __getitem__(self, i):
        if not isinstance(i, int) or i < 0 or i >= len(self):
            raise IndexError('table index %r outside 0..%d' % (i, len(self) - 1))
        return list.__getitem__(self, i)


def _fn(text, names):
    tabs = {k: _Tab(v) for k, v in (_CTX.get('tabs') or {}).items()}
    return eval('lambda %s: %s' % (', '.join(names), text), {'__builtins__': {}, '__call': _call, '__T': tabs})


def _tables(f):
    from .tables import local_tables
    t = {name: vals for name, (decl, vals) in local_tables(f).items() if len(vals) >= 16}
    for nm, g in f.unit.globals.items():
        i = var_init(g)
        if i is not None and i.get('kind') == 'InitListExpr':
            vals = [int_value(x) for x in children(i)]
            if all(isinstance(v, int) for v in vals):
                t.setdefault(nm, vals)
    return t


def _subscripts_of(f, name):
    out = []
    for x in walk(f.body):
        if x.get('kind') == 'ArraySubscriptExpr':
            b = strip(children(x)[0])
            if b.get('kind') == 'DeclRefExpr' and (b.get('referencedDecl') or {}).get('name') == name:
                out.append(x)
    return out


def _local_defs(f):
    """name -> list of defining expressions (initialiser / plain assignments)"""
    d = {}
    for x in walk(f.body):
        if x.get('kind') == 'VarDecl' and var_init(x) is not None:
            d.setdefault(x.get('name'), []).append(var_init(x))
        elif x.get('kind') == 'BinaryOperator' and x.get('opcode') == '=':
            l = strip(children(x)[0])
            if l.get('kind') == 'DeclRefExpr':
                d.setdefault((l.get('referencedDecl') or {}).get('name'), []).append(children(x)[1])
        elif x.get('kind') in ('CompoundAssignOperator',) or (x.get('kind') == 'UnaryOperator' and x.get('opcode') in ('++', '--')):
            l = strip(children(x)[0])
            if l.get('kind') == 'DeclRefExpr':
                d.setdefault((l.get('referencedDecl') or {}).get('name'), []).append(None)
    return d


def _parents(root):
    par = {}
    stack = [root]
    while stack:
        n = stack.pop()
        for c in children(n):
            par[id(c)] = n
            stack.append(c)
    return par


def rule_b64_encode_law(prog, rep, rid='TB10'):
    rep.rule(rid, 'Base64 encoder: the four alphabet indexes are the four 6-bit fields of the staged 24-bit group, in order '
                  '(index expressions evaluated over all values of the bytes they read)')
    f = prog.need_func('qbase64_encode')
    _CTX.update(prog=prog, unit=f.unit, tabs={})
    tabs = _tables(f)
    alpha = [n for n, v in tabs.items() if len(v) == 64]
    if len(alpha) != 1:
        raise AnalysisBroken('qbase64_encode: alphabet table not found')
    subs = sorted(_subscripts_of(f, alpha[0]), key=lambda x: (x.get('_line') or 0, x.get('_col') or 0))
    if len(subs) != 4:
        return      # another emission form (e.g. one 24-bit accumulator and a loop): not decided
    defs = _local_defs(f)

    def leaf(e):
        s = strip(e)
        if s.get('kind') == 'ArraySubscriptExpr':
            b = strip(children(s)[0])
            k = int_value(children(s)[1])
            if b.get('kind') == 'DeclRefExpr' and isinstance(k, int) and 0 <= k <= 2 and 'char' in (qtype(b) or '') \
                    and (b.get('referencedDecl') or {}).get('name') not in tabs:
                return 'b%d' % k
        if s.get('kind') == 'DeclRefExpr':
            nm = (s.get('referencedDecl') or {}).get('name')
            ds = defs.get(nm, [])
            if len(ds) == 1 and ds[0] is not None and nm not in tabs:
                return '(%s)' % pyexpr(ds[0], leaf)     # inline a single-definition local
        return None
    for j, sub in enumerate(subs):
        try:
            text = pyexpr(children(sub)[1], leaf)
        except NotEvaluable as ex:
            raise AnalysisBroken('qbase64_encode: index expression %s cannot be evaluated (%s)' % (canon(children(sub)[1])[:50], ex))
        names = [n for n in ('b0', 'b1', 'b2') if n in text]
        fn = _fn(text, ['b0', 'b1', 'b2'])
        bad = None
        dom = {n: (range(256) if n in names else (0,)) for n in ('b0', 'b1', 'b2')}
        cnt = 0
        for b0 in dom['b0']:
            for b1 in dom['b1']:
                for b2 in dom['b2']:
                    cnt += 1
                    want = (((b0 << 16) | (b1 << 8) | b2) >> (18 - 6 * j)) & 63
                    # bytes the expression does not read must not matter for this field
                    if fn(b0, b1, b2) != want:
                        bad = bad or (b0, b1, b2, fn(b0, b1, b2), want)
        # the field must also not depend on bytes the expression does not mention
        need = {0: {'b0'}, 1: {'b0', 'b1'}, 2: {'b1', 'b2'}, 3: {'b2'}}[j]
        if not bad and set(names) != need:
            bad = ('reads', sorted(names), 'needs', sorted(need))
        rep.instance(rid, cnt)
        rep.oblige(rid, not bad, {'function': f.name, 'sextet': j, 'index': canon(children(sub)[1])[:70], 'evaluations': cnt})
        if bad:
            rep.violation(rid, f, sub.get('_line'), 'sextet%d' % j,
                          'alphabet index %d (%s) is not bits %d..%d of the 24-bit group: %s' % (
                              j, canon(children(sub)[1])[:60], 23 - 6 * j, 18 - 6 * j, bad))


def rule_b64_decode_law(prog, rep, rid='TB11'):
    rep.rule(rid, 'Base64 decoder: in state k the emitted byte is ((previous << 2k) | (current >> (6-2k))) & 0xff for all sextet '
                  'pairs; the state steps k -> (k+1) mod 4; the current sextet becomes the previous one for every valid character')
    f = prog.need_func('qbase64_decode')
    _CTX.update(prog=prog, unit=f.unit, tabs={})
    tabs = _tables(f)
    par = _parents(f.body)
    defs = _local_defs(f)
    # cur: the local initialised/assigned from the 256-entry map; last: the local assigned from cur
    cur = None
    for nm, ds in defs.items():
        for d in ds:
            if d is not None and any(x.get('kind') == 'ArraySubscriptExpr' and (strip(children(x)[0]).get('referencedDecl') or {}).get('name') in tabs
                                     and len(tabs[(strip(children(x)[0]).get('referencedDecl') or {}).get('name')]) == 256 for x in walk(d)):
                cur = nm
    last = None
    carry = None
    for x in walk(f.body):
        if x.get('kind') == 'BinaryOperator' and x.get('opcode') == '=':
            l, r = strip(children(x)[0]), strip(children(x)[1])
            if l.get('kind') == 'DeclRefExpr' and r.get('kind') == 'DeclRefExpr' and (r.get('referencedDecl') or {}).get('name') == cur:
                last = (l.get('referencedDecl') or {}).get('name')
                carry = x
    if cur is None or last is None:
        return      # another decoder form: not decided
    # state variable: an int local compared with constants and incremented
    state = None
    for nm, ds in defs.items():
        if nm in (cur, last):
            continue
        if any(d is None for d in ds) and any(
                x.get('kind') == 'BinaryOperator' and x.get('opcode') == '==' and (strip(children(x)[0]).get('referencedDecl') or {}).get('name') == nm
                for x in walk(f.body)):
            state = nm
    if state is None:
        return
    stores = []
    for x in walk(f.body):
        if x.get('kind') == 'BinaryOperator' and x.get('opcode') == '=':
            l = strip_parens(children(x)[0])
            if l.get('kind') == 'UnaryOperator' and l.get('opcode') == '*' and any(
                    (y.get('referencedDecl') or {}).get('name') in (cur, last) for y in walk(children(x)[1]) if y.get('kind') == 'DeclRefExpr'):
                stores.append(x)

    def states_of(node):
        """values of the state variable (0..3) consistent with the if/else-if conditions enclosing node"""
        conds = []
        n = node
        while id(n) in par:
            p = par[id(n)]
            if p.get('kind') == 'IfStmt':
                ch = children(p)
                if n is not ch[0]:
                    conds.append((ch[0], n is ch[1]))
            n = p
        ok = []
        for k in range(4):
            good = True
            for (c, pol) in conds:
                try:
                    v = _fn(pyexpr(c, lambda e: 'st' if strip(e).get('kind') == 'DeclRefExpr' and
                                   (strip(e).get('referencedDecl') or {}).get('name') == state else None), ['st'])(k)
                except NotEvaluable:
                    continue
                if bool(v) != pol:
                    good = False
            if good:
                ok.append(k)
        return ok

    def leaf(e):
        s = strip(e)
        if s.get('kind') == 'DeclRefExpr':
            nm = (s.get('referencedDecl') or {}).get('name')
            if nm == cur:
                return 'cur'
            if nm == last:
                return 'last'
        return None
    seen_states = set()
    for st in stores:
        ks = states_of(st)
        if len(ks) != 1:
            raise AnalysisBroken('qbase64_decode: store at line %s is not tied to one state (%s)' % (st.get('_line'), ks))
        k = ks[0]
        seen_states.add(k)
        try:
            fn = _fn(pyexpr(children(st)[1], leaf), ['last', 'cur'])
        except NotEvaluable as ex:
            raise AnalysisBroken('qbase64_decode: emitted expression cannot be evaluated (%s)' % ex)
        bad = None
        for a in range(64):
            for b in range(64):
                got = fn(a, b) & 0xff
                want = ((a << (2 * k)) | (b >> (6 - 2 * k))) & 0xff if k else None
                if got != want:
                    bad = bad or (a, b, got, want)
        rep.instance(rid, 4096)
        rep.oblige(rid, not bad, {'function': f.name, 'state': k, 'emits': canon(children(st)[1])[:60], 'evaluations': 4096})
        if bad:
            rep.violation(rid, f, st.get('_line'), 'state%d' % k,
                          'in state %d the decoder emits %s: for previous=%d current=%d that is 0x%02x, RFC 4648 gives %s' % (
                              k, canon(children(st)[1])[:50], bad[0], bad[1], bad[2], ('0x%02x' % bad[3]) if bad[3] is not None else 'no byte'))
    rep.instance(rid)
    ok = seen_states == {1, 2, 3}
    rep.oblige(rid, ok, {'function': f.name, 'emitting_states': sorted(seen_states)})
    if not ok:
        rep.violation(rid, f, f.line, 'states', 'bytes are emitted in states %s; a quartet yields one byte in each of the states 1, 2, 3' % sorted(seen_states))
    # state step
    for x in walk(f.body):
        upd = None
        if x.get('kind') == 'UnaryOperator' and x.get('opcode') == '++' and (strip(children(x)[0]).get('referencedDecl') or {}).get('name') == state:
            upd = lambda k: k + 1
        elif x.get('kind') == 'BinaryOperator' and x.get('opcode') == '=' and (strip(children(x)[0]).get('referencedDecl') or {}).get('name') == state \
                and isinstance(int_value(children(x)[1]), int) and id(x) in par and par[id(x)].get('kind') != 'DeclStmt':
            c = int_value(children(x)[1])
            upd = lambda k, c=c: c
        if upd is None:
            continue
        ks = states_of(x)
        for k in ks:
            rep.instance(rid)
            ok = upd(k) == (k + 1) % 4
            rep.oblige(rid, ok, {'function': f.name, 'state': k, 'next': upd(k)})
            if not ok:
                rep.violation(rid, f, x.get('_line'), 'step%d' % k, 'state %d steps to %d, expected %d' % (k, upd(k), (k + 1) % 4))
    # carry: `last = cur` is not nested in a conditional inside the loop body
    rep.instance(rid)
    n, nested = carry, False
    while id(n) in par:
        p = par[id(n)]
        if p.get('kind') in ('IfStmt', 'SwitchStmt', 'ConditionalOperator'):
            nested = True
        if p.get('kind') in ('ForStmt', 'WhileStmt', 'DoStmt'):
            break
        n = p
    rep.oblige(rid, not nested, {'function': f.name, 'carry': canon(carry)[:40]})
    if nested:
        rep.violation(rid, f, carry.get('_line'), 'carry', 'the current sextet becomes the previous one only conditionally')


def rule_hex_laws(prog, rep):
    """TB12: the two characters the hex encoder stores for a byte b are the hexadecimal digits of b >> 4 and b & 15, in that
    order (the stored expressions - table look-ups or digit helpers - are tabulated for all 256 bytes).  TB13: the byte the
    hex decoder stores is 16 * value(first char) + value(second char) for every pair of hexadecimal digit characters, and the
    two characters are read at cursor offsets 0 and 1."""
    rep.rule('TB12', 'hex encoder: the two characters stored for a byte are the hex digits of (b >> 4, b & 15), high digit first (all 256 bytes)')
    rep.rule('TB13', 'hex decoder: the stored byte is 16 * value(char at +0) + value(char at +1) for all pairs of hex digit characters')
    f = prog.need_func('qhex_encode')
    tabs = _tables(f)
    _CTX.update(prog=prog, unit=f.unit, tabs={k: v for k, v in tabs.items() if len(v) in (16, 256)})
    stores = [x for x in walk(f.body) if x.get('kind') == 'BinaryOperator' and x.get('opcode') == '='
              and strip_parens(children(x)[0]).get('kind') == 'UnaryOperator' and strip_parens(children(x)[0]).get('opcode') == '*'
              and int_value(children(x)[1]) != 0]
    loops = [x for x in walk(f.body) if x.get('kind') in ('ForStmt', 'WhileStmt')]
    stores = [x for x in stores if any(any(y is x for y in walk(l)) for l in loops)]
    if len(stores) == 2:
        def leaf(e):
            s0 = strip(e)
            if s0.get('kind') == 'ArraySubscriptExpr':
                b = strip(children(s0)[0])
                if (qtype(b) or '').rstrip().endswith('*') and (b.get('referencedDecl') or {}).get('name') not in tabs:
                    return 'b'
            if s0.get('kind') == 'UnaryOperator' and s0.get('opcode') == '*':
                return 'b'
            return None
        for j_, st in enumerate(sorted(stores, key=lambda x: (x.get('_line') or 0, x.get('_col') or 0))):
            try:
                fn = _fn(pyexpr(children(st)[1], leaf), ['b'])
                bad = []
                for b in range(256):
                    ch = fn(b) & 0xff
                    want = (b >> 4) if j_ == 0 else (b & 15)
                    if chr(ch) not in '0123456789abcdef' or int(chr(ch), 16) != want:
                        bad.append(b)
            except NotEvaluable as ex:
                raise AnalysisBroken('qhex_encode: stored digit cannot be evaluated (%s)' % ex)
            rep.instance('TB12', 256)
            rep.oblige('TB12', not bad, {'digit': j_, 'stores': canon(children(st)[1])[:50]})
            if bad:
                rep.violation('TB12', f, st.get('_line'), 'digit%d' % j_, 'hex digit %d of a byte is stored as %s: wrong for byte 0x%02x'
                              % (j_, canon(children(st)[1])[:40], bad[0]))
    f = prog.need_func('qhex_decode')
    tabs = _tables(f)
    _CTX.update(prog=prog, unit=f.unit, tabs={k: v for k, v in tabs.items() if len(v) in (16, 256)})
    from .dataflow import offset_split
    for x in walk(f.body):
        if x.get('kind') != 'BinaryOperator' or x.get('opcode') != '=':
            continue
        l = strip_parens(children(x)[0])
        if l.get('kind') != 'UnaryOperator' or l.get('opcode') != '*' or int_value(children(x)[1]) == 0:
            continue
        # the characters read from the input cursor inside the stored expression
        reads = {}
        for y in walk(children(x)[1]):
            off = None
            if y.get('kind') == 'UnaryOperator' and y.get('opcode') == '*':
                _b, o = offset_split(children(y)[0])
                off = o.as_const()
            elif y.get('kind') == 'ArraySubscriptExpr' and (qtype(strip(children(y)[0])) or '').rstrip().endswith('*') \
                    and (strip(children(y)[0]).get('referencedDecl') or {}).get('name') not in tabs:
                off = int_value(children(y)[1])
            if off is not None:
                reads[id(y)] = off
        if not reads:
            continue
        rep.instance('TB13')
        if sorted(set(reads.values())) != [0, 1]:
            rep.oblige('TB13', False)
            rep.violation('TB13', f, x.get('_line'), 'offsets', 'the decoder reads the cursor at offsets %s for one byte, expected 0 and 1'
                          % sorted(set(reads.values())))
            continue

        def leaf(e):
            s0 = strip(e)
            if id(s0) in reads:
                return 'c%d' % reads[id(s0)]
            if id(e) in reads:
                return 'c%d' % reads[id(e)]
            return None
        try:
            fn = _fn(pyexpr(children(x)[1], leaf), ['c0', 'c1'])
            bad = []
            for a in HEXDIG:
                for b in HEXDIG:
                    if (fn(ord(a), ord(b)) & 0xff) != int(a + b, 16):
                        bad.append(a + b)
        except NotEvaluable as ex:
            raise AnalysisBroken('qhex_decode: stored byte cannot be evaluated (%s)' % ex)
        rep.instance('TB13', len(HEXDIG) ** 2)
        rep.oblige('TB13', not bad, {'stores': canon(children(x)[1])[:70]})
        if bad:
            rep.violation('TB13', f, x.get('_line'), 'byte', 'hex decoder stores %s: wrong for the digit pair "%s"' % (canon(children(x)[1])[:50], bad[0]))


HEXDIG = '0123456789abcdefABCDEF'


def rule_pct_laws(prog, rep, rid='TB14'):
    rep.rule(rid, '%hh: the URL encoder\'s escape digits are hex digits of value (c >> 4, c & 15) for every escaped byte; the '
                  'two-digit helper returns 16*hi + lo for all 484 digit pairs in either case')
    f = prog.need_func('qurl_encode')
    tabs = _tables(f)
    _CTX.update(prog=prog, unit=f.unit, tabs={k: v for k, v in tabs.items() if len(v) in (16, 17)})
    defs = _local_defs(f)
    # the three stores of the escape arm: '%', digit, digit
    esc = None
    for x in walk(f.body):
        if x.get('kind') == 'IfStmt':
            for arm in children(x)[1:]:
                st = [y for y in walk(arm) if y.get('kind') == 'BinaryOperator' and y.get('opcode') == '='
                      and strip_parens(children(y)[0]).get('kind') == 'UnaryOperator' and strip_parens(children(y)[0]).get('opcode') == '*']
                if len(st) == 3 and int_value(children(st[0])[1]) == 37:
                    esc = st
    if esc is not None:
        bytevar = None

        def asbyte(node):
            # plain char is signed on the targets the build covers: a byte >= 0x80 read through it is negative
            t = (qtype(node) or '').replace('const ', '').replace('volatile ', '').strip()
            if t in ('char', 'signed char', 'int8_t'):
                return '(((c + 128) & 255) - 128)'
            return 'c'

        def leaf(e):
            s = strip(e)
            if s.get('kind') == 'DeclRefExpr':
                nm = (s.get('referencedDecl') or {}).get('name')
                ds = defs.get(nm, [])
                if len(ds) == 1 and ds[0] is not None and nm not in tabs:
                    inner = strip(ds[0])
                    if (inner.get('kind') == 'UnaryOperator' and inner.get('opcode') == '*') or \
                            (inner.get('kind') == 'ArraySubscriptExpr' and (qtype(strip(children(inner)[0])) or '').rstrip().endswith('*')):
                        return asbyte(s)                 # the byte read from the input cursor, as the variable's type holds it
                    return '(%s)' % pyexpr(ds[0], leaf)
            if s.get('kind') == 'UnaryOperator' and s.get('opcode') == '*':
                return asbyte(s)
            if s.get('kind') == 'ArraySubscriptExpr':
                b = strip(children(s)[0])
                if (qtype(b) or '').rstrip().endswith('*') and (b.get('referencedDecl') or {}).get('name') not in tabs:
                    return asbyte(s)                     # input[i]
            return None
        for j, st in enumerate(esc[1:]):
            try:
                fn = _fn(pyexpr(children(st)[1], leaf), ['c'])
            except NotEvaluable as ex:
                raise AnalysisBroken('qurl_encode: escape digit cannot be evaluated (%s)' % ex)
            bad = []
            for c in range(256):
                try:
                    ch = fn(c) & 0xff
                except IndexError:
                    bad.append(c)            # the digit table is indexed outside its bounds for this byte
                    continue
                want = (c >> 4) if j == 0 else (c & 15)
                if chr(ch) not in HEXDIG or int(chr(ch), 16) != want:
                    bad.append(c)
            rep.instance(rid, 256)
            rep.oblige(rid, not bad, {'function': f.name, 'digit': j, 'expr': canon(children(st)[1])[:60]})
            if bad:
                rep.violation(rid, f, st.get('_line'), 'pct-digit%d' % j, 'escape digit %d (%s) is not the hex digit of %s for byte 0x%02x'
                              % (j, canon(children(st)[1])[:50], 'c >> 4' if j == 0 else 'c & 15', bad[0]))
    # the decoder's helper
    g = prog.func('_q_x2c')
    if g is not None and g.body is not None:
        from .interp import run_function
        bad = []
        n = 0
        for a in HEXDIG:
            for b in HEXDIG:
                n += 1
                v = run_function(prog, g, [ord(a), ord(b)], {})
                if v is None:
                    raise AnalysisBroken('_q_x2c cannot be tabulated')
                if (v & 0xff) != int(a + b, 16):
                    bad.append((a + b, v & 0xff))
        rep.instance(rid, n)
        rep.oblige(rid, not bad, {'function': g.name, 'pairs': n})
        if bad:
            rep.violation(rid, g, g.line, 'x2c', 'the two-digit helper returns 0x%02x for "%s"' % (bad[0][1], bad[0][0]))


# ---------------------------------------------------------------------------------------------------------
# One decoder step, tabulated: the loop body of an in-place decoder is interpreted (statement level, no loops inside) for a
# concrete window of input bytes under the read cursor; the bytes stored through the write cursor and the cursor advance
# are the result.  Used for the URL decoder law (TB7).

class _Stop(Exception):
    pass


def step_eval(prog, f, body, rd, wr, window):
    """returns (emitted bytes, read-cursor advance inside the body) or None if the body is outside the fragment"""
    from .interp import run_function
    env = {}
    out = []
    adv = [0]
    rd_alias = {rd: 0}          # names that denote the read cursor (+ offset): the cursor itself, helper parameters bound to it
    wr_alias = {wr}

    class _Return(Exception):
        def __init__(self, v):
            self.v = v

    def rd_byte(off):
        k = adv[0] + off
        if 0 <= k < len(window):
            return window[k]
        return 0

    def as_char(v, e):
        t = qtype(e) or ''
        if t in ('char', 'signed char', 'const char'):
            v &= 0xff
            return v - 256 if v >= 128 else v
        if t in ('unsigned char', 'uint8_t'):
            return v & 0xff
        return v

    def cursor_off(e):
        """offset k if e designates (rd + k), else None"""
        s = strip(e)
        if s.get('kind') == 'DeclRefExpr' and (s.get('referencedDecl') or {}).get('name') in rd_alias:
            return rd_alias[(s.get('referencedDecl') or {}).get('name')]
        if s.get('kind') == 'BinaryOperator' and s.get('opcode') in ('+', '-'):
            a, b = children(s)
            ka, kb = cursor_off(a), int_value(b)
            if ka is not None and isinstance(kb, int):
                return ka + kb if s['opcode'] == '+' else ka - kb
            kb2, ka2 = cursor_off(b), int_value(a)
            if kb2 is not None and isinstance(ka2, int) and s['opcode'] == '+':
                return kb2 + ka2
        return None

    def ev(e):
        s = strip(e)
        k = s.get('kind')
        v = int_value(s)
        if isinstance(v, int):
            return v
        if k == 'DeclRefExpr':
            nm = (s.get('referencedDecl') or {}).get('name')
            if nm in env:
                return env[nm]
            raise _Stop('unbound ' + str(nm))
        if k == 'UnaryOperator':
            op = s.get('opcode')
            c = children(s)[0]
            if op == '*':
                ci = strip(c)
                if ci.get('kind') == 'UnaryOperator' and ci.get('opcode') in ('++', '--') and \
                        (strip(children(ci)[0]).get('referencedDecl') or {}).get('name') == rd:
                    step = 1 if ci['opcode'] == '++' else -1
                    if ci.get('isPostfix'):
                        v_ = as_char(rd_byte(0), s)
                        adv[0] += step
                    else:
                        adv[0] += step
                        v_ = as_char(rd_byte(0), s)
                    return v_
                off = cursor_off(c)
                if off is None:
                    raise _Stop('deref')
                return as_char(rd_byte(off), s)
            if op == '!':
                return int(not ev(c))
            if op == '-':
                return -ev(c)
            if op == '~':
                return ~ev(c)
            if op in ('++', '--'):
                nm = (strip(c).get('referencedDecl') or {}).get('name')
                if nm == rd:
                    adv[0] += 1 if op == '++' else -1
                    return 0
                if nm in wr_alias:
                    return 0
                if nm in env:
                    old = env[nm]
                    env[nm] = old + (1 if op == '++' else -1)
                    return old if s.get('isPostfix') else env[nm]
            raise _Stop('unary ' + str(op))
        if k == 'ArraySubscriptExpr':
            off = cursor_off(children(s)[0])
            idx = ev(children(s)[1])
            if off is None:
                raise _Stop('subscript')
            return as_char(rd_byte(off + idx), s)
        if k == 'BinaryOperator':
            op = s.get('opcode')
            a, b = children(s)
            if op == '=':
                return assign(a, ev(b), s)
            if op == '&&':
                return int(bool(ev(a)) and bool(ev(b)))
            if op == '||':
                return int(bool(ev(a)) or bool(ev(b)))
            if op == ',':
                ev(a)
                return ev(b)
            x, y = ev(a), ev(b)
            if op in ('<<', '>>') and not (0 <= y < 64):
                raise _Stop('shift by %s' % y)
            import operator as _op
            fn = {'+': _op.add, '-': _op.sub, '*': _op.mul, '&': _op.and_, '|': _op.or_, '^': _op.xor, '<<': _op.lshift, '>>': _op.rshift,
                  '==': lambda p_, q_: int(p_ == q_), '!=': lambda p_, q_: int(p_ != q_), '<': lambda p_, q_: int(p_ < q_),
                  '>': lambda p_, q_: int(p_ > q_), '<=': lambda p_, q_: int(p_ <= q_), '>=': lambda p_, q_: int(p_ >= q_)}[op]
            return fn(x, y)
        if k == 'CompoundAssignOperator':
            a, b = children(s)
            nm = (strip(a).get('referencedDecl') or {}).get('name')
            if nm == rd and s.get('opcode') in ('+=', '-='):
                adv[0] += ev(b) if s['opcode'] == '+=' else -ev(b)
                return 0
            if nm in env:
                x, y = env[nm], ev(b)
                env[nm] = {'+=': x + y, '-=': x - y, '|=': x | y, '&=': x & y, '^=': x ^ y}[s.get('opcode')]
                return env[nm]
            raise _Stop('compound')
        if k == 'ConditionalOperator':
            c, a, b = children(s)
            return ev(a) if ev(c) else ev(b)
        if k == 'CallExpr':
            nm = prog.callee_name(s)
            g = prog.resolve_name(f.unit, nm) if nm else None
            if g is not None and getattr(g, 'body', None) is not None:
                args = children(s)[1:]
                cursor_args = [a for a in args if cursor_off(a) is not None or
                               (strip(a).get('kind') == 'DeclRefExpr' and (strip(a).get('referencedDecl') or {}).get('name') in wr_alias)]
                if not cursor_args:
                    r = run_function(prog, g, [ev(a) for a in args], {})
                    if r is None:
                        raise _Stop('helper ' + nm)
                    return r
                # a helper that works on the cursors: interpreted in place, its parameters bound to the cursors
                saved_env, saved_rd, saved_wr = dict(env), dict(rd_alias), set(wr_alias)
                try:
                    for p_, a in zip(g.params, args):
                        pn = p_.get('name')
                        off = cursor_off(a)
                        an = (strip(a).get('referencedDecl') or {}).get('name') if strip(a).get('kind') == 'DeclRefExpr' else None
                        if off is not None:
                            rd_alias[pn] = off
                        elif an in wr_alias:
                            wr_alias.add(pn)
                        else:
                            env[pn] = ev(a)
                    try:
                        run(g.body)
                        r = 0
                    except _Return as rr:
                        r = rr.v
                finally:
                    for k_ in list(env):
                        if k_ not in saved_env:
                            del env[k_]
                    env.update(saved_env)
                    rd_alias.clear(); rd_alias.update(saved_rd)
                    wr_alias.clear(); wr_alias.update(saved_wr)
                return r
            raise _Stop('call ' + str(nm))
        if k == 'CStyleCastExpr':
            return as_char(ev(children(s)[0]), s)
        raise _Stop(str(k))

    def assign(lhs, val, node):
        l = strip_parens(lhs)
        if l.get('kind') == 'UnaryOperator' and l.get('opcode') == '*':
            tgt = strip_parens(children(l)[0])
            # *wr++ = v  /  *wr = v
            inner = strip(tgt)
            nm = None
            if inner.get('kind') == 'UnaryOperator' and inner.get('opcode') == '++':
                nm = (strip(children(inner)[0]).get('referencedDecl') or {}).get('name')
            elif inner.get('kind') == 'DeclRefExpr':
                nm = (inner.get('referencedDecl') or {}).get('name')
            if nm in wr_alias:
                out.append(val & 0xff)
                return val
            raise _Stop('store')
        if l.get('kind') == 'DeclRefExpr':
            nm = (l.get('referencedDecl') or {}).get('name')
            env[nm] = as_char(val, l)
            return env[nm]
        raise _Stop('assign')

    class _Break(Exception):
        pass

    class _Continue(Exception):
        pass

    def run(st):
        k = st.get('kind')
        if k == 'CompoundStmt':
            for c in children(st):
                run(c)
        elif k == 'DeclStmt':
            for d in children(st):
                if d.get('kind') == 'VarDecl':
                    i = var_init(d)
                    env[d.get('name')] = as_char(ev(i), d) if i is not None else 0
        elif k == 'IfStmt':
            ch = children(st)
            if ev(ch[0]):
                run(ch[1])
            elif len(ch) > 2:
                run(ch[2])
        elif k == 'SwitchStmt':
            ch = children(st)
            v = ev(ch[0])
            body = ch[-1]
            items = children(body)
            start = None
            for i, it in enumerate(items):
                if it.get('kind') == 'CaseStmt' and int_value(children(it)[0]) == v:
                    start = i
                    break
            if start is None:
                for i, it in enumerate(items):
                    if it.get('kind') == 'DefaultStmt':
                        start = i
            if start is None:
                return
            try:
                for it in items[start:]:
                    cur = it
                    while cur.get('kind') in ('CaseStmt', 'DefaultStmt'):
                        cur = children(cur)[-1]
                    run(cur)
            except _Break:
                pass
        elif k == 'BreakStmt':
            raise _Break()
        elif k == 'ContinueStmt':
            raise _Continue()
        elif k == 'NullStmt':
            pass
        elif k == 'ReturnStmt':
            raise _Return(ev(children(st)[0]) if children(st) else 0)
        elif k in ('ForStmt', 'WhileStmt', 'DoStmt', 'GotoStmt'):
            raise _Stop(k)
        else:
            ev(st)
    try:
        try:
            run(body)
        except (_Continue, _Break):
            pass
    except (_Stop, _Return, KeyError, TypeError):
        return None
    return out, adv[0]


def rule_url_decode_law(prog, rep, rid='TB7'):
    """URL decoder, one step: for every byte c and a hex pair h1 h2 following it, the loop body emits ' ' for '+', the byte
    16*hi + lo for "%h1h2" (and nothing else - a decoded '+' stays '+'), and c itself otherwise; it consumes 3 bytes for a
    complete escape and 1 otherwise (the loop header adds the common +1)."""
    rep.rule(rid, 'URL decoder step law, tabulated for all 255 bytes x 4 hex pairs: \'+\' -> space, %hh -> 16*hi+lo (not mapped '
                  'again), every other byte unchanged; a complete escape consumes 3 bytes')
    f = prog.need_func('qurl_decode')
    loops = [x for x in walk(f.body) if x.get('kind') in ('ForStmt', 'WhileStmt')]
    if not loops:
        return False
    loop = loops[0]
    body = children(loop)[-1]
    inner = loop.get('inner') or []
    cond = inner[2] if loop['kind'] == 'ForStmt' and len(inner) >= 5 else children(loop)[0]
    rdv = None
    for y in walk(cond):
        if y.get('kind') == 'UnaryOperator' and y.get('opcode') == '*':
            rdv = (strip(children(y)[0]).get('referencedDecl') or {}).get('name')
    wrv = None
    for y in walk(body):
        if y.get('kind') == 'BinaryOperator' and y.get('opcode') == '=':
            l = strip_parens(children(y)[0])
            if l.get('kind') == 'UnaryOperator' and l.get('opcode') == '*':
                for z in walk(l):
                    if z.get('kind') == 'DeclRefExpr' and (z.get('referencedDecl') or {}).get('name') != rdv:
                        wrv = (z.get('referencedDecl') or {}).get('name')
    if rdv is None or wrv is None:
        return False
    # does the loop header advance the read cursor by one?
    hdr = 1 if loop['kind'] == 'ForStmt' and len(inner) >= 5 and inner[3] and any(
        y.get('kind') == 'UnaryOperator' and y.get('opcode') == '++' for y in walk(inner[3])) else 0
    bad = []
    n = 0
    for (h1, h2) in (('2', 'b'), ('4', '1'), ('f', 'F'), ('2', '0')):
        for c in range(1, 256):
            r = step_eval(prog, f, body, rdv, wrv, [c, ord(h1), ord(h2), 0])
            if r is None:
                return False            # the body is outside the interpretable fragment: not decided here
            n += 1
            emitted, adv = r
            adv += hdr
            if c == 43:
                want, wadv = [32], 1
            elif c == 37:
                want, wadv = [int(h1 + h2, 16)], 3
            else:
                want, wadv = [c], 1
            if emitted != want or adv != wadv:
                bad.append((c, h1 + h2, emitted, adv, want, wadv))
    rep.instance(rid, n)
    rep.oblige(rid, not bad, {'function': f.name, 'steps_tabulated': n})
    if bad:
        c, hh, em, adv, want, wadv = bad[0]
        rep.violation(rid, f, loop.get('_line'), 'step:0x%02x' % c,
                      'for input byte 0x%02x followed by "%s" the decoder step emits %s and consumes %d byte(s); the URL law gives %s and %d '
                      '(%d of %d tabulated steps differ)' % (c, hh, ['0x%02x' % b for b in em], adv, ['0x%02x' % b for b in want], wadv, len(bad), n))
    return True


def rule_codec_framing(prog, rep):
    """TB15: an encoder that shrinks its output buffer keeps the terminator: realloc(base, n) after the terminator was stored at
    *P requires n - (P - base) to fold to a constant >= 1.  TB16: an in-place decoder returns the distance between its write
    cursor and the start of the buffer (the number of decoded bytes) - not a string function of the output, which stops at
    the first decoded NUL byte."""
    from .dataflow import ReachingDefs, poly_of
    rep.rule('TB15', 'an encoder that shrinks its output keeps the terminator: the new size exceeds the write-cursor distance by >= 1')
    rep.rule('TB16', 'the in-place decoders return write cursor - buffer start (the decoded length), not a string function of the output')
    for name in ('qurl_encode', 'qbase64_encode', 'qhex_encode'):
        f = prog.func(name)
        if f is None or f.body is None:
            continue
        rd = None
        for n in f.cfg.nodes:
            if not isinstance(n.ast, dict) or n.kind == 'macro':
                continue
            for x in walk(n.ast):
                if x.get('kind') == 'CallExpr' and prog.callee_name(x) == 'realloc' and len(children(x)) >= 3:
                    rd = rd or ReachingDefs(f)
                    base = canon(children(x)[1])
                    size = poly_of(children(x)[2], rd, n.id)
                    # write cursors: locals P with a terminator store *P = 0
                    curs = set()
                    for y in walk(f.body):
                        if y.get('kind') == 'BinaryOperator' and y.get('opcode') == '=' and int_value(children(y)[1]) == 0:
                            l = strip_parens(children(y)[0])
                            if l.get('kind') == 'UnaryOperator' and l.get('opcode') == '*' and strip(children(l)[0]).get('kind') == 'DeclRefExpr':
                                curs.add(canon(children(l)[0]))
                    rep.instance('TB15')
                    ok = None
                    for c in curs:
                        from .dataflow import Poly
                        d = (size - (Poly.atom(c) - Poly.atom(base))).as_const()
                        if d is not None:
                            ok = d >= 1
                    if ok is None:
                        ok = True      # a size not expressed through the write cursor: not decided by this rule
                    rep.oblige('TB15', ok, {'function': name, 'realloc': canon(x)[:70]})
                    if not ok:
                        rep.violation('TB15', f, x.get('_line'), 'shrink:%s' % base, '%s shrinks the output to the write-cursor distance: the '
                                      'terminator stored at the cursor is cut off' % canon(x)[:60])
    for name in ('qurl_decode', 'qbase64_decode', 'qhex_decode'):
        f = prog.func(name)
        if f is None or f.body is None:
            continue
        wr = set()
        for y in walk(f.body):
            if y.get('kind') == 'BinaryOperator' and y.get('opcode') == '=':
                l = strip_parens(children(y)[0])
                if l.get('kind') == 'UnaryOperator' and l.get('opcode') == '*':
                    for z in walk(l):
                        if z.get('kind') == 'DeclRefExpr':
                            wr.add((z.get('referencedDecl') or {}).get('name'))
        base = f.params[0].get('name') if f.params else None
        for r in f.cfg.returns():
            if not children(r.ast):
                continue
            e = strip(children(r.ast)[0])
            if int_value(e) == 0:
                continue            # refusal of a NULL argument
            rep.instance('TB16')
            calls = [prog.callee_name(y) for y in walk(e) if y.get('kind') == 'CallExpr']
            names = {(y.get('referencedDecl') or {}).get('name') for y in walk(e) if y.get('kind') == 'DeclRefExpr'}
            ok = not calls and (bool(names & wr) or bool(names - {base}))
            rep.oblige('TB16', ok, {'function': name, 'returns': canon(e)[:50]})
            if not ok:
                rep.violation('TB16', f, r.line, 'return:%s' % canon(e)[:30], '%s returns %s: a string function of the output stops at the '
                              'first decoded NUL byte, so binary payloads are reported shorter than they are' % (name, canon(e)[:40]))


def rule_codec_purity(prog, rep, rid='TB17', unit='src/utilities/qencode.c', what='codecs'):
    """The codec functions keep no mutable static state: no variable with static storage (function-static or file-scope,
    not const) is written by them.  A lazily built table guarded by an unsynchronised flag makes the first concurrent calls
    decode with a half-built table."""
    rep.rule(rid, 'the %s keep no mutable static state (no write to a non-const static or file-scope variable, directly or by handing '
                  'it to a callee as a writable buffer): they are functions of their input only, also when called from several threads '
                  'at once' % what)
    u = prog.unit(unit)
    for f in sorted(prog.funcs_in(unit), key=lambda x: x.line or 0):
        if f.body is None:
            continue
        def const_obj(t):
            # the object itself is const: `const T x`, `const T x[N]`, `T *const p` - not `const T *p` (a mutable pointer)
            t = (t or '').strip()
            if '*' in t:
                return t[t.rfind('*') + 1:].strip().startswith('const')
            return 'const' in t
        statics = {x.get('name') for x in walk(f.body) if x.get('kind') == 'VarDecl' and x.get('storageClass') == 'static'
                   and not const_obj(qtype(x))}
        globs = {nm for nm, g in u.globals.items() if not const_obj(qtype(g))}
        bad = []
        for x in walk(f.body):
            tgt = None
            if x.get('kind') in ('BinaryOperator', 'CompoundAssignOperator') and (x.get('opcode') or '').endswith('=') \
                    and x.get('opcode') not in ('==', '!=', '<=', '>='):
                tgt = children(x)[0]
            elif x.get('kind') == 'UnaryOperator' and x.get('opcode') in ('++', '--'):
                tgt = children(x)[0]
            elif x.get('kind') == 'CallExpr' and prog.callee_name(x) in ('memset', 'memcpy', 'memmove', 'strcpy') and len(children(x)) > 1:
                tgt = children(x)[1]
            if tgt is None and x.get('kind') == 'CallExpr':
                # a static array handed to a callee through a parameter that is not pointer-to-const (read(fd, buf, n), ...)
                callee_t = (qtype(strip(children(x)[0])) or '')
                ptypes = []
                m_ = callee_t[callee_t.find('(') + 1:callee_t.rfind(')')] if '(' in callee_t else ''
                depth_, cur_ = 0, ''
                for ch_ in m_:
                    if ch_ == ',' and depth_ == 0:
                        ptypes.append(cur_.strip())
                        cur_ = ''
                    else:
                        depth_ += ch_ in '(['
                        depth_ -= ch_ in ')]'
                        cur_ += ch_
                if cur_.strip():
                    ptypes.append(cur_.strip())
                for k_, a_ in enumerate(children(x)[1:]):
                    sa_ = strip(a_)
                    if sa_.get('kind') == 'DeclRefExpr' and (sa_.get('referencedDecl') or {}).get('name') in (statics | globs):
                        pt_ = ptypes[k_] if k_ < len(ptypes) else ''
                        if not pt_.startswith('const ') and (pt_.endswith('*') or pt_ == '' or pt_ == '...'):
                            bad.append((x.get('_line'), (sa_.get('referencedDecl') or {}).get('name')))
                continue
            if tgt is None:
                continue
            for y in walk(tgt):
                if y.get('kind') == 'DeclRefExpr' and (y.get('referencedDecl') or {}).get('name') in (statics | globs):
                    bad.append((x.get('_line'), (y.get('referencedDecl') or {}).get('name')))
        rep.instance(rid)
        rep.oblige(rid, not bad, {'function': f.name})
        for (line, nm) in sorted(set(bad))[:2]:
            rep.violation(rid, f, line, 'static-write:%s' % nm, '%s writes the static variable %s: hidden state shared between calls (and between threads) - '
                          'the result no longer depends on the input alone' % (f.name, nm))


def rule_query_pairs_stored(prog, rep, rid='TB18'):
    """Every pair the query parser splits off is handed to the table: no path from the second split (the name) to the next
    pair or to the return bypasses the put."""
    rep.rule(rid, 'the query parser stores every pair it splits off: no path from the name/value split to the next pair bypasses the put')
    f = prog.need_func('qparse_queries')
    if not any(x.get('kind') == 'CallExpr' and prog.callee_name(x) == '_q_makeword' for x in walk(f.body)):
        for x in walk(f.body):
            if x.get('kind') == 'CallExpr':
                for g in prog.callees(f.unit, x):
                    if getattr(g, 'body', None) is not None and g.static and any(
                            y.get('kind') == 'CallExpr' and prog.callee_name(y) == '_q_makeword' for y in walk(g.body)):
                        f = g
    cfg = f.cfg
    splits = [n for n in cfg.nodes if isinstance(n.ast, dict) and n.kind != 'macro' and any(
        x.get('kind') == 'CallExpr' and prog.callee_name(x) == '_q_makeword' for x in walk(n.ast))]
    def is_put(n):
        if not isinstance(n.ast, dict) or n.kind == 'macro':
            return False
        for x in walk(n.ast):
            if x.get('kind') == 'CallExpr':
                c = strip(children(x)[0])
                if c.get('kind') == 'MemberExpr' and (c.get('name') or '').startswith('put'):
                    return True
                if (prog.callee_name(x) or '').startswith('qlisttbl_put'):
                    return True
        return False
    if len(splits) < 2 or not any(is_put(n) for n in cfg.nodes):
        return
    last = max(splits, key=lambda n: (n.line or 0, n.id))
    # loop heads of loops that contain the split, and the exit
    stops = {cfg.exit.id}
    for (head, loop) in cfg.loops:
        if any(x is y for x in walk(loop) for y in [last.ast]) or any(id(x) == id(last.ast) for x in walk(loop)):
            stops.add(head.id)
    seen, work, bad = set(), [s_ for (s_, _l) in last.succs], None
    if is_put(last):
        work = []
    while work:
        n = work.pop()
        if n.id in seen:
            continue
        seen.add(n.id)
        if is_put(n):
            continue
        if n.id in stops:
            bad = n
            break
        for (s_, _l) in n.succs:
            work.append(s_)
    rep.instance(rid)
    rep.oblige(rid, bad is None, {'function': f.name, 'split_line': last.line})
    if bad is not None:
        rep.violation(rid, f, last.line, 'pair-dropped', '%s can go on to the next pair (or return) after splitting a pair off without '
                      'handing it to the table: pairs are silently dropped, the count is short and later pairs shift up' % f.name)
