"""IDX: every element-address computation `X->data + E * X->objsize` in qvector.c happens with
0 <= E (<|<=) X->num established on all paths (must-facts from dominating comparisons, with the
signed/unsigned domain of each comparison taken from the type-checked AST, plus definition-based
bounds for loop variables).  Serves C10 (index discipline) and C11 (no access outside the buffer)."""
import re
from .frontend import walk, children, strip, strip_parens, qtype, dtype
from .expr import canon, access_path, int_value
from .dataflow import ReachingDefs, node_defs

UNIT = 'src/containers/qvector.c'
FLIP = {'<': '>', '>': '<', '<=': '>=', '>=': '<=', '==': '==', '!=': '!='}
NEG = {'<': '>=', '>': '<=', '<=': '>', '>=': '<', '==': '!=', '!=': '=='}


def _is_unsigned(t):
    t = t or ''
    return 'unsigned' in t or t in ('size_t', 'uint32_t', 'uint64_t', 'uint8_t', 'uint16_t')


def _cmp_domain(e):
    """'u' if the comparison is carried out in an unsigned type (after the usual arithmetic conversions)."""
    a, b = e['inner'][0], e['inner'][1]
    ta = (a.get('type') or {}).get('desugaredQualType') or qtype(a)
    tb = (b.get('type') or {}).get('desugaredQualType') or qtype(b)
    return 'u' if (_is_unsigned(ta) and _is_unsigned(tb)) else 's'


def _tokens(s):
    # identifiers that stand for variables: member names (after -> or .) are not variables
    return set(re.findall(r'[A-Za-z_][A-Za-z_0-9]*', re.sub(r'(->|\.)\s*[A-Za-z_][A-Za-z_0-9]*', '', s)))


_FACTS_PROG = {}
_IMPORT_STACK = []


def _outparam_import(f, cond, lab):
    """`if (check(v, &i) == false) return ...;` - facts the validating helper guarantees about *param at its success returns,
    renamed to the caller's variable (the helper's other parameters mapped to the actual arguments)."""
    prog = _FACTS_PROG.get('prog')
    if prog is None:
        return set()
    c = strip_parens(cond)
    truth = lab == 'T'
    while c.get('kind') == 'UnaryOperator' and c.get('opcode') == '!':
        truth = not truth
        c = strip_parens(children(c)[0])
    call = None
    if c.get('kind') == 'BinaryOperator' and c.get('opcode') in ('==', '!='):
        a, b = children(c)
        for (x, o) in ((a, b), (b, a)):
            if strip(x).get('kind') == 'CallExpr' and int_value(o) == 0:
                call = strip(x)
                truth = truth if c['opcode'] == '!=' else (not truth)
    elif c.get('kind') == 'CallExpr':
        call = c
    if call is None or not truth:
        return set()
    nm = prog.callee_name(call)
    h = prog.resolve_name(f.unit, nm) if nm else None
    if h is None or getattr(h, 'body', None) is None or not h.static or h.name in _IMPORT_STACK or len(_IMPORT_STACK) > 2:
        return set()
    args = children(call)[1:]
    outs = {}
    amap = {}
    for p_, a in zip(h.params, args):
        sa = strip(a)
        if sa.get('kind') == 'UnaryOperator' and sa.get('opcode') == '&' and strip(children(sa)[0]).get('kind') == 'DeclRefExpr':
            outs['(*%s)' % p_.get('name')] = canon(children(sa)[0])
        else:
            amap[p_.get('name')] = canon(a)
    # by-value parameters the helper never assigns stand for the caller's actuals throughout: a fact the helper's success
    # returns guarantee about such a parameter (`index < vector->num` in `bool check_index(v, index)`) holds for the actual
    written = set()
    for y in walk(h.body):
        if y.get('kind') in ('BinaryOperator', 'CompoundAssignOperator') and (y.get('opcode') or '').endswith('=') and \
                y.get('opcode') not in ('==', '!=', '<=', '>='):
            l = strip(children(y)[0])
            if l.get('kind') == 'DeclRefExpr':
                written.add(canon(l))
        elif y.get('kind') == 'UnaryOperator' and y.get('opcode') in ('++', '--', '&'):
            l = strip(children(y)[0])
            if l.get('kind') == 'DeclRefExpr':
                written.add(canon(l))
    vparams = {pn for pn, av in amap.items() if pn not in written and re.match(r'^[A-Za-z_]\w*$', av or '')
               and not (qtype(next(p_ for p_ in h.params if p_.get('name') == pn)) or '').rstrip().endswith('*')}
    if not outs and not vparams:
        return set()
    _IMPORT_STACK.append(h.name)
    try:
        hf = Facts(h)
    finally:
        _IMPORT_STACK.pop()
    common = None
    for r in h.cfg.returns():
        if not children(r.ast):
            continue
        v = int_value(children(r.ast)[0])
        if v == 0:
            continue
        if not isinstance(v, int):
            return set()                 # a computed result: success is not a syntactic fact
        common = set(hf.at(r)) if common is None else (common & set(hf.at(r)))
    out = set()

    def rename(t):
        if t in outs:
            return outs[t]
        if re.match(r'^-?\d+$', t):
            return t
        m = re.match(r'^([A-Za-z_]\w*)((?:->\w+)+)$', t)
        if m and m.group(1) in amap:
            return amap[m.group(1)] + m.group(2)
        if t in amap:
            return amap[t]
        return None
    for (a, op, b, dom) in (common or ()):
        if a in outs or b in outs or a in vparams or b in vparams:
            ra, rb = rename(a), rename(b)
            if ra is not None and rb is not None:
                out.add((ra, op, rb, dom))
    return out


class Facts:
    """Must-facts (lhs, rel, rhs, domain) valid at the entry of each CFG node."""

    def __init__(self, f):
        self.f = f
        cfg = f.cfg
        names = {}
        for x in walk(f.decl):
            if x.get('kind') in ('VarDecl', 'ParmVarDecl'):
                names[x.get('id')] = x.get('name')
        self.IN = {cfg.entry.id: frozenset()}
        work = [cfg.entry]
        while work:
            n = work.pop()
            st = set(self.IN[n.id])
            killed = {names.get(d[0]) for d in node_defs(n)} - {None}
            # stores through members kill facts about that path
            if isinstance(n.ast, dict) and n.kind != 'macro':
                for x in walk(n.ast):
                    if x.get('kind') in ('BinaryOperator', 'CompoundAssignOperator') and (x.get('opcode') or '').endswith('=') \
                            and x.get('opcode') not in ('==', '!=', '<=', '>='):
                        p = access_path(children(x)[0])
                        if p and '->' in p:
                            st = {ft for ft in st if p not in (ft[0], ft[2])}
                        l0 = strip(children(x)[0])
                        if l0.get('kind') == 'UnaryOperator' and l0.get('opcode') == '*':
                            cp = canon(l0)              # *out = ... : facts about the pointee die
                            st = {ft for ft in st if cp not in ft[0] and cp not in ft[2]}
                    elif x.get('kind') == 'UnaryOperator' and x.get('opcode') in ('++', '--'):
                        p = access_path(children(x)[0])
                        if p and '->' in p:
                            st = {ft for ft in st if p not in (ft[0], ft[2])}
            if killed:
                st = {ft for ft in st if not (killed & (_tokens(ft[0]) | _tokens(ft[2])))}
            # definitional facts  v := A - B  (used to turn `v > 0` into `B < A`)
            for (var, rhs, kind, _l) in node_defs(n):
                nm = names.get(var)
                if nm and kind in ('init', 'assign') and rhs is not None:
                    r0 = strip(rhs)
                    if r0.get('kind') == 'BinaryOperator' and r0.get('opcode') == '-':
                        A, B = canon(children(r0)[0]), canon(children(r0)[1])
                        if nm not in _tokens(A) | _tokens(B):
                            st.add((nm, ':=', '%s\x00%s' % (A, B), 'u'))
            for (s, lab) in n.succs:
                st2 = set(st)
                if n.kind == 'cond' and lab in ('T', 'F') and isinstance(n.ast, dict):
                    c = strip_parens(n.ast)
                    if c.get('kind') == 'BinaryOperator' and c.get('opcode') in FLIP:
                        a, b = children(c)
                        op = c.get('opcode') if lab == 'T' else NEG[c.get('opcode')]
                        dom = _cmp_domain(c)
                        ca, cb = canon(a), canon(b)
                        st2.add((ca, op, cb, dom))
                        st2.add((cb, FLIP[op], ca, dom))
                        # v > 0 / v != 0 / v >= 1 with v := A - B  =>  B < A
                        if (op in ('>', '!=') and cb == '0') or (op == '>=' and cb == '1'):
                            for ft in st:
                                if ft[0] == ca and ft[1] == ':=':
                                    A, B = ft[2].split('\x00')
                                    st2.add((B, '<', A, 'u'))
                                    st2.add((A, '>', B, 'u'))
                if n.kind == 'cond' and lab in ('T', 'F') and isinstance(n.ast, dict):
                    st2 |= _outparam_import(f, n.ast, lab)
                    # the out-parameter itself was rewritten by the call: older facts about it are gone
                old = self.IN.get(s.id)
                new = frozenset(st2) if old is None else (old & frozenset(st2))
                if old is None or new != old:
                    self.IN[s.id] = new
                    work.append(s)

    def at(self, node):
        return self.IN.get(node.id, frozenset())


def _split_index(e):
    """E -> (canon of variable part, constant offset) for V, V + c, V - c; else (canon(E), 0)."""
    s = strip(e)
    if s.get('kind') == 'BinaryOperator' and s.get('opcode') in ('+', '-'):
        a, b = children(s)
        c = int_value(b)
        if c is not None and not isinstance(c, str):
            v, c0 = _split_index(a)
            return v, c0 + (c if s.get('opcode') == '+' else -c)
        c = int_value(a)
        if c is not None and not isinstance(c, str) and s.get('opcode') == '+':
            v, c0 = _split_index(b)
            return v, c0 + c
    return canon(s), 0


def rule_idx(prog, rep, rid='IDX'):
    _FACTS_PROG['prog'] = prog
    rep.rule(rid, 'every element address X->data + E*X->objsize is computed with 0 <= E and E bounded by X->num on all paths')
    prog.unit(UNIT)

    def addr_pattern(x):
        """X->data + E * X->objsize  ->  (E, base variable) or None"""
        if x.get('kind') == 'BinaryOperator' and x.get('opcode') == '+':
            a, b = children(x)
            base = strip(a)
            if base.get('kind') == 'MemberExpr' and base.get('name') == 'data' and (base.get('_field') or ('',))[0] == 'qvector_s':
                m = strip(b)
                if m.get('kind') == 'BinaryOperator' and m.get('opcode') == '*':
                    l, r = children(m)
                    if canon(l).endswith('->objsize'):
                        return r, access_path(children(base)[0])
                    if canon(r).endswith('->objsize'):
                        return l, access_path(children(base)[0])
        return None
    # address helpers: static functions that return the address pattern of one of their parameters
    helpers = {}
    for f in prog.funcs_in(UNIT):
        if not f.static:
            continue
        rets = [r for r in f.cfg.returns() if children(r.ast)]
        if len(rets) != 1:
            continue
        hit = None
        for x in walk(children(rets[0].ast)[0]):
            ap = addr_pattern(x)
            if ap:
                hit = ap
        if hit:
            e = strip(hit[0])
            if e.get('kind') == 'DeclRefExpr' and (e.get('_ref') or ('',))[0] == 'param':
                pi = f.param_index(e['_ref'][2])
                vi = f.param_index(hit[1]) if hit[1] else -1
                if pi >= 0 and vi >= 0:
                    helpers[f.name] = (vi, pi)
    rep.notes['element_address_helpers'] = sorted(helpers)
    for f in sorted(prog.funcs_in(UNIT), key=lambda x: x.line or 0):
        if f.name in helpers:
            continue
        sites = []
        for n in f.cfg.nodes:
            if n.id not in f.cfg.reachable or not isinstance(n.ast, dict) or n.kind == 'macro':
                continue
            for x in walk(n.ast):
                if x.get('kind') == 'CallExpr' and prog.callee_name(x) in helpers:
                    vi, pi = helpers[prog.callee_name(x)]
                    args = children(x)[1:]
                    if pi < len(args) and vi < len(args):
                        sites.append((n, x, args[pi], access_path(args[vi])))
                if x.get('kind') == 'BinaryOperator' and x.get('opcode') == '+':
                    a, b = children(x)
                    base = strip(a)
                    if base.get('kind') == 'MemberExpr' and base.get('name') == 'data' and (base.get('_field') or ('',))[0] == 'qvector_s':
                        m = strip(b)
                        if m.get('kind') == 'BinaryOperator' and m.get('opcode') == '*':
                            l, r = children(m)
                            if canon(l).endswith('->objsize'):
                                sites.append((n, x, r, access_path(children(base)[0])))
                            elif canon(r).endswith('->objsize'):
                                sites.append((n, x, l, access_path(children(base)[0])))
        if not sites:
            continue
        facts = Facts(f)
        rd = ReachingDefs(f)
        inserts = any(x.get('kind') == 'UnaryOperator' and x.get('opcode') == '++' and canon(children(x)[0]).endswith('->num')
                      for x in walk(f.body))

        def defs_of(v):
            out = []
            for d in rd.defs:
                nm = None
                for x in walk(f.decl):
                    if x.get('kind') in ('VarDecl', 'ParmVarDecl') and x.get('id') == d.var:
                        nm = x.get('name')
                        break
                if nm == v:
                    out.append(d)
            return out

        def nonneg_by_def(v, depth=0):
            ds = defs_of(v)
            if not ds or depth > 2:
                return False
            for d in ds:
                if d.kind == 'uninit':
                    continue
                if d.kind == 'param':
                    # unsigned parameter
                    p = [p for p in f.params if p.get('name') == v]
                    if p and _is_unsigned((p[0].get('type') or {}).get('desugaredQualType') or qtype(p[0])):
                        continue
                    return False
                if d.kind == 'update':
                    x = d.rhs
                    if x.get('kind') == 'UnaryOperator' and x.get('opcode') == '++':
                        continue
                    return False
                if d.rhs is None:
                    return False
                c = int_value(d.rhs)
                if c is not None and not isinstance(c, str) and c >= 0:
                    continue
                e = strip_parens(d.rhs)
                t = (e.get('type') or {}).get('desugaredQualType') or qtype(e)
                inner = strip(d.rhs)
                if inner.get('kind') == 'MemberExpr' and _is_unsigned((inner.get('type') or {}).get('desugaredQualType') or qtype(inner)):
                    continue
                return False
            return True

        def upper_by_def(v, N):
            """every definition is N, N - c (c >= 0) or a decrement"""
            ds = defs_of(v)
            if not ds:
                return None
            best = 0
            for d in ds:
                if d.kind == 'uninit':
                    continue
                if d.kind == 'update':
                    x = d.rhs
                    if x.get('kind') == 'UnaryOperator' and x.get('opcode') == '--':
                        continue
                    return None
                if d.rhs is None:
                    return None
                vv, c = _split_index(d.rhs)
                if vv == N and c <= 0:
                    best = min(best, c) if best else c
                    continue
                return None
            return best

        def lower_bound(st, v, depth=0):
            """largest provable constant L with v >= L, or None"""
            best = None

            def upd(x):
                nonlocal best
                if x is not None and (best is None or x > best):
                    best = x
            if re.match(r'^-?\d+$', v):
                return int(v)
            if nonneg_by_def(v):
                upd(0)
            if v.endswith('->num') or v.endswith('->max') or v.endswith('->objsize'):
                upd(0)
            for (a, op, b, dom) in st:
                if a != v:
                    continue
                if dom == 'u' and op in ('<', '<='):
                    upd(0)                 # compared below an unsigned quantity in unsigned arithmetic
                if depth < 2:
                    lb = lower_bound(st, b, depth + 1) if not re.match(r'^-?\d+$', b) else int(b)
                    if lb is not None:
                        if op == '>=':
                            upd(lb)
                        elif op == '>':
                            upd(lb + 1)
                        elif op == '==':
                            upd(lb)
            return best

        def upper_rel(st, v, N, aliases):
            """'<' if v < N proven, '<=' if v <= N, else None"""
            res = None
            for (a, op, b, dom) in st:
                if a == v and (b == N or b in aliases):
                    if op == '<':
                        return '<'
                    if op in ('<=', '=='):
                        res = res or '<='
            ub = upper_by_def(v, N)
            if ub is not None:
                return '<' if ub < 0 else (res or '<=')
            # transitively: v < w (or v <= w) with w bounded by its definitions
            for (a, op, b, dom) in st:
                if a == v and op in ('<', '<=') and re.match(r'^[A-Za-z_]\w*$', b):
                    ub = upper_by_def(b, N)
                    if ub is not None:
                        if op == '<' or ub < 0:
                            return '<'
                        res = res or '<='
            return res

        for (n, x, idx, basevar) in sites:
            rep.instance(rid)
            st = facts.at(n)
            N = '%s->num' % basevar
            aliases = set()
            for d in rd.defs:
                if d.rhs is not None and d.kind in ('init', 'assign') and canon(d.rhs) == N:
                    for y in walk(f.decl):
                        if y.get('kind') == 'VarDecl' and y.get('id') == d.var:
                            aliases.add(y.get('name'))
            v, c = _split_index(idx)
            lb = lower_bound(st, v)
            low_ok = lb is not None and lb + c >= 0
            ur = upper_rel(st, v, N, aliases)
            if c > 0:
                up_ok = (ur == '<' and c <= 1) or False
            elif inserts or c < 0:
                up_ok = ur in ('<', '<=')
            else:
                up_ok = ur == '<'
            ok = low_ok and up_ok
            rep.oblige(rid, ok, {'function': f.name, 'line': x.get('_line'), 'index': canon(idx), 'lower_bound': lb,
                                 'upper_relation_to_num': ur})
            if not ok:
                why = []
                if not low_ok:
                    why.append('no path-independent proof that %s >= 0 (a negative value that survives the normalisation '
                               'addresses memory before the buffer)' % canon(idx))
                if not up_ok:
                    why.append('no proof that %s %s %s' % (canon(idx), '<=' if (inserts or c != 0) else '<', N))
                rep.violation(rid, f, x.get('_line'), 'addr:%s' % canon(idx),
                              'element address %s: %s' % (canon(x)[:70], '; '.join(why)))


def rule_vcount(prog, rep, rid='VC'):
    """Vector element count: ++ only next to the element store of an insertion, -- exactly once after each
    successful shift-down (remove_at), = 0 / clamp only in clear/resize/constructor."""
    from .own import propagate, node_events
    rep.rule(rid, 'vector->num changes exactly with an element insertion (store at the insertion index) or a successful removal shift')
    prog.unit(UNIT)
    for f in sorted(prog.funcs_in(UNIT), key=lambda x: x.line or 0):
        has = any((x.get('kind') == 'CallExpr' and prog.callee_name(x) == 'remove_at') or
                  (x.get('kind') == 'UnaryOperator' and x.get('opcode') in ('++', '--') and canon(children(x)[0]).endswith('->num'))
                  for x in walk(f.body))
        if not has or f.name == 'remove_at':
            continue
        rep.instance(rid)
        bad = []

        def transfer(n, st):
            s = set(st)
            if not isinstance(n.ast, dict) or n.kind == 'macro':
                return st
            for ev in node_events(n):
                if ev[0] in ('decl', 'assign'):
                    rhs = ev[2]
                    if rhs is not None and strip(rhs).get('kind') == 'CallExpr' and prog.callee_name(strip(rhs)) == 'remove_at':
                        v = ev[1].get('name') if ev[0] == 'decl' else access_path(ev[1])
                        s.add(('R', v))
                elif ev[0] == 'call':
                    nm = prog.callee_name(ev[1])
                    if nm == 'remove_at' and not any(y[0] == 'R' for y in s):
                        s.add(('R', None))
                    if nm in ('memcpy', 'memmove') and len(children(ev[1])) > 2:
                        # the element store of an insertion: destination derived from ->data
                        if '->data' in canon(children(ev[1])[1]) or any(
                                y.get('kind') == 'DeclRefExpr' for y in walk(children(ev[1])[1])):
                            s.add(('S',))
            for x in walk(n.ast):
                if x.get('kind') == 'UnaryOperator' and x.get('opcode') in ('++', '--') and canon(children(x)[0]).endswith('->num'):
                    if x.get('opcode') == '--':
                        if not any(y[0] == 'R' for y in s):
                            bad.append((x.get('_line'), 'num-- on a path without a preceding remove_at()'))
                        elif ('OK',) not in s:
                            bad.append((x.get('_line'), 'num-- without the remove_at() result having been tested: a refused removal is counted'))
                        elif ('D',) in s:
                            bad.append((x.get('_line'), 'num-- twice for one removal'))
                        s.add(('D',))
                    else:
                        if ('S',) not in s:
                            bad.append((x.get('_line'), 'num++ on a path that stored no element'))
                        s.add(('I',))
            if n.kind == 'act' and n.ast.get('kind') == 'ReturnStmt':
                if any(y[0] == 'R' for y in s) and ('D',) not in s and ('F',) not in s:
                    bad.append((n.line, 'a successful remove_at() is not followed by num-- before the return at line %s' % n.line))
            return frozenset(s)

        def branch(n, st, lab):
            # the branch on which the remove_at() result is false
            if not isinstance(n.ast, dict):
                return st
            c = strip_parens(n.ast)
            var = None
            truth = None
            if c.get('kind') == 'BinaryOperator' and c.get('opcode') in ('==', '!='):
                a, b = children(c)
                v = int_value(b)
                if v is not None and not isinstance(v, str) and access_path(a):
                    var = access_path(a)
                    truth = (v != 0) if c.get('opcode') == '==' else (v == 0)   # value of var on the T edge
            elif access_path(c):
                var, truth = access_path(c), True
            # the call itself as the condition: `if (remove_at(v, i) == true)`, `if (!remove_at(v, i))`
            dc, dtruth = c, True
            while dc.get('kind') == 'UnaryOperator' and dc.get('opcode') == '!':
                dtruth = not dtruth
                dc = strip_parens(children(dc)[0])
            if dc.get('kind') == 'BinaryOperator' and dc.get('opcode') in ('==', '!='):
                a, b = children(dc)
                for (x_, o_) in ((a, b), (b, a)):
                    v = int_value(o_)
                    if strip(x_).get('kind') == 'CallExpr' and isinstance(v, int):
                        dtruth = dtruth == ((v != 0) if dc.get('opcode') == '==' else (v == 0))
                        dc = strip(x_)
                        break
            dc = strip(dc)
            if dc.get('kind') == 'CallExpr' and prog.callee_name(dc) == 'remove_at' and ('R', None) in st:
                val_on_edge = dtruth if lab == 'T' else (not dtruth)
                if not val_on_edge:
                    return frozenset(set(st) | {('F',)})
                return frozenset(set(st) | {('OK',)})
            if var and ('R', var) in st:
                val_on_edge = truth if lab == 'T' else (not truth)
                if not val_on_edge:
                    return frozenset(set(st) | {('F',)})
                return frozenset(set(st) | {('OK',)})
            return st

        propagate(f, frozenset(), transfer, branch)
        seen = set()
        bad2 = [b for b in bad if not (b in seen or seen.add(b))]
        rep.oblige(rid, not bad2, {'function': f.name})
        for (line, msg) in bad2[:2]:
            rep.violation(rid, f, line, 'num:%s' % msg.split()[0], '%s: %s' % (f.name, msg))


def rule_helper_index(prog, rep, rid='V2'):
    """The index-normalising helpers (static functions that add X->num to a negative `index`) must receive
    the caller's index untouched, a constant, or a value proven non-negative: normalising twice turns an
    out-of-range negative index into a valid one."""
    rep.rule(rid, 'the index handed to an index-normalising helper is the caller\'s unmodified parameter, a constant, or proven >= 0')
    prog.unit(UNIT)
    helpers = {}
    byref = set()
    for f in prog.funcs_in(UNIT):
        for i, p in enumerate(f.params):
            if p.get('name') and qtype(p) == 'int':
                nm = p.get('name')
                norm = any(x.get('kind') == 'CompoundAssignOperator' and x.get('opcode') == '+=' and access_path(children(x)[0]) == nm
                           and canon(children(x)[1]).endswith('->num') for x in walk(f.body))
                if norm and f.static:
                    helpers[f.name] = i
            elif p.get('name') and (qtype(p) or '').replace(' ', '') == 'int*':
                # by reference: `*index += X->num`
                nm = p.get('name')
                norm = any(x.get('kind') == 'CompoundAssignOperator' and x.get('opcode') == '+=' and canon(children(x)[0]) == '(*%s)' % nm
                           and canon(children(x)[1]).endswith('->num') for x in walk(f.body))
                if norm and f.static:
                    helpers[f.name] = i
                    byref.add(f.name)
    rep.notes['index_normalising_helpers'] = sorted(helpers)
    rep.broken_if(not helpers, 'no index-normalising helper found in qvector.c')
    for f in sorted(prog.funcs_in(UNIT), key=lambda x: x.line or 0):
        rd = None
        facts = None
        for n in f.cfg.nodes:
            if n.id not in f.cfg.reachable or not isinstance(n.ast, dict) or n.kind == 'macro':
                continue
            for x in walk(n.ast):
                if x.get('kind') == 'CallExpr' and prog.callee_name(x) in helpers:
                    i = helpers[prog.callee_name(x)]
                    args = children(x)[1:]
                    if i >= len(args):
                        continue
                    a = strip(args[i])
                    if prog.callee_name(x) in byref and a.get('kind') == 'UnaryOperator' and a.get('opcode') == '&':
                        a = strip(children(a)[0])
                    rep.instance(rid)
                    ok = False
                    why = ''
                    c = int_value(a)
                    if c is not None and not isinstance(c, str):
                        ok, why = True, 'constant %d' % c
                    elif a.get('kind') == 'DeclRefExpr' and (a.get('_ref') or ('',))[0] == 'param':
                        if rd is None:
                            rd = ReachingDefs(f)
                        ds = rd.reaching(n.id, a['_ref'][1])
                        if all(d.kind == 'param' for d in ds):
                            ok, why = True, 'unmodified parameter'
                        else:
                            if facts is None:
                                facts = Facts(f)
                            st = facts.at(n)
                            nonneg = any(ft[0] == a['_ref'][2] and ((ft[1] in ('>=', '>') and re.match(r'^\d+$', ft[2])) or
                                                                     (ft[3] == 'u' and ft[1] in ('<', '<='))) for ft in st)
                            ok, why = nonneg, 'parameter modified before the call (line(s) %s)%s' % (
                                sorted({d.line for d in ds if d.kind != 'param'}), ' but proven non-negative' if nonneg else '')
                    else:
                        why = 'computed expression %s' % canon(a)[:40]
                        if facts is None:
                            facts = Facts(f)
                    rep.oblige(rid, ok, {'function': f.name, 'call': canon(x)[:50], 'index_argument': why})
                    if not ok:
                        rep.violation(rid, f, x.get('_line'), 'idxarg:%s' % prog.callee_name(x),
                                      '%s() normalises a negative index itself, but %s passes it an index that is a %s: a '
                                      'back-relative index is resolved twice, so an out-of-range negative index is accepted' % (
                                          prog.callee_name(x), f.name, why))


def rule_growth(prog, rep, rid='G1'):
    """Automatic growth strictly increases the capacity: every value that can reach resize(newmax) in the
    `num >= max` branch exceeds max, for every max >= 0 (policy arithmetic evaluated over max = 0..64,
    initnum = 1..8)."""
    from .expr import eval_int
    rep.rule(rid, 'in the growth branch the new capacity passed to resize() is greater than the old one for every capacity >= 0')
    prog.unit(UNIT)
    for f in sorted(prog.funcs_in(UNIT), key=lambda x: x.line or 0):
        rd = None
        for n in f.cfg.nodes:
            if n.id not in f.cfg.reachable or not isinstance(n.ast, dict) or n.kind == 'macro':
                continue
            for x in walk(n.ast):
                if x.get('kind') != 'CallExpr':
                    continue
                c0 = strip(children(x)[0])
                nm = c0.get('name') if c0.get('kind') == 'MemberExpr' else prog.callee_name(x)
                if nm not in ('resize', 'qvector_resize') or f.name == 'qvector_resize':
                    continue
                args = children(x)[1:]
                if len(args) < 2:
                    continue
                a = strip(args[1])
                if rd is None:
                    rd = ReachingDefs(f)
                exprs = []
                if a.get('kind') == 'DeclRefExpr' and (a.get('_ref') or ('',))[0] == 'local':
                    for d in rd.reaching(n.id, a['_ref'][1]):
                        if d.rhs is not None and d.kind in ('init', 'assign'):
                            exprs.append(d.rhs)
                else:
                    exprs.append(a)
                for e in exprs:
                    rep.instance(rid)
                    bad = None
                    base = canon(children(c0)[0]) if c0.get('kind') == 'MemberExpr' else 'vector'
                    se = strip(e)
                    helper = None
                    if se.get('kind') == 'CallExpr':
                        cands = [g for g in prog.callees(f.unit, se) if getattr(g, 'body', None) is not None]
                        if len(cands) == 1 and len(children(se)) == 2:
                            helper = cands[0]
                    if helper is not None:
                        # the growth policy lives in a helper: tabulated over capacity x initial size x option bits
                        from .interp import run_function
                        pn = helper.params[0].get('name')
                        for mx in range(0, 65):
                            for ini in (1, 2, 8):
                                for opt in range(0, 16):
                                    v = run_function(prog, helper, [None], {}, extra_env={
                                        pn + '->max': mx, pn + '->initnum': ini, pn + '->num': mx, pn + '->options': opt})
                                    if v is None:
                                        bad = ('?', mx, ini)
                                    elif v <= mx:
                                        bad = (v, mx, ini)
                                    if bad:
                                        break
                                if bad:
                                    break
                            if bad:
                                break
                        rep.oblige(rid, bad is None, {'function': f.name, 'new_capacity': canon(e)[:50], 'tabulated_helper': helper.name})
                        if bad and bad[0] != '?':
                            rep.violation(rid, f, x.get('_line'), 'grow:%s' % helper.name,
                                          'the growth helper %s() returns %s for capacity %d: the vector does not grow, the element is then '
                                          'stored beyond the buffer' % (helper.name, bad[0], bad[1]))
                        elif bad:
                            rep.broken_if(True, 'growth helper %s cannot be tabulated' % helper.name)
                        continue
                    for mx in range(0, 65):
                        for ini in (1, 2, 8):
                            v = _eval_member(e, {base + '->max': mx, base + '->initnum': ini, base + '->num': mx})
                            if v is None:
                                bad = ('?', mx, ini)
                                break
                            if v <= mx:
                                bad = (v, mx, ini)
                                break
                        if bad:
                            break
                    rep.oblige(rid, bad is None, {'function': f.name, 'new_capacity': canon(e)[:50]})
                    if bad and bad[0] != '?':
                        rep.violation(rid, f, e.get('_line') or x.get('_line'), 'grow:%s' % canon(e)[:30],
                                      'growth computes new capacity %s = %s for capacity %d: the vector does not grow, the element '
                                      'is then stored beyond the buffer (or through NULL after resize(0))' % (canon(e)[:40], bad[0], bad[1]))
                    elif bad:
                        rep.broken_if(True, 'growth expression %s cannot be evaluated' % canon(e)[:40])


def _eval_member(e, env):
    """eval_int with MemberExpr paths looked up in env by their canonical text"""
    from .expr import eval_int
    s = strip(e)
    if s.get('kind') == 'MemberExpr':
        return env.get(canon(s))
    v = int_value(s)
    if v is not None and not isinstance(v, str):
        return v
    k = s.get('kind')
    if k == 'BinaryOperator':
        a = _eval_member(children(s)[0], env)
        b = _eval_member(children(s)[1], env)
        if a is None or b is None:
            return None
        op = s.get('opcode')
        try:
            return {'+': a + b, '-': a - b, '*': a * b, '/': (a // b if b else None), '<<': a << b, '>>': a >> b,
                    '%': (a % b if b else None)}.get(op)
        except (ValueError, OverflowError):
            return None
    if k == 'ConditionalOperator':
        c = _eval_member(children(s)[0], env)
        if c is None:
            return None
        return _eval_member(children(s)[1 if c else 2], env)
    return None


# --------------------------------------------------------------------------------------
# Q1 (C19): bounded writes of the size-parameterised string routines

def _sized_dest(f):
    """(dst param name, size param name) for functions taking `char *dst, size_t size` adjacently"""
    ps = f.params
    for i in range(len(ps) - 1):
        if qtype(ps[i]) == 'char *' and 'size_t' in qtype(ps[i + 1]) and not qtype(ps[i + 1]).endswith('*'):
            return ps[i].get('name'), ps[i + 1].get('name')
    return None


_MIN_PROG = {}


def _min_args(prog, f, rhs):
    """arguments of a minimum: `(a < b) ? a : b` written in place, or a call of a static helper whose body is that"""
    prog = prog or _MIN_PROG.get('prog')
    r = strip_parens(strip(rhs))

    def cond_min(e, env=None):
        e = strip_parens(strip(e))
        if e.get('kind') != 'ConditionalOperator':
            return None
        c, a, b = children(e)
        c = strip_parens(c)
        if c.get('kind') != 'BinaryOperator' or c.get('opcode') not in ('<', '<=', '>', '>='):
            return None
        l, rr = children(c)
        small_first = c['opcode'] in ('<', '<=')
        if small_first and canon(l) == canon(a) and canon(rr) == canon(b):
            return [a, b]
        if not small_first and canon(l) == canon(b) and canon(rr) == canon(a):
            return [a, b]
        return None
    m = cond_min(r)
    if m:
        return m
    if r.get('kind') == 'CallExpr' and prog is not None:
        nm = prog.callee_name(r)
        g = prog.resolve_name(f.unit, nm) if nm else None
        if g is not None and getattr(g, 'body', None) is not None and getattr(g, 'static', False):
            stmts = [c for c in children(g.body)]
            if len(stmts) == 1 and stmts[0].get('kind') == 'ReturnStmt' and children(stmts[0]):
                m = cond_min(children(stmts[0])[0])
                pn = [p.get('name') for p in g.params]
                if m and all(access_path(z) in pn for z in m) and len(children(r)) - 1 == len(pn):
                    return [children(r)[1 + pn.index(access_path(z))] for z in m]
    return []


class FactsA(Facts):
    """Facts plus facts derived from assignments: v = E - c (c > 0)  =>  v < E ;  v = E  =>  v <= E"""

    def __init__(self, f):
        self._f = f
        Facts.__init__(self, f)
        # second pass: add assignment facts where the assigned variable is not reassigned later before the use:
        # implemented directly: recompute with an augmented transfer
        cfg = f.cfg
        names = {}
        for x in walk(f.decl):
            if x.get('kind') in ('VarDecl', 'ParmVarDecl'):
                names[x.get('id')] = x.get('name')
        self.IN = {cfg.entry.id: frozenset()}
        work = [cfg.entry]
        while work:
            n = work.pop()
            st = set(self.IN[n.id])
            gen = set()
            killed = set()
            for (var, rhs, kind, _l) in node_defs(n):
                nm = names.get(var)
                if nm is None:
                    continue
                killed.add(nm)
                if kind in ('init', 'assign') and rhs is not None:
                    for marg in _min_args(getattr(self, '_prog', None), f, rhs):
                        # v = min(.., E - c, ..)  =>  v <= E - c
                        mv, mc = _split_index(marg)
                        if re.match(r'^[A-Za-z_]\w*$', mv) and mv != nm:
                            if mc < 0:
                                gen.add((nm, '<', mv, 'u'))
                                gen.add((mv, '>', nm, 'u'))
                            elif mc == 0:
                                gen.add((nm, '<=', mv, 'u'))
                                gen.add((mv, '>=', nm, 'u'))
                    v, c = _split_index(rhs)
                    if re.match(r'^[A-Za-z_]\w*$', v) and v != nm:
                        if c < 0:
                            gen.add((nm, '<', v, 'u'))
                            gen.add((v, '>', nm, 'u'))
                        elif c == 0:
                            gen.add((nm, '<=', v, 'u'))
                            gen.add((v, '>=', nm, 'u'))
            if killed:
                st = {ft for ft in st if not (killed & (_tokens(ft[0]) | _tokens(ft[2])))}
            st |= gen
            for (s, lab) in n.succs:
                st2 = set(st)
                if n.kind == 'cond' and lab in ('T', 'F') and isinstance(n.ast, dict):
                    c = strip_parens(n.ast)
                    if c.get('kind') == 'BinaryOperator' and c.get('opcode') in FLIP:
                        a, b = children(c)
                        op = c.get('opcode') if lab == 'T' else NEG[c.get('opcode')]
                        ca, cb = canon(a), canon(b)
                        st2.add((ca, op, cb, 'u'))
                        st2.add((cb, FLIP[op], ca, 'u'))
                old = self.IN.get(s.id)
                new = frozenset(st2) if old is None else (old & frozenset(st2))
                if old is None or new != old:
                    self.IN[s.id] = new
                    work.append(s)


def rule_q1(prog, rep, rid='Q1'):
    from .hashrules import _loop_nodes
    rep.rule(rid, 'in the size-parameterised string routines every write into the destination is at an offset < size and the '
                  'terminator is stored at an offset <= size - 1')
    unit = 'src/utilities/qstring.c'
    prog.unit(unit)
    _MIN_PROG['prog'] = prog
    verified = set()
    funcs = [f for f in sorted(prog.funcs_in(unit), key=lambda x: x.line or 0) if _sized_dest(f)]
    rep.notes['sized_destination_functions'] = [f.name for f in funcs]
    for _round in range(2):
        for f in funcs:
            if f.name in verified:
                continue
            dst, size = _sized_dest(f)
            facts = FactsA(f)
            bad = []
            nwrites = 0
            delegates = False
            # cursors initialised from dst
            aliases = {dst}
            for x in walk(f.body):
                if x.get('kind') == 'VarDecl' and qtype(x) == 'char *':
                    from .expr import var_init
                    init = var_init(x)
                    if init is not None and access_path(init) == dst:
                        aliases.add(x.get('name'))
            for n in f.cfg.nodes:
                if n.id not in f.cfg.reachable or not isinstance(n.ast, dict) or n.kind == 'macro':
                    continue
                st = facts.at(n)
                for x in walk(n.ast):
                    if x.get('kind') == 'CallExpr':
                        nm = prog.callee_name(x)
                        args = children(x)[1:]
                        if nm in ('memmove', 'memcpy', 'strncpy') and args and access_path(args[0]) == dst:
                            nwrites += 1
                            ln = canon(args[2])
                            ok = any(ft[0] == ln and ft[1] == '<' and ft[2] == size for ft in st)
                            if not ok:
                                bad.append((x.get('_line'), '%s() of %s bytes into %s without %s < %s established' % (nm, ln, dst, ln, size)))
                        elif nm in verified and len(args) >= 2 and access_path(args[0]) == dst and access_path(args[1]) == size:
                            delegates = True
                            nwrites += 1
                        elif nm in ('strcpy', 'strcat', 'sprintf') and args and access_path(args[0]) == dst:
                            nwrites += 1
                            bad.append((x.get('_line'), 'unbounded %s() into %s' % (nm, dst)))
                    elif x.get('kind') == 'BinaryOperator' and x.get('opcode') == '=':
                        l = strip(children(x)[0])
                        if l.get('kind') == 'ArraySubscriptExpr' and access_path(children(l)[0]) == dst:
                            nwrites += 1
                            k = canon(children(l)[1])
                            ok = any(ft[0] == k and ft[1] == '<' and ft[2] == size for ft in st)
                            if not ok:
                                bad.append((x.get('_line'), 'store to %s[%s] without %s < %s established' % (dst, k, k, size)))
            # cursor writes (*to = ...; to++) inside a loop bounded by i < size - 1 with to advancing no faster than i
            cur = aliases - {dst}
            for c in sorted(cur):
                stores = [x for x in walk(f.body) if x.get('kind') == 'BinaryOperator' and x.get('opcode') == '='
                          and strip(children(x)[0]).get('kind') == 'UnaryOperator' and strip(children(x)[0]).get('opcode') == '*'
                          and access_path(children(strip(children(x)[0]))[0]) == c]
                if not stores:
                    continue
                nwrites += len(stores)
                okc = False
                why = 'no loop bounded by %s - 1 found' % size
                for (head, loop) in f.cfg.loops:
                    cond = loop['inner'][2] if loop.get('kind') == 'ForStmt' else loop['inner'][0]
                    if not cond:
                        continue
                    cc = canon(cond)
                    m = re.search(r'\((\w+) < \(%s - 1\)\)' % re.escape(size), cc)
                    if not m:
                        # counted-down form: `room = size - 1; while (.. && room > 0) { room--; ... }`
                        m2 = re.search(r'\((\w+) > 0\)', cc) or re.search(r'\(0 < (\w+)\)', cc) or re.search(r'\((\w+) != 0\)', cc) or re.search(r'\(0 != (\w+)\)', cc)
                        if m2:
                            rvar = m2.group(1)
                            from .expr import var_init as _vi
                            inits = [canon(_vi(x)) for x in walk(f.body) if x.get('kind') == 'VarDecl' and x.get('name') == rvar and _vi(x) is not None]
                            inits += [canon(children(x)[1]) for x in walk(f.body) if x.get('kind') == 'BinaryOperator' and x.get('opcode') == '='
                                      and access_path(children(x)[0]) == rvar]
                            body = _loop_nodes(f.cfg, head)
                            worst = _max_excess(f.cfg, head, body, c, rvar, down=True)
                            if inits == ['(%s - 1)' % size] and worst is not None and worst <= 0:
                                okc = True
                            else:
                                why = 'the cursor %s can advance faster than the counted-down budget %s (initialised %s)' % (c, rvar, inits)
                        continue
                    ivar = m.group(1)
                    body = _loop_nodes(f.cfg, head)
                    # on every cycle: (#advances of c) <= (#advances of ivar)
                    worst = _max_excess(f.cfg, head, body, c, ivar)
                    starts0 = any(x.get('kind') == 'BinaryOperator' and x.get('opcode') == '=' and access_path(children(x)[0]) == ivar
                                  and int_value(children(x)[1]) == 0 for x in walk(loop))
                    if worst is not None and worst <= 0 and starts0:
                        okc = True
                    else:
                        why = 'the cursor %s can advance faster than the bounded counter %s' % (c, ivar)
                if not okc:
                    bad.append((stores[0].get('_line'), 'writes through cursor %s: %s' % (c, why)))
            rep.instance(rid)
            ok = not bad and nwrites > 0
            if ok:
                verified.add(f.name)
            if _round == 1 or ok:
                rep.oblige(rid, ok, {'function': f.name, 'destination': dst, 'size': size, 'writes_checked': nwrites,
                                     'delegates_to_verified': delegates})
                for (line, msg) in bad[:2]:
                    rep.violation(rid, f, line, 'write:%s' % msg.split()[0], '%s(%s, %s, ...): %s' % (f.name, dst, size, msg))
                if not bad and nwrites == 0:
                    rep.broken_if(True, '%s: no write into the sized destination was recognised' % f.name)
            else:
                rep.rules[rid]['instances'] -= 1


def _max_excess(cfg, head, body, cvar, ivar, down=False):
    """max over cycle paths head->head of (#cvar++ - #ivar++) (ivar-- when down); None if unbounded"""
    best = {}
    work = [(s, 0) for (s, _l) in head.succs if s.id in body]
    worst = None
    steps = 0
    while work:
        steps += 1
        if steps > 20000:
            return None
        n, ex = work.pop()
        if n is head:
            worst = ex if worst is None else max(worst, ex)
            continue
        if n.id not in body:
            continue
        if isinstance(n.ast, dict) and n.kind != 'macro':
            for x in walk(n.ast):
                if x.get('kind') == 'UnaryOperator' and x.get('opcode') == '++':
                    p = access_path(children(x)[0])
                    if p == cvar:
                        ex += 1
                    elif p == ivar and not down:
                        ex -= 1
                    elif p == ivar and down:
                        return None
                elif x.get('kind') == 'UnaryOperator' and x.get('opcode') == '--' and down and access_path(children(x)[0]) == ivar:
                    ex -= 1
                elif x.get('kind') == 'CompoundAssignOperator' and access_path(children(x)[0]) in (cvar, ivar):
                    return None
        if best.get(n.id, -99) >= ex:
            continue
        best[n.id] = ex
        for (s, _l) in n.succs:
            work.append((s, ex))
    return worst


def rule_shift_distance(prog, rep, rid='G2'):
    """Element shifts move by exactly one element: in the function that inserts (count incremented) every copy whose source
    lies at or behind the insertion point has destination offset = source offset + objsize; in the function that removes
    (count decremented) destination offset = source offset - objsize.  Offsets are compared as polynomials relative to the
    start of the element array (the old or a new block)."""
    from .dataflow import offset_split, poly_of, Poly
    rep.rule(rid, 'element shifts move the tail by exactly one element: destination offset - source offset = +objsize on insertion, '
                  '-objsize on removal (symbolic offsets relative to the array start)')
    prog.unit(UNIT)
    for f in sorted(prog.funcs_in(UNIT), key=lambda x: x.line or 0):
        if f.body is None:
            continue
        incs = any(x.get('kind') == 'UnaryOperator' and x.get('opcode') == '++' and canon(children(x)[0]).endswith('->num') for x in walk(f.body))
        decs = any(x.get('kind') == 'UnaryOperator' and x.get('opcode') == '--' and canon(children(x)[0]).endswith('->num') for x in walk(f.body))
        if incs and decs:
            continue
        ips = {p.get('name') for p in f.params if ((p.get('type') or {}).get('qualType') or '') in ('int', 'size_t', 'long')}
        rd = None
        for n in f.cfg.nodes:
            if not isinstance(n.ast, dict) or n.kind == 'macro' or n.id not in f.cfg.reachable:
                continue
            for x in walk(n.ast):
                if x.get('kind') != 'CallExpr' or prog.callee_name(x) not in ('memcpy', 'memmove'):
                    continue
                args = children(x)[1:]
                if len(args) < 3:
                    continue
                rd = rd or ReachingDefs(f)
                if n.id not in rd.IN:
                    continue
                _bd, od = offset_split(args[0], rd, n.id)
                _bs, os_ = offset_split(args[1], rd, n.id)

                def norm(p):
                    return Poly({tuple(a for a in mono if a != 'sizeof(char)'): c for mono, c in p.t.items()})
                od, os_ = norm(od), norm(os_)
                # only copies that start at or behind the position given by an index parameter (or a loop variable)
                def positional(p):
                    return any(m for m in p.t if m != () and any('objsize' in a for a in m) and len(m) >= 2)
                if not positional(os_) or not positional(od):
                    continue            # copies out of / into the array (one side is another buffer) are not shifts
                if not (incs or decs) and _bd != _bs:
                    continue
                diff = od - os_
                if not (incs or decs) and any(len(m) != 1 or not m[0].endswith('->objsize') for m in diff.t if m != ()):
                    continue            # an exchange between two computed positions (reverse), not a shift by a fixed distance
                want = Poly({(a,): 1 for a in []})
                objs = [m for m in diff.t if len(m) == 1 and m[0].endswith('->objsize')]
                rep.instance(rid)
                wanted = (1,) if incs else ((-1,) if decs else (1, -1))     # a helper without count update: one element either way
                ok = len(diff.t) == 1 and len(objs) == 1 and diff.t[objs[0]] in wanted
                rep.oblige(rid, ok, {'function': f.name, 'line': x.get('_line'), 'dst_minus_src': repr(diff),
                                     'kind': 'insert' if incs else ('remove' if decs else 'shift helper')})
                if not ok:
                    rep.violation(rid, f, x.get('_line'), 'shift:%s' % canon(x)[:30],
                                  '%s moves elements by %s, expected %s one element (%sobjsize): the %s' % (
                                      canon(x)[:60], repr(diff), 'up by' if incs else 'down by', '+' if incs else '-',
                                      'gap for the new element is not opened / an element is overwritten' if incs else 'hole is not closed'))


def rule_q2(prog, rep, rid='Q2'):
    """Every way out of a size-parameterised string routine leaves the destination terminated: each path from the entry to
    a return passes a terminator store into the destination (`dst[k] = 0`, `*cursor = 0` for a cursor started at dst) or a
    delegating call that hands (dst, size) to another routine of the family - except the argument-validation exits (a
    parameter found NULL / zero).  A short-cut return on some relation between the arguments (`if (dst == src) return dst`)
    leaves an over-long string un-truncated."""
    rep.rule(rid, 'every non-validation path through a size-parameterised string routine passes a terminator store into the destination or '
                  'a delegation of (dst, size) to another routine of the family')
    unit = 'src/utilities/qstring.c'
    prog.unit(unit)
    funcs = [f for f in sorted(prog.funcs_in(unit), key=lambda x: x.line or 0) if _sized_dest(f) and f.body is not None]
    family = {f.name for f in funcs}
    for f in funcs:
        dst, size = _sized_dest(f)
        # validation tests: the size parameter against 0, pointer parameters (or what they point to) against NULL/0
        pnames = [p.get('name') for p in f.params if p.get('name') == size or (qtype(p) or '').rstrip().endswith('*')]
        aliases = {dst}
        for x in walk(f.body):
            if x.get('kind') == 'VarDecl' and (qtype(x) or '').replace(' ', '') == 'char*':
                from .expr import var_init
                init = var_init(x)
                if init is not None and access_path(init) == dst:
                    aliases.add(x.get('name'))
        cfg = f.cfg

        def terminates(m):
            if not isinstance(m.ast, dict) or m.kind == 'macro':
                return False
            for y in walk(m.ast):
                if y.get('kind') == 'BinaryOperator' and y.get('opcode') == '=' and int_value(children(y)[1]) == 0:
                    l = strip(children(y)[0])
                    if l.get('kind') == 'ArraySubscriptExpr' and access_path(children(l)[0]) in aliases:
                        return True
                    if l.get('kind') == 'UnaryOperator' and l.get('opcode') == '*' and access_path(children(l)[0]) in aliases:
                        return True
                if y.get('kind') == 'CallExpr' and prog.callee_name(y) in family and prog.callee_name(y) != f.name:
                    a = children(y)[1:]
                    if len(a) >= 2 and access_path(a[0]) == dst and access_path(a[1]) == size:
                        return True
            return False

        def validation_edge(m, lab):
            if m.kind != 'cond' or not isinstance(m.ast, dict) or lab not in ('T', 'F'):
                return False
            c = strip_parens(m.ast)
            neg = False
            while c.get('kind') == 'UnaryOperator' and c.get('opcode') == '!':
                neg = not neg
                c = strip_parens(children(c)[0])
            if c.get('kind') == 'BinaryOperator' and c.get('opcode') in ('==', '!='):
                a, b = children(c)

                def root(e):
                    e = strip(e)
                    while e.get('kind') == 'UnaryOperator' and e.get('opcode') == '*':      # *offset, **offset
                        e = strip(children(e)[0])
                    return access_path(e)
                pa, pb = root(a), root(b)
                from .expr import is_null
                zero_b = is_null(b) or int_value(b) == 0
                zero_a = is_null(a) or int_value(a) == 0
                if (pa in pnames and zero_b) or (pb in pnames and zero_a):
                    is_zero_on_true = (c['opcode'] == '==') != neg
                    return (lab == 'T') == is_zero_on_true
                return False
            p = access_path(c)
            if p in pnames:                       # if (!p) / if (p)
                return (lab == 'T') == neg
            return False
        rep.instance(rid)
        bad = None
        seen = set()
        work = [(cfg.entry, [])]
        while work and bad is None:
            m, path = work.pop()
            if m.id in seen:
                continue
            seen.add(m.id)
            if terminates(m):
                continue
            if m.kind == 'act' and isinstance(m.ast, dict) and m.ast.get('kind') == 'ReturnStmt':
                from .expr import is_null as _isnull
                if children(m.ast) and _isnull(children(m.ast)[0]):
                    continue                      # a failure exit delivers no string
                bad = (m, path)
                break
            for (s, lab) in m.succs:
                if validation_edge(m, lab):
                    continue
                if s is cfg.exit:
                    bad = (m, path)
                    break
                work.append((s, path + [m]))
        rep.oblige(rid, bad is None, {'function': f.name, 'destination': dst, 'size': size})
        if bad is not None:
            rep.violation(rid, f, bad[0].line, 'unterminated-exit',
                          '%s can return at line %s without having stored a terminator into %s (and not through an argument-validation '
                          'exit): a destination longer than %s - 1 characters stays un-truncated on that path' % (f.name, bad[0].line, dst, size),
                          path=['%s:%s' % (f.relfile, p.line) for p in bad[1] if p.kind in ('cond', 'act')][:12])
