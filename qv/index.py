"""IDX: every element-address computation `X->data + E * X->objsize` in qvector.c happens with
0 <= E (<|<=) X->num established on all paths (must-facts from dominating comparisons, with the
signed/unsigned domain of each comparison taken from the type-checked AST, plus definition-based
bounds for loop variables).  Serves C10 (index discipline) and C11 (no access outside the buffer)."""
import re
from .frontend import walk, children, strip, strip_parens, qtype, dtype
from .expr import canon, access_path, int_value
from .dataflow import ReachingDefs, node_defs

UNIT = 'src/containers/qvector.c'
FLIP = {'<': '>', '>': '<', '<=': '>=', '>=': '<=', '==': '==', '!=': '!='}
NEG = {'<': '>=', '>': '<=', '<=': '>', '>=': '<', '==': '!=', '!=': '=='}


def _is_unsigned(t):
    t = t or ''
    return 'unsigned' in t or t in ('size_t', 'uint32_t', 'uint64_t', 'uint8_t', 'uint16_t')


def _cmp_domain(e):
    """'u' if the comparison is carried out in an unsigned type (after the usual arithmetic conversions)."""
    a, b = e['inner'][0], e['inner'][1]
    ta = (a.get('type') or {}).get('desugaredQualType') or qtype(a)
    tb = (b.get('type') or {}).get('desugaredQualType') or qtype(b)
    return 'u' if (_is_unsigned(ta) and _is_unsigned(tb)) else 's'


def _tokens(s):
    return set(re.findall(r'[A-Za-z_][A-Za-z_0-9]*', s))


class Facts:
    """Must-facts (lhs, rel, rhs, domain) valid at the entry of each CFG node."""

    def __init__(self, f):
        self.f = f
        cfg = f.cfg
        names = {}
        for x in walk(f.decl):
            if x.get('kind') in ('VarDecl', 'ParmVarDecl'):
                names[x.get('id')] = x.get('name')
        self.IN = {cfg.entry.id: frozenset()}
        work = [cfg.entry]
        while work:
            n = work.pop()
            st = set(self.IN[n.id])
            killed = {names.get(d[0]) for d in node_defs(n)} - {None}
            # stores through members kill facts about that path
            if isinstance(n.ast, dict) and n.kind != 'macro':
                for x in walk(n.ast):
                    if x.get('kind') in ('BinaryOperator', 'CompoundAssignOperator') and (x.get('opcode') or '').endswith('=') \
                            and x.get('opcode') not in ('==', '!=', '<=', '>='):
                        p = access_path(children(x)[0])
                        if p and '->' in p:
                            st = {ft for ft in st if p not in (ft[0], ft[2])}
                    elif x.get('kind') == 'UnaryOperator' and x.get('opcode') in ('++', '--'):
                        p = access_path(children(x)[0])
                        if p and '->' in p:
                            st = {ft for ft in st if p not in (ft[0], ft[2])}
            if killed:
                st = {ft for ft in st if not (killed & (_tokens(ft[0]) | _tokens(ft[2])))}
            for (s, lab) in n.succs:
                st2 = set(st)
                if n.kind == 'cond' and lab in ('T', 'F') and isinstance(n.ast, dict):
                    c = strip_parens(n.ast)
                    if c.get('kind') == 'BinaryOperator' and c.get('opcode') in FLIP:
                        a, b = children(c)
                        op = c.get('opcode') if lab == 'T' else NEG[c.get('opcode')]
                        dom = _cmp_domain(c)
                        ca, cb = canon(a), canon(b)
                        st2.add((ca, op, cb, dom))
                        st2.add((cb, FLIP[op], ca, dom))
                old = self.IN.get(s.id)
                new = frozenset(st2) if old is None else (old & frozenset(st2))
                if old is None or new != old:
                    self.IN[s.id] = new
                    work.append(s)

    def at(self, node):
        return self.IN.get(node.id, frozenset())


def _split_index(e):
    """E -> (canon of variable part, constant offset) for V, V + c, V - c; else (canon(E), 0)."""
    s = strip(e)
    if s.get('kind') == 'BinaryOperator' and s.get('opcode') in ('+', '-'):
        a, b = children(s)
        c = int_value(b)
        if c is not None and not isinstance(c, str):
            v, c0 = _split_index(a)
            return v, c0 + (c if s.get('opcode') == '+' else -c)
        c = int_value(a)
        if c is not None and not isinstance(c, str) and s.get('opcode') == '+':
            v, c0 = _split_index(b)
            return v, c0 + c
    return canon(s), 0


def rule_idx(prog, rep, rid='IDX'):
    rep.rule(rid, 'every element address X->data + E*X->objsize is computed with 0 <= E and E bounded by X->num on all paths')
    prog.unit(UNIT)
    for f in sorted(prog.funcs_in(UNIT), key=lambda x: x.line or 0):
        sites = []
        for n in f.cfg.nodes:
            if n.id not in f.cfg.reachable or not isinstance(n.ast, dict) or n.kind == 'macro':
                continue
            for x in walk(n.ast):
                if x.get('kind') == 'BinaryOperator' and x.get('opcode') == '+':
                    a, b = children(x)
                    base = strip(a)
                    if base.get('kind') == 'MemberExpr' and base.get('name') == 'data' and (base.get('_field') or ('',))[0] == 'qvector_s':
                        m = strip(b)
                        if m.get('kind') == 'BinaryOperator' and m.get('opcode') == '*':
                            l, r = children(m)
                            if canon(l).endswith('->objsize'):
                                sites.append((n, x, r, access_path(children(base)[0])))
                            elif canon(r).endswith('->objsize'):
                                sites.append((n, x, l, access_path(children(base)[0])))
        if not sites:
            continue
        facts = Facts(f)
        rd = ReachingDefs(f)
        inserts = any(x.get('kind') == 'UnaryOperator' and x.get('opcode') == '++' and canon(children(x)[0]).endswith('->num')
                      for x in walk(f.body))

        def defs_of(v):
            out = []
            for d in rd.defs:
                nm = None
                for x in walk(f.decl):
                    if x.get('kind') in ('VarDecl', 'ParmVarDecl') and x.get('id') == d.var:
                        nm = x.get('name')
                        break
                if nm == v:
                    out.append(d)
            return out

        def nonneg_by_def(v, depth=0):
            ds = defs_of(v)
            if not ds or depth > 2:
                return False
            for d in ds:
                if d.kind == 'uninit':
                    continue
                if d.kind == 'param':
                    # unsigned parameter
                    p = [p for p in f.params if p.get('name') == v]
                    if p and _is_unsigned((p[0].get('type') or {}).get('desugaredQualType') or qtype(p[0])):
                        continue
                    return False
                if d.kind == 'update':
                    x = d.rhs
                    if x.get('kind') == 'UnaryOperator' and x.get('opcode') == '++':
                        continue
                    return False
                if d.rhs is None:
                    return False
                c = int_value(d.rhs)
                if c is not None and not isinstance(c, str) and c >= 0:
                    continue
                e = strip_parens(d.rhs)
                t = (e.get('type') or {}).get('desugaredQualType') or qtype(e)
                inner = strip(d.rhs)
                if inner.get('kind') == 'MemberExpr' and _is_unsigned((inner.get('type') or {}).get('desugaredQualType') or qtype(inner)):
                    continue
                return False
            return True

        def upper_by_def(v, N):
            """every definition is N, N - c (c >= 0) or a decrement"""
            ds = defs_of(v)
            if not ds:
                return None
            best = 0
            for d in ds:
                if d.kind == 'uninit':
                    continue
                if d.kind == 'update':
                    x = d.rhs
                    if x.get('kind') == 'UnaryOperator' and x.get('opcode') == '--':
                        continue
                    return None
                if d.rhs is None:
                    return None
                vv, c = _split_index(d.rhs)
                if vv == N and c <= 0:
                    best = min(best, c) if best else c
                    continue
                return None
            return best

        def lower_bound(st, v, depth=0):
            """largest provable constant L with v >= L, or None"""
            best = None

            def upd(x):
                nonlocal best
                if x is not None and (best is None or x > best):
                    best = x
            if re.match(r'^-?\d+$', v):
                return int(v)
            if nonneg_by_def(v):
                upd(0)
            if v.endswith('->num') or v.endswith('->max') or v.endswith('->objsize'):
                upd(0)
            for (a, op, b, dom) in st:
                if a != v:
                    continue
                if dom == 'u' and op in ('<', '<='):
                    upd(0)                 # compared below an unsigned quantity in unsigned arithmetic
                if depth < 2:
                    lb = lower_bound(st, b, depth + 1) if not re.match(r'^-?\d+$', b) else int(b)
                    if lb is not None:
                        if op == '>=':
                            upd(lb)
                        elif op == '>':
                            upd(lb + 1)
                        elif op == '==':
                            upd(lb)
            return best

        def upper_rel(st, v, N, aliases):
            """'<' if v < N proven, '<=' if v <= N, else None"""
            res = None
            for (a, op, b, dom) in st:
                if a == v and (b == N or b in aliases):
                    if op == '<':
                        return '<'
                    if op in ('<=', '=='):
                        res = res or '<='
            ub = upper_by_def(v, N)
            if ub is not None:
                return '<' if ub < 0 else (res or '<=')
            # transitively: v < w (or v <= w) with w bounded by its definitions
            for (a, op, b, dom) in st:
                if a == v and op in ('<', '<=') and re.match(r'^[A-Za-z_]\w*$', b):
                    ub = upper_by_def(b, N)
                    if ub is not None:
                        if op == '<' or ub < 0:
                            return '<'
                        res = res or '<='
            return res

        for (n, x, idx, basevar) in sites:
            rep.instance(rid)
            st = facts.at(n)
            N = '%s->num' % basevar
            aliases = set()
            for d in rd.defs:
                if d.rhs is not None and d.kind in ('init', 'assign') and canon(d.rhs) == N:
                    for y in walk(f.decl):
                        if y.get('kind') == 'VarDecl' and y.get('id') == d.var:
                            aliases.add(y.get('name'))
            v, c = _split_index(idx)
            lb = lower_bound(st, v)
            low_ok = lb is not None and lb + c >= 0
            ur = upper_rel(st, v, N, aliases)
            if c > 0:
                up_ok = (ur == '<' and c <= 1) or False
            elif inserts or c < 0:
                up_ok = ur in ('<', '<=')
            else:
                up_ok = ur == '<'
            ok = low_ok and up_ok
            rep.oblige(rid, ok, {'function': f.name, 'line': x.get('_line'), 'index': canon(idx), 'lower_bound': lb,
                                 'upper_relation_to_num': ur})
            if not ok:
                why = []
                if not low_ok:
                    why.append('no path-independent proof that %s >= 0 (a negative value that survives the normalisation '
                               'addresses memory before the buffer)' % canon(idx))
                if not up_ok:
                    why.append('no proof that %s %s %s' % (canon(idx), '<=' if (inserts or c != 0) else '<', N))
                rep.violation(rid, f, x.get('_line'), 'addr:%s' % canon(idx),
                              'element address %s: %s' % (canon(x)[:70], '; '.join(why)))


def rule_vcount(prog, rep, rid='VC'):
    """Vector element count: ++ only next to the element store of an insertion, -- exactly once after each
    successful shift-down (remove_at), = 0 / clamp only in clear/resize/constructor."""
    from .own import propagate, node_events
    rep.rule(rid, 'vector->num changes exactly with an element insertion (store at the insertion index) or a successful removal shift')
    prog.unit(UNIT)
    for f in sorted(prog.funcs_in(UNIT), key=lambda x: x.line or 0):
        has = any((x.get('kind') == 'CallExpr' and prog.callee_name(x) == 'remove_at') or
                  (x.get('kind') == 'UnaryOperator' and x.get('opcode') in ('++', '--') and canon(children(x)[0]).endswith('->num'))
                  for x in walk(f.body))
        if not has or f.name == 'remove_at':
            continue
        rep.instance(rid)
        bad = []

        def transfer(n, st):
            s = set(st)
            if not isinstance(n.ast, dict) or n.kind == 'macro':
                return st
            for ev in node_events(n):
                if ev[0] in ('decl', 'assign'):
                    rhs = ev[2]
                    if rhs is not None and strip(rhs).get('kind') == 'CallExpr' and prog.callee_name(strip(rhs)) == 'remove_at':
                        v = ev[1].get('name') if ev[0] == 'decl' else access_path(ev[1])
                        s.add(('R', v))
                elif ev[0] == 'call':
                    nm = prog.callee_name(ev[1])
                    if nm == 'remove_at' and not any(y[0] == 'R' for y in s):
                        s.add(('R', None))
                    if nm in ('memcpy', 'memmove') and len(children(ev[1])) > 2:
                        # the element store of an insertion: destination derived from ->data
                        if '->data' in canon(children(ev[1])[1]) or any(
                                y.get('kind') == 'DeclRefExpr' for y in walk(children(ev[1])[1])):
                            s.add(('S',))
            for x in walk(n.ast):
                if x.get('kind') == 'UnaryOperator' and x.get('opcode') in ('++', '--') and canon(children(x)[0]).endswith('->num'):
                    if x.get('opcode') == '--':
                        if not any(y[0] == 'R' for y in s):
                            bad.append((x.get('_line'), 'num-- on a path without a preceding remove_at()'))
                        elif ('OK',) not in s:
                            bad.append((x.get('_line'), 'num-- without the remove_at() result having been tested: a refused removal is counted'))
                        elif ('D',) in s:
                            bad.append((x.get('_line'), 'num-- twice for one removal'))
                        s.add(('D',))
                    else:
                        if ('S',) not in s:
                            bad.append((x.get('_line'), 'num++ on a path that stored no element'))
                        s.add(('I',))
            if n.kind == 'act' and n.ast.get('kind') == 'ReturnStmt':
                if any(y[0] == 'R' for y in s) and ('D',) not in s and ('F',) not in s:
                    bad.append((n.line, 'a successful remove_at() is not followed by num-- before the return at line %s' % n.line))
            return frozenset(s)

        def branch(n, st, lab):
            # the branch on which the remove_at() result is false
            if not isinstance(n.ast, dict):
                return st
            c = strip_parens(n.ast)
            var = None
            truth = None
            if c.get('kind') == 'BinaryOperator' and c.get('opcode') in ('==', '!='):
                a, b = children(c)
                v = int_value(b)
                if v is not None and not isinstance(v, str) and access_path(a):
                    var = access_path(a)
                    truth = (v != 0) if c.get('opcode') == '==' else (v == 0)   # value of var on the T edge
            elif access_path(c):
                var, truth = access_path(c), True
            if var and ('R', var) in st:
                val_on_edge = truth if lab == 'T' else (not truth)
                if not val_on_edge:
                    return frozenset(set(st) | {('F',)})
                return frozenset(set(st) | {('OK',)})
            return st

        propagate(f, frozenset(), transfer, branch)
        seen = set()
        bad2 = [b for b in bad if not (b in seen or seen.add(b))]
        rep.oblige(rid, not bad2, {'function': f.name})
        for (line, msg) in bad2[:2]:
            rep.violation(rid, f, line, 'num:%s' % msg.split()[0], '%s: %s' % (f.name, msg))
