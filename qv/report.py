"""Reports, known findings and evidence files."""
import json
import os
import time

VERIF = os.path.dirname(os.path.dirname(os.path.abspath(__file__)))
KNOWN = os.path.join(VERIF, 'known_findings.json')


def evidence_dir():
    """Evidence goes to /verif/evidence only when the analysed tree is /repo itself; runs on
    scratch copies (mutants, seeded changes, the pinned tree) write to a scratch directory."""
    if os.environ.get('QV_EVIDENCE_DIR'):
        return os.environ['QV_EVIDENCE_DIR']
    root = os.path.realpath(os.environ.get('QV_ROOT', '/repo'))
    if root == os.path.realpath('/repo'):
        return os.path.join(VERIF, 'evidence')
    return '/tmp/qv-evidence-scratch'


def load_known():
    try:
        with open(KNOWN) as f:
            return json.load(f)
    except OSError:
        return {'findings': [], 'fixed': []}


class Finding:
    def __init__(self, rule, file, function, construct, line, message, path=None, config=None):
        self.rule = rule
        self.file = file
        self.function = function
        self.construct = construct
        self.line = line
        self.message = message
        self.path = path or []
        self.config = config

    def key(self):
        return (self.rule, self.file, self.function, self.construct)

    def as_dict(self):
        return {'rule': self.rule, 'file': self.file, 'function': self.function,
                'construct': self.construct, 'line': self.line, 'message': self.message,
                'path': self.path, 'config': self.config}

    def text(self):
        return '%s:%s: [%s] %s: %s' % (self.file, self.line, self.rule, self.function, self.message)


class Report:
    """Collects what one check analysed and what it found."""

    def __init__(self, prop, tier, level='other'):
        self.prop = prop
        self.tier = tier
        self.level = level
        self.t0 = time.time()
        self.findings = []
        self.rules = {}          # rule -> dict(instances, obligations, discharged, desc)
        self.samples = []
        self.assumptions = []
        self.not_analysed = []
        self.notes = {}
        self.configs = []
        self.units = []
        self.broken = []
        self.explanation = ''
        self.trusted_base = []
        self.cur_config = None

    # ---- bookkeeping
    def rule(self, rid, desc):
        r = self.rules.setdefault(rid, {'desc': desc, 'instances': 0, 'obligations': 0,
                                        'discharged': 0, 'floor': 0})
        return r

    def instance(self, rid, n=1):
        self.rules[rid]['instances'] += n

    def oblige(self, rid, ok, sample=None):
        r = self.rules[rid]
        r['obligations'] += 1
        if ok:
            r['discharged'] += 1
        if sample is not None and len([s for s in self.samples if s.get('rule') == rid]) < 4:
            s = {'rule': rid, 'verdict': 'holds' if ok else 'VIOLATED'}
            s.update(sample if isinstance(sample, dict) else {'obligation': sample})
            self.samples.append(s)

    def floor(self, rid, n, what='instances'):
        """A rule matching fewer instances than confirmed by hand is analysis-broken."""
        r = self.rules[rid]
        r['floor'] = n
        if r[what] < n:
            self.broken.append('rule %s matched %d %s, below its confirmed floor %d (%s)'
                               % (rid, r[what], what, n, r['desc']))

    def broken_if(self, cond, msg):
        if cond:
            self.broken.append(msg)

    def violation(self, rid, func, line, construct, message, path=None, file=None):
        """func: a frontend.Func or a (file, function-name) pair."""
        if hasattr(func, 'name'):
            file = file or func.relfile
            fname = func.name
        else:
            file, fname = func
        f = Finding(rid, file, fname, construct, line, message, path, self.cur_config)
        # one finding per key and configuration-independent
        for g in self.findings:
            if g.key() == f.key():
                if f.config and g.config and f.config not in g.config.split(','):
                    g.config += ',' + f.config
                return g
        self.findings.append(f)
        return f

    # ---- output
    def finish(self):
        known = load_known()
        kf = [k for k in known.get('findings', []) if k.get('property') == self.prop]
        new, matched = [], []
        for f in self.findings:
            hit = None
            for k in kf:
                if (k.get('rule'), k.get('file'), k.get('function'), k.get('construct')) == f.key():
                    hit = k
                    break
            if hit is not None:
                matched.append((f, hit))
            else:
                new.append(f)
        edir = evidence_dir()
        os.makedirs(os.path.join(edir, 'replay'), exist_ok=True)
        # remove stale replay files of this property
        rdir = os.path.join(edir, 'replay')
        for fn in os.listdir(rdir):
            if fn.startswith(self.prop + '-'):
                try:
                    os.unlink(os.path.join(rdir, fn))
                except OSError:
                    pass
        for f, k in matched:
            print('KNOWN-FINDING: property=%s %s' % (self.prop, f.text()))
        for i, f in enumerate(new):
            rp = os.path.join(rdir, '%s-%d.json' % (self.prop, i))
            with open(rp, 'w') as fh:
                json.dump({'property': self.prop, 'finding': f.as_dict(), 'tier': self.tier}, fh, indent=1)
            print('DIAG %s' % f.text())
            for step in f.path[:40]:
                print('    via %s' % step)
            print('VIOLATION property=%s replay=%s' % (self.prop, rp))
        for b in self.broken:
            print('ANALYSIS-BROKEN property=%s %s' % (self.prop, b))
        obligations = sum(r['obligations'] for r in self.rules.values())
        discharged = sum(r['discharged'] for r in self.rules.values())
        instances = sum(r['instances'] for r in self.rules.values())
        wall = time.time() - self.t0
        cov = {
            'explanation': self.explanation,
            'obligations': obligations,
            'discharged': discharged,
            'evaluations': max(obligations, 1),
            'distinct_nontrivial': max(instances, 2) if instances >= 2 else max(obligations, 2),
            'rule': 'static rules over the type-checked AST/CFG of every compiled unit; an evaluation '
                    'is one obligation (rule x construct); distinct_nontrivial counts distinct rule '
                    'instances (constructs the rule applies to)',
            'samples': self.samples[:40] or [{'note': 'no obligations generated'}],
            'rules': self.rules,
            'configurations': self.configs,
            'units': self.units,
            'not_analysed': self.not_analysed,
            'known_findings_matched': [f.as_dict() for f, _ in matched],
            'violations': [f.as_dict() for f in new],
            'analysis_broken': self.broken,
            'exhaustive': True,
            'checker_cmd': 'python3 run.py check %s --tier %s' % (self.prop, self.tier),
            'trusted_base': self.trusted_base,
        }
        cov.update(self.notes)
        ev = {
            'property_id': self.prop,
            'tier': self.tier,
            'seed': int(os.environ.get('VERIF_SEED', '0') or 0),
            'level': self.level,
            'coverage': cov,
            'assumptions': self.assumptions,
            'wall_s': round(wall, 3),
            'violations': len(new),
        }
        with open(os.path.join(edir, '%s.json' % self.prop), 'w') as fh:
            json.dump(ev, fh, indent=1, default=str)
        print('%s [%s]: %d rule(s), %d instance(s), %d/%d obligation(s) discharged, '
              '%d known finding(s), %d violation(s), %.1fs'
              % (self.prop, self.tier, len(self.rules), instances, discharged, obligations,
                 len(matched), len(new), wall))
        for rid, r in sorted(self.rules.items()):
            print('  %-5s %-4d inst %4d/%-4d obl  %s' % (rid, r['instances'], r['discharged'],
                                                       r['obligations'], r['desc']))
        if new:
            return 1          # a reported violation takes precedence over an analysis-broken note
        return 2 if self.broken else 0
