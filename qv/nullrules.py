"""NC1: a pointer the function itself tests for NULL is not dereferenced where it may be NULL.

The contradiction rule of Engler et al.: a function that compares a pointer parameter with NULL on one path states the
belief "this may be NULL"; a dereference of the same parameter on a path that is not known to have passed the non-NULL
outcome of such a test contradicts it.  In the parsers the canonical instance is `_parse_inline()`'s `cbdata_parent`
(NULL at the root level): a stray `</Name>` at the top of a file reaches the section-close branch, and only the earlier
"section that wasn't opened" test keeps the dereference from running with NULL.

Path facts (per CFG path, sets of states): non-NULL / NULL knowledge of access paths from branch outcomes, and the outcome of
equality tests of an access path against a constant (`cbdata->otype == QAC_OTYPE_SECTIONCLOSE`), kept until the path or a
prefix of it is assigned or handed to a callee that could write it.  The second kind is what correlates a guard and a
dereference that sit under two separate tests of the same discriminator."""
from .frontend import walk, children, strip, strip_parens, qtype
from .expr import canon, access_path, is_null, int_value
from .own import propagate, node_events, cond_null_test


def _const_key(e):
    s = strip(e)
    v = int_value(s)
    if isinstance(v, int):
        return 'int:%d' % v
    if s.get('kind') == 'DeclRefExpr' and (s.get('_ref') or ('',))[0] == 'enum':
        return 'enum:%s' % s['_ref'][1]
    return None


def _eq_test(cond):
    """(path, constant key, equal_on_true) for `path == K` / `path != K`"""
    c = strip_parens(cond)
    if c.get('kind') == 'BinaryOperator' and c.get('opcode') in ('==', '!='):
        a, b = children(c)
        for x, y in ((a, b), (b, a)):
            p = access_path(x)
            k = _const_key(y)
            if p and k and not (qtype(strip(x)) or '').rstrip().endswith('*'):
                return p, k, c.get('opcode') == '=='
    return None


def _propagate(f, transfer, branch, cap=4000):
    """sets of fact sets per node; only this rule's facts distinguish states (no generic condition memory)"""
    cfg = f.cfg
    states = {cfg.entry.id: {frozenset()}}
    work = [(cfg.entry, frozenset())]
    truncated = False
    while work:
        n, st = work.pop()
        out = transfer(n, st)
        for (s, lab) in n.succs:
            st2 = out
            if lab in ('T', 'F'):
                st2 = branch(n, out, lab)
                if st2 is None:
                    continue
            cur = states.setdefault(s.id, set())
            if st2 in cur:
                continue
            if len(cur) >= cap:
                truncated = True
                continue
            cur.add(st2)
            work.append((s, st2))
    return states, truncated


_TESTS = {}


def _tests_param(g, pname):
    key = (g.key, pname)
    if key not in _TESTS:
        r = False
        for n in g.cfg.nodes:
            if n.kind == 'cond' and isinstance(n.ast, dict):
                t = cond_null_test(n.ast)
                if t and t[0] == pname:
                    r = True
                    break
        _TESTS[key] = r
    return _TESTS[key]


def _rooted(path, root):
    return path == root or path.startswith(root + '->') or path.startswith(root + '.')


def rule_nc1(prog, rep, units, rid='NC1'):
    rep.rule(rid, 'a pointer parameter that the function compares with NULL somewhere is dereferenced only on paths that passed the '
                  'non-NULL outcome of such a test (branch facts and equality facts on discriminator fields are tracked per path)')
    for rel in units:
        for f in sorted(prog.funcs_in(rel), key=lambda x: x.line or 0):
            if f.body is None:
                continue
            ptr_params = {p.get('name') for p in f.params if (qtype(p) or '').rstrip().endswith('*')}
            if not ptr_params:
                continue
            tested = set()
            for n in f.cfg.nodes:
                if n.kind == 'cond' and isinstance(n.ast, dict):
                    t = cond_null_test(n.ast)
                    if t and t[0] in ptr_params:
                        tested.add(t[0])
            # a parameter that is re-assigned is a local cursor, not the caller's belief
            for x in walk(f.body):
                if x.get('kind') == 'BinaryOperator' and x.get('opcode') == '=':
                    l = strip(children(x)[0])
                    if l.get('kind') == 'DeclRefExpr' and canon(l) in tested:
                        tested.discard(canon(l))
            if not tested:
                continue
            derefs = []
            for n in f.cfg.nodes:
                if n.id not in f.cfg.reachable or not isinstance(n.ast, dict) or n.kind == 'macro':
                    continue
                for ev in node_events(n):
                    if ev[0] == 'deref':
                        p = access_path(ev[1])
                        if p in tested:
                            derefs.append((n, p, ev[2]))
            if not derefs:
                continue

            # discriminators: paths compared with a constant at two or more tests (only those can correlate two tests)
            cnt = {}
            for n in f.cfg.nodes:
                if n.kind == 'cond' and isinstance(n.ast, dict):
                    e = _eq_test(n.ast)
                    if e:
                        cnt[e[0]] = cnt.get(e[0], 0) + 1
            discr = {p_ for p_, c_ in cnt.items() if c_ >= 2}
            # ... and of those only the ones that guard something this rule cares about: an if-statement on the discriminator
            # whose arms contain a NULL test or a dereference of a tested parameter
            relevant = set()
            for x in walk(f.body):
                k_ = x.get('kind')
                ch_ = [c for c in (x.get('inner') or []) if isinstance(c, dict)]
                if k_ not in ('IfStmt', 'ForStmt', 'WhileStmt', 'DoStmt') or not ch_:
                    continue
                if k_ in ('IfStmt', 'WhileStmt'):
                    head, arms = ch_[:1], ch_[1:]
                elif k_ == 'ForStmt':
                    head, arms = ch_[:-1], ch_[-1:]
                else:
                    head, arms = ch_[-1:], ch_[:-1]
                ds = set()
                for h in head:
                    for y in walk(h):
                        if y.get('kind') == 'BinaryOperator' and y.get('opcode') in ('==', '!='):
                            e = _eq_test(y)
                            if e and e[0] in discr:
                                ds.add(e[0])
                if not ds - relevant:
                    continue
                hit = False
                for arm in arms:
                    for y in walk(arm):
                        if y.get('kind') == 'DeclRefExpr' and canon(y) in tested:
                            hit = True
                            break
                    if hit:
                        break
                if hit:
                    relevant |= ds
            discr = relevant

            def branch(n, st, lab):
                if not isinstance(n.ast, dict):
                    return st
                s = set(st)
                # the verdict of a helper that itself examines the pointer's nullness (`if (_is_stray_close(c, parent, ..))`):
                # the caller branched on a test of the pointer made elsewhere; both outcomes count as "has been tested"
                for y in walk(n.ast):
                    if y.get('kind') == 'CallExpr':
                        g = prog.resolve_name(f.unit, prog.callee_name(y)) if prog.callee_name(y) else None
                        if g is None or g.body is None or g is f:
                            continue
                        for i_, a in enumerate(children(y)[1:]):
                            ap = access_path(a)
                            if ap in tested and i_ < len(g.params) and _tests_param(g, g.params[i_].get('name')):
                                s.discard(('null', ap))
                                s.add(('nn', ap))
                t = cond_null_test(n.ast)
                if t and t[0] not in tested:
                    t = None                 # (`flag == false` also looks like a NULL test: it is an equality test here)
                if t:
                    isnull = (lab == 'T') == t[1]
                    if (('nn' if isnull else 'null'), t[0]) in s:
                        return None
                    s.add(('null' if isnull else 'nn', t[0]))
                    return frozenset(s)
                e = _eq_test(n.ast)
                if e and e[0] in discr:
                    p, k, eq_on_true = e
                    eq = (lab == 'T') == eq_on_true
                    for x in s:
                        if x[0] == 'eq' and x[1] == p:
                            if x[2] == k and x[3] != eq:
                                return None
                            if x[2] != k and x[3] and eq:
                                return None
                    s.add(('eq', p, k, eq))
                    return frozenset(s)
                return frozenset(s)

            def kill(s, root, fields_only=False):
                out = set()
                for x in s:
                    p = x[1]
                    if fields_only:
                        if p != root and _rooted(p, root):
                            continue
                    elif _rooted(p, root):
                        continue
                    out.add(x)
                return out

            def transfer(n, st):
                if not isinstance(n.ast, dict) or n.kind == 'macro':
                    return st
                s = set(st)
                for ev in node_events(n):
                    if ev[0] in ('assign', 'update'):
                        lp = access_path(ev[1])
                        if lp:
                            s = kill(s, lp)
                            if ev[0] == 'assign' and lp and len(ev) > 2 and ev[2] is not None:
                                k = _const_key(ev[2])
                                if k and lp in discr and not (qtype(strip(ev[1])) or '').rstrip().endswith('*'):
                                    s.add(('eq', lp, k, True))
                    elif ev[0] == 'decl':
                        s = kill(s, ev[1].get('name'))
                    elif ev[0] == 'call':
                        for a in children(ev[1])[1:]:
                            sa = strip(a)
                            if sa.get('kind') == 'UnaryOperator' and sa.get('opcode') == '&':
                                xp = access_path(children(sa)[0])
                                if xp:
                                    s = kill(s, xp)
                            else:
                                ap = access_path(sa)
                                if ap and (qtype(sa) or '').rstrip().endswith('*'):
                                    s = kill(s, ap, fields_only=True)
                return frozenset(s)

            states, truncated = _propagate(f, transfer, branch)
            if truncated:
                rep.not_analysed.append('%s: state cap reached in %s' % (rid, f.name))
                continue
            by_param = {}
            for (n, p, expr) in derefs:
                sts = states.get(n.id, ())
                # the dereference may sit in the same node as, and after, nothing that changes the facts: use the entry states
                bad = [st for st in sts if ('nn', p) not in st]
                by_param.setdefault(p, []).append((n, expr, bool(bad)))
            for p, lst in sorted(by_param.items()):
                rep.instance(rid)
                bad = [(n, e) for (n, e, b) in lst if b]
                rep.oblige(rid, not bad, {'function': f.name, 'parameter': p, 'dereferences': len(lst)})
                if bad:
                    n, e = bad[0]
                    rep.violation(rid, f, e.get('_line') or n.line, 'nullderef:%s' % p,
                                  '%s compares its parameter %s with NULL elsewhere, but %s dereferences it on a path that has not passed '
                                  'the non-NULL outcome of such a test: input that reaches this point with %s == NULL (the top level of a '
                                  'document) crashes the parser instead of being reported' % (f.name, p, canon(e)[:60], p))
