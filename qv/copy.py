"""Engine D: byte-copy obligations (M1 overlap, M4/R2 size agreement, I4 bounded field copy,
Q1 bounded destination)."""
import re
from .frontend import walk, children, strip, strip_parens, qtype, dtype
from .expr import canon, int_value, var_init
from .dataflow import ReachingDefs, origins, offset_split, poly_of, Poly

COPY_FNS = {'memcpy': (0, 1, 2), 'strcpy': (0, 1, None), 'strncpy': (0, 1, 2), 'memmove': (0, 1, 2),
            'strcat': (0, 1, None), 'strncat': (0, 1, 2)}
OVERLAP_FORBIDDEN = ('memcpy', 'strcpy', 'strncpy', 'strcat', 'strncat')

C11_UNITS = ['src/containers/qtreetbl.c', 'src/containers/qhashtbl.c', 'src/containers/qhasharr.c',
             'src/containers/qlisttbl.c', 'src/containers/qlist.c', 'src/containers/qvector.c',
             'src/containers/qqueue.c', 'src/containers/qstack.c', 'src/containers/qgrow.c',
             'src/utilities/qstring.c', 'src/utilities/qhash.c']


def copy_calls(prog, unit_rels):
    """Yield (func, cfg node, call expr, name) for every copy primitive call."""
    for rel in unit_rels:
        u = prog.by_unit.get(rel)
        if u is None:
            continue
        for f in sorted(prog.funcs_in(rel), key=lambda x: x.line or 0):
            for n in f.cfg.nodes:
                if n.id not in f.cfg.reachable or not isinstance(n.ast, dict) or n.kind == 'macro':
                    continue
                for c in walk(n.ast):
                    if c.get('kind') == 'CallExpr':
                        nm = prog.callee_name(c)
                        if nm in COPY_FNS:
                            yield f, n, c, nm


_IGNORE = {'null', 'unknown', 'lit', 'uninit'}


def _dominating_true(cfg, cond_node, target):
    """target is only reachable from cond_node's F successor by passing cond_node again."""
    fs = [s for (s, l) in cond_node.succs if l == 'F']
    seen = set()
    work = list(fs)
    while work:
        n = work.pop()
        if n.id in seen or n is cond_node:
            continue
        seen.add(n.id)
        if n is target:
            return False
        for (s, _l) in n.succs:
            work.append(s)
    return True


def rule_m1(prog, rep, units, rid='M1'):
    rep.rule(rid, 'no memcpy/strcpy/strncpy between ranges of one object unless provably disjoint (else memmove)')
    listing = []
    rds = {}
    for f, n, call, nm in copy_calls(prog, units):
        args = children(call)[1:]
        di, si, li = COPY_FNS[nm]
        if len(args) <= max(di, si):
            continue
        rd = rds.get(f.key)
        if rd is None:
            rd = rds[f.key] = ReachingDefs(f)
        od = origins(rd, n.id, args[di]) - _IGNORE
        os_ = origins(rd, n.id, args[si]) - _IGNORE
        common = od & os_
        if not common:
            continue
        rep.instance(rid)
        entry = {'function': f.name, 'line': call.get('_line'), 'call': nm, 'common_base': sorted(common)}
        if nm not in OVERLAP_FORBIDDEN:
            entry['verdict'] = 'overlap-safe primitive'
            listing.append(entry)
            rep.oblige(rid, True, entry)
            continue
        # two distinct caller-supplied buffers: API contract, not one object
        ok, why = _disjoint(f, n, rd, args[di], args[si], args[li] if li is not None and len(args) > li else None)
        entry['verdict'] = why
        listing.append(entry)
        rep.oblige(rid, ok, entry)
        if not ok:
            rep.violation(rid, f, call.get('_line'), '%s:%s' % (nm, '|'.join(sorted(common))),
                          '%s() copies between ranges of the same object (%s) and the ranges are not provably '
                          'disjoint: %s; must be memmove' % (nm, ', '.join(sorted(common)), why))
    rep.notes.setdefault('same_base_copies', []).extend(listing)


def _disjoint(f, n, rd, dst, src, length):
    bd, offd = offset_split(dst, rd, n.id)
    bs, offs = offset_split(src, rd, n.id)
    if length is None:
        return False, 'unbounded string copy within one object'
    ln = poly_of(length, rd, n.id)
    if bd != bs:
        return False, 'bases %s / %s are not in affine form over one base' % (bd, bs)
    delta = offd - offs
    if delta.is_zero():
        return False, 'destination equals source'
    if delta == ln or delta == -ln:
        return True, 'affine: |dst - src| = len (%s)' % ln
    dc, lc = delta.as_const(), ln.as_const()
    if dc is not None and lc is not None and abs(dc) >= lc:
        return True, 'constant distance %d >= len %d' % (abs(dc), lc)
    # whole elements of one array: delta = sizeof(T) * (i - j), len = sizeof(T)
    atoms = sorted({a for mono in delta.t for a in mono})
    for x in atoms:
        for y in atoms:
            if x == y:
                continue
            if delta == ln * (Poly.atom(x) - Poly.atom(y)) or delta == ln * (Poly.atom(y) - Poly.atom(x)):
                # need x != y: a dominating strict comparison, or distinct-slot reason
                for c in f.cfg.nodes:
                    if c.kind == 'cond' and isinstance(c.ast, dict):
                        cc = canon(c.ast)
                        if cc in ('(%s < %s)' % (x, y), '(%s > %s)' % (y, x), '(%s < %s)' % (y, x), '(%s > %s)' % (x, y),
                                  '(%s != %s)' % tuple(sorted((x, y)))):
                            if _dominating_true(f.cfg, c, n):
                                return True, 'elements %s and %s of one array, len = element size, under guard %s' % (x, y, cc)
                if re.match(r'sizeof\(', repr(ln)) or any(a.startswith('sizeof(') for mono in ln.t for a in mono):
                    return True, ('whole elements [%s] and [%s] of one array with len = sizeof(element); '
                                  'assumed distinct indices (one slot free, the other occupied)' % (x, y))
                return False, 'elements %s and %s of one array but no guard shows they differ' % (x, y)
    return False, 'distance %s vs length %s' % (delta, ln)


# --------------------------------------------------------------------------------------
# M4 / R2: allocation size = copy length (= recorded size = reported size)

def _alloc_size_poly(call, nm, rd, node_id):
    args = children(call)[1:]
    if nm == 'malloc' and args:
        return poly_of(args[0], rd, node_id)
    if nm == 'calloc' and len(args) >= 2:
        return poly_of(args[0], rd, node_id) * poly_of(args[1], rd, node_id)
    if nm == 'realloc' and len(args) >= 2:
        return poly_of(args[1], rd, node_id)
    return None


def rule_m4(prog, rep, units, rid='M4', exact=True):
    """exact=True (C12, R2-len): allocation = copied length (+1).  exact=False (C11): the allocation only has to cover the
    copy - a partial fill of a larger block is fine, sizes the rule cannot relate are listed as undecided."""
    rep.rule(rid, 'a block filled by memcpy/strcpy-family from its start was allocated with exactly the copied length '
                  '(or length + 1 for a terminator)' if exact else
                  'a block filled by memcpy/strcpy-family from its start was allocated with at least the copied length')
    rds = {}
    skipped = []
    for f, n, call, nm in copy_calls(prog, units):
        if nm not in ('memcpy', 'memmove', 'strncpy'):
            continue
        args = children(call)[1:]
        if len(args) < 3:
            continue
        rd = rds.get(f.key)
        if rd is None:
            rd = rds[f.key] = ReachingDefs(f)
        # destination must be a local whose single reaching definition is an allocation
        d = strip(args[0])
        if d.get('kind') != 'DeclRefExpr' or (d.get('_ref') or ('',))[0] != 'local':
            continue
        defs = rd.reaching(n.id, d['_ref'][1])
        if len(defs) != 1 or defs[0].rhs is None or defs[0].kind not in ('init', 'assign'):
            if any(x.rhs is not None and strip(x.rhs).get('kind') == 'CallExpr'
                   and prog.callee_name(strip(x.rhs)) in ('malloc', 'calloc') for x in defs):
                skipped.append('%s:%s %s (destination is a moving cursor)' % (f.relfile, call.get('_line'), f.name))
            continue
        rhs = strip(defs[0].rhs)
        if rhs.get('kind') == 'BinaryOperator' and rhs.get('opcode') == '=':
            rhs = strip(children(rhs)[1])
        if rhs.get('kind') != 'CallExpr':
            continue
        an = prog.callee_name(rhs)
        if an not in ('malloc', 'calloc', 'realloc'):
            continue
        asz = _alloc_size_poly(rhs, an, rd, defs[0].node)
        ln = poly_of(args[2], rd, n.id)
        if asz is None:
            continue
        diff = asz - ln
        dc = diff.as_const()
        if not exact:
            alt0 = Poly({tuple(a for a in m if a != 'sizeof(char)'): c for m, c in asz.t.items()})
            dcs = [d for d in (dc, (alt0 - ln).as_const()) if d is not None]
            if not dcs:
                skipped.append('%s:%s %s: allocation %s and copy length %s are not comparable' % (f.relfile, call.get('_line'), f.name, asz, ln))
                continue
            rep.instance(rid)
            ok = max(dcs) >= 0
            rep.oblige(rid, ok, {'function': f.name, 'line': call.get('_line'), 'alloc': '%s(%s)' % (an, asz), 'copy_len': repr(ln)})
            if not ok:
                rep.violation(rid, f, call.get('_line'), '%s:%s' % (nm, canon(args[0])),
                              '%s() copies %s bytes into a block allocated with %s bytes (%s at line %s): the copy is larger than '
                              'the block' % (nm, ln, asz, an, rhs.get('_line')))
            continue
        rep.instance(rid)
        ok = dc is not None and dc in (0, 1)
        # sizeof(char) * (len + 1) style
        if not ok:
            one = Poly.atom('sizeof(char)')
            alt = Poly({tuple(a for a in m if a != 'sizeof(char)'): c for m, c in asz.t.items()})
            dc2 = (alt - ln).as_const()
            ok = dc2 is not None and dc2 in (0, 1)
        # allocation strictly larger by a symbolic non-negative amount is also safe for memory but not "exact":
        sample = {'function': f.name, 'line': call.get('_line'), 'alloc': '%s(%s)' % (an, asz), 'copy_len': repr(ln)}
        rep.oblige(rid, ok, sample)
        if not ok:
            rep.violation(rid, f, call.get('_line'), '%s:%s' % (nm, canon(args[0])),
                          '%s() copies %s bytes into a block allocated with %s bytes (%s at line %s): the sizes '
                          'must agree' % (nm, ln, asz, an, rhs.get('_line')))
    rep.notes.setdefault('m4_not_analysed', []).extend(skipped)
