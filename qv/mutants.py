"""Both-ways tests for the rules (thorough tier): anchored textual edits applied to a scratch
copy of /repo's sources made under /tmp (never inside /repo or /verif) and deleted afterwards.
Every mutant still parses (clang -fsyntax-only is the front end); the property's rules must
fire and name the mutated construct.  A mutant whose anchor text no longer exists in the
current tree is skipped and reported as skipped."""
import os
import shutil
import tempfile

from .frontend import load_program, repo_root, _prog_cache, AnalysisBroken
from .report import Report

# Each mutant: id, prop, file, old, new, rule (expected rule id prefix), func (expected function, optional)
MUTANTS = []


def M(id, prop, file, old, new, rule, func=None, note=''):
    MUTANTS.append(dict(id=id, prop=prop, file=file, old=old, new=new, rule=rule, func=func, note=note))


# ---- C14 -------------------------------------------------------------------------------------
M('c14-hashtbl-put-enomem', 'C14', 'src/containers/qhashtbl.c',
  "        free(dupname);\n        free(dupdata);\n        qhashtbl_unlock(tbl);\n        errno = ENOMEM;\n        return false;\n    }\n    memcpy(dupdata, data, size);",
  "        free(dupname);\n        free(dupdata);\n        errno = ENOMEM;\n        return false;\n    }\n    memcpy(dupdata, data, size);",
  'A-exit', 'qhashtbl_put', 'unlock dropped on the allocation-failure exit')
M('c14-list-addat-erange', 'C14', 'src/containers/qlist.c',
  "        // out of bound\n        qlist_unlock(list);\n", "        // out of bound\n", 'A-exit', 'qlist_addat',
  'unlock dropped on the out-of-range exit')
M('c14-treetbl-findmin-empty', 'C14', 'src/containers/qtreetbl.c',
  "    qtreetbl_obj_t *obj = find_min(tbl->root);\n    if (obj == NULL) {\n        errno = ENOENT;\n        qtreetbl_unlock(tbl);\n",
  "    qtreetbl_obj_t *obj = find_min(tbl->root);\n    if (obj == NULL) {\n        errno = ENOENT;\n",
  'A-exit', 'qtreetbl_find_min', 'unlock dropped on the empty-table exit')
M('c14-vector-double-lock', 'C14', 'src/containers/qvector.c',
  "void qvector_clear(qvector_t *vector) {\n    vector->lock(vector);",
  "void qvector_clear(qvector_t *vector) {\n    vector->lock(vector);\n    vector->lock(vector);",
  'A-exit', 'qvector_clear', 'extra acquire')
M('c14-qlog-write', 'C14', 'src/extensions/qlog.c',
  "    Q_MUTEX_LEAVE(log->qmutex);\n\n    return ret;\n}",
  "    return ret;\n}", 'A-exit', None, 'qlog write path without release')
M('c14-mutex-reassign', 'C14', 'src/containers/qlist.c',
  "size_t qlist_setsize(qlist_t *list, size_t max) {\n    qlist_lock(list);",
  "size_t qlist_setsize(qlist_t *list, size_t max) {\n    qlist_lock(list);\n    if (max == 0) list->qmutex = list->qmutex;",
  'A-mutex-field', 'qlist_setsize', 'mutex field written outside the constructor')

# ---- C13 -------------------------------------------------------------------------------------
M('c13-hashtbl-remove-nolock', 'C13', 'src/containers/qhashtbl.c',
  "    qhashtbl_lock(tbl);\n\n    uint32_t hash = qhashmurmur3_32(name, strlen(name));\n    int idx = hash % tbl->range;\n\n    // find key\n    bool found = false;",
  "    uint32_t hash = qhashmurmur3_32(name, strlen(name));\n    int idx = hash % tbl->range;\n    if (tbl->slots[idx] == NULL) { errno = ENOENT; return false; }\n    qhashtbl_lock(tbl);\n\n    // find key\n    bool found = false;",
  'B-guard', 'qhashtbl_remove', 'fast-path emptiness test before the lock')
M('c13-list-num-after-unlock', 'C13', 'src/containers/qlist.c',
  "    list->datasum += size;\n    list->num++;\n\n    qlist_unlock(list);\n",
  "    list->datasum += size;\n\n    qlist_unlock(list);\n    list->num++;\n",
  'B-guard', 'qlist_addat', 'counter update moved after the unlock')
M('c13-treetbl-put-split', 'C13', 'src/containers/qtreetbl.c',
  "    qtreetbl_lock(tbl);\n    errno = 0;\n    qtreetbl_obj_t *root = put_obj(",
  "    qtreetbl_lock(tbl);\n    bool isempty = (tbl->root == NULL);\n    qtreetbl_unlock(tbl);\n    (void)isempty;\n    qtreetbl_lock(tbl);\n    errno = 0;\n    qtreetbl_obj_t *root = put_obj(",
  'B-single', 'qtreetbl_putobj', 'critical section split in two')
M('c13-vector-getat-unlocked', 'C13', 'src/containers/qvector.c',
  "void *qvector_getat(qvector_t *vector, int index, bool newmem) {\n    vector->lock(vector);\n    void *data = get_at(vector, index, newmem);\n    vector->unlock(vector);",
  "void *qvector_getat(qvector_t *vector, int index, bool newmem) {\n    void *data = get_at(vector, index, newmem);",
  'B-guard', 'get_at', 'helper called without the lock')
M('c13-listtbl-clear-unlocked-num', 'C13', 'src/containers/qlisttbl.c',
  "    tbl->num = 0;\n    tbl->first = NULL;\n    tbl->last = NULL;\n    qlisttbl_unlock(tbl);",
  "    tbl->first = NULL;\n    tbl->last = NULL;\n    qlisttbl_unlock(tbl);\n    tbl->num = 0;",
  'B-guard', 'qlisttbl_clear', 'counter reset after the unlock')

# ---- C11 -------------------------------------------------------------------------------------
M('c11-vector-memmove-to-memcpy', 'C11', 'src/containers/qvector.c',
  "    memmove(dst, src, size);\n\n    return true;", "    memcpy(dst, src, size);\n\n    return true;",
  'M1', 'remove_at', 'overlap-safe shift replaced by memcpy')
M('c11-string-trim-memcpy', 'C11', 'src/utilities/qstring.c',
  "        size_t len = (se - ss) + 1;\n        memmove(str, ss, len);\n    }\n\n    return str;",
  "        size_t len = (se - ss) + 1;\n        memcpy(str, ss, len);\n    }\n\n    return str;", 'M1', None, 'in-place trim with memcpy')
M('c11-treetbl-leak-node', 'C11', 'src/containers/qtreetbl.c',
  "        free(obj->name);\n        free(obj->data);\n        free(obj);\n        return NULL;\n    }\n    if (!is_red(obj->left) && !is_red(obj->left->left)) {",
  "        free(obj->name);\n        free(obj->data);\n        return NULL;\n    }\n    if (!is_red(obj->left) && !is_red(obj->left->left)) {",
  'M2', 'remove_min', 'node not freed')
M('c11-hashtbl-leak-name', 'C11', 'src/containers/qhashtbl.c',
  "            // remove\n            free(obj->name);\n            free(obj->data);\n            free(obj);",
  "            // remove\n            free(obj->data);\n            free(obj);", 'M2', 'qhashtbl_remove', 'key copy not freed')
M('c11-list-uaf-order', 'C11', 'src/containers/qlist.c',
  "    // release obj\n    free(obj->data);\n    free(obj);", "    // release obj\n    free(obj);\n    free(obj->data);",
  'M3', 'remove_obj', 'field freed after its node')
M('c11-listtbl-clear-uaf', 'C11', 'src/containers/qlisttbl.c',
  "        qlisttbl_obj_t *next = obj->next;\n        free(obj->name);\n        free(obj->data);\n        free(obj);\n        obj = next;",
  "        free(obj->name);\n        free(obj->data);\n        free(obj);\n        obj = obj->next;",
  'M3', 'qlisttbl_clear', 'next link read from a freed node')
M('c11-hashtbl-get-short-alloc', 'C11', 'src/containers/qhashtbl.c',
  "            data = malloc(obj->size);\n            if (data == NULL) {\n                qhashtbl_unlock(tbl);",
  "            data = malloc(obj->size - 1);\n            if (data == NULL) {\n                qhashtbl_unlock(tbl);",
  'M4', 'qhashtbl_get', 'allocation one byte shorter than the copy')
M('c11-fnv-deref-first', 'C11', 'src/utilities/qhash.c',
  "    uint32_t h = 0x811C9DC5;\n\n    for (dp = (unsigned char *) data; nbytes > 0; dp++, nbytes--) {",
  "    uint32_t h = 0x811C9DC5;\n\n    for (dp = (unsigned char *) data; *dp && nbytes > 0; dp++, nbytes--) {",
  'H2', 'qhashfnv1_32', 'dereference before the count test')

# ---- C15 -------------------------------------------------------------------------------------
M('c15-mutex-new-unchecked', 'C15', 'src/internal/qinternal.h',
  "        if (x == NULL) {                                                \\\n            m = NULL;                                                   \\\n            break;                                                      \\\n        }                                                               \\\n",
  "", 'A1', None, 'calloc result of the mutex object unchecked')
M('c15-treetbl-count-first', 'C15', 'src/containers/qtreetbl.c',
  "        qtreetbl_obj_t *newobj = new_obj(true, name, namesize, data, datasize);\n        if (newobj != NULL) {\n            tbl->num++;\n        }\n        return newobj;",
  "        tbl->num++;\n        return new_obj(true, name, namesize, data, datasize);", 'A2', 'put_obj', 'count before allocation')
M('c15-list-obj-unchecked', 'C15', 'src/containers/qlist.c',
  "    if (obj == NULL) {\n        free(dup_data);\n        qlist_unlock(list);\n        errno = ENOMEM;\n        return false;\n    }\n    obj->data = dup_data;",
  "    obj->data = dup_data;", 'A1', 'qlist_addat', 'node allocation unchecked')
M('c15-list-leak-dup', 'C15', 'src/containers/qlist.c',
  "    if (obj == NULL) {\n        free(dup_data);\n        qlist_unlock(list);", "    if (obj == NULL) {\n        qlist_unlock(list);",
  'A3', 'qlist_addat', 'first allocation leaked when the second fails')
M('c15-listtbl-realloc-self', 'C15', 'src/containers/qlisttbl.c',
  "            qlisttbl_data_t *newobjs = (qlisttbl_data_t *)realloc(objs, sizeof(qlisttbl_data_t) * allocobjs);\n            if (newobjs == NULL) {",
  "            qlisttbl_data_t *newobjs = objs = (qlisttbl_data_t *)realloc(objs, sizeof(qlisttbl_data_t) * allocobjs);\n            if (newobjs == NULL) {",
  'A3', 'qlisttbl_getmulti', 'realloc result overwrites the only pointer')
M('c15-vector-ctor-leak', 'C15', 'src/containers/qvector.c',
  "            free(vector->data);\n            free(vector);\n            errno = ENOMEM;", "            free(vector);\n            errno = ENOMEM;",
  'M2f', 'qvector', 'element buffer leaked on constructor failure')
M('c15-hashtbl-getnext-unchecked', 'C15', 'src/containers/qhashtbl.c',
  "            if (obj->name == NULL || obj->data == NULL) {\n                DEBUG(\"getnext(): Unable to allocate memory.\");",
  "            if (obj->name == NULL) {\n                DEBUG(\"getnext(): Unable to allocate memory.\");",
  'A1', 'qhashtbl_getnext', 'value copy used unchecked')

# ---- C12 -------------------------------------------------------------------------------------
M('c12-hashtbl-keep-name', 'C12', 'src/containers/qhashtbl.c',
  "    obj->name = dupname;\n    obj->data = dupdata;", "    obj->name = (char *) name;\n    obj->data = dupdata;\n    free(dupname);",
  'R1', 'qhashtbl_put', "caller's key pointer kept")
M('c12-list-keep-data', 'C12', 'src/containers/qlist.c',
  "    obj->data = dup_data;\n    obj->size = size;", "    obj->data = (size > 64) ? (void *) data : dup_data;\n    obj->size = size;",
  'R1', 'qlist_addat', "caller's buffer kept for large elements")
M('c12-treetbl-find-min-internal', 'C12', 'src/containers/qtreetbl.c',
  "    void *name = qmemdup(obj->name, obj->namesize);\n    qtreetbl_unlock(tbl);\n    return name;\n}\n\n/**\n * qtreetbl->find_max()",
  "    void *name = obj->name;\n    qtreetbl_unlock(tbl);\n    return name;\n}\n\n/**\n * qtreetbl->find_max()",
  'R3', 'qtreetbl_find_min', 'internal key pointer handed out')
M('c12-listtbl-get-internal', 'C12', 'src/containers/qlisttbl.c',
  "        if (newmem == true) {\n            data = malloc(obj->size);\n            if (data == NULL) {\n                errno = ENOMEM;\n                qlisttbl_unlock(tbl);\n                return NULL;\n            }\n            memcpy(data, obj->data, obj->size);\n        } else {",
  "        if (newmem == true && obj->size > sizeof(void *)) {\n            data = malloc(obj->size);\n            if (data == NULL) {\n                errno = ENOMEM;\n                qlisttbl_unlock(tbl);\n                return NULL;\n            }\n            memcpy(data, obj->data, obj->size);\n        } else {",
  'R3', 'qlisttbl_get', 'small values returned by reference despite the copy flag')
M('c12-vector-getnext-internal', 'C12', 'src/containers/qvector.c',
  "        memcpy(dump, data, vector->objsize);\n        obj->data = dump;", "        memcpy(dump, data, vector->objsize);\n        free(dump);\n        obj->data = data;",
  'R3', 'qvector_getnext', 'cursor receives the internal element address')
M('c12-hashtbl-size-mismatch', 'C12', 'src/containers/qhashtbl.c',
  "    obj->data = dupdata;\n    obj->size = size;", "    obj->data = dupdata;\n    obj->size = size + 1;", 'R2', 'qhashtbl_put',
  'recorded size differs from the copied length')

# ---- C16 -------------------------------------------------------------------------------------
M('c16-url-space-literal', 'C16', 'src/utilities/qencode.c',
  "        00 , 0 , 0 , 0 , 0 , 0 , 0 , 0 , 0 , 0 , 0 , 0 , 0 ,'-','.','/', // 20-2F",
  "        ' ', 0 , 0 , 0 , 0 , 0 , 0 , 0 , 0 , 0 , 0 , 0 , 0 ,'-','.','/', // 20-2F", 'TB1', 'qurl_encode', 'space emitted literally')
M('c16-url-amp-literal', 'C16', 'src/utilities/qencode.c',
  "        00 , 0 , 0 , 0 , 0 , 0 , 0 , 0 , 0 , 0 , 0 , 0 , 0 ,'-','.','/', // 20-2F",
  "        00 , 0 , 0 , 0 , 0 , 0 ,'&', 0 , 0 , 0 , 0 , 0 , 0 ,'-','.','/', // 20-2F", 'TB1', 'qurl_encode', '& emitted literally')
M('c16-b64-alphabet-swap', 'C16', 'src/utilities/qencode.c',
  "'w','x','y','z','0','1','2','3','4','5','6','7','8','9','+','/'", "'w','x','y','z','0','1','2','3','4','5','6','7','8','9','-','_'",
  'TB2', 'qbase64_encode', 'URL-safe alphabet instead of the standard one')
M('c16-b64-map-entry', 'C16', 'src/utilities/qencode.c',
  "        52, 53, 54, 55, 56, 57, 58, 59, 60, 61, 64, 64, 64, 64, 64, 64,  // 30-3F",
  "        52, 53, 54, 55, 56, 57, 58, 59, 61, 60, 64, 64, 64, 64, 64, 64,  // 30-3F", 'TB3', 'qbase64_decode', 'two reader entries swapped')
M('c16-hex-upper-missing', 'C16', 'src/utilities/qencode.c',
  "        0, 10, 11, 12, 13, 14, 15,  0,  0,  0,  0,  0,  0,  0,  0,  0, // 40-4F",
  "        0,  0,  0,  0,  0,  0,  0,  0,  0,  0,  0,  0,  0,  0,  0,  0, // 40-4F", 'TB4', 'qhex_decode', 'upper-case hex digits not accepted')
M('c16-hex-writer-upper', 'C16', 'src/utilities/qencode.c',
  "'0','1','2','3','4','5','6','7','8','9','a','b','c','d','e','f'\n", "'0','1','2','3','4','5','6','7','8','9','A','B','C','D','E','F'\n",
  'TB4', 'qhex_encode', 'upper-case hex output')
M('c16-b64-pad-swapped', 'C16', 'src/utilities/qencode.c',
  "(nIdxOfThree >= 2) ? B64CHARTBL[(szIn[2] & 0x3F)] : '='", "(nIdxOfThree >= 2) ? '=' : B64CHARTBL[(szIn[2] & 0x3F)]",
  'TB5', 'qbase64_encode', 'padding on the wrong arm')
M('c16-b64-alloc-short', 'C16', 'src/utilities/qencode.c',
  "4 * ((size / 3) + ((size % 3 == 0) ? 0 : 1)) + 1", "4 * ((size / 3) + ((size % 3 == 0) ? 0 : 1))",
  'TB5', 'qbase64_encode', 'no room for the terminator')
M('c16-b64-signed-index', 'C16', 'src/utilities/qencode.c',
  "B64MAPTBL[(unsigned char) (*pEncPt)]", "B64MAPTBL[(int) (*pEncPt)]", 'TB6', 'qbase64_decode', 'signed index')
M('c16-url-plus-dropped', 'C16', 'src/utilities/qencode.c',
  "            case '+': {\n                *pBinPt++ = ' ';\n                break;\n            }\n", "", 'TB7', 'qurl_decode', 'plus no longer decodes to space')
M('c16-x2c-casefold', 'C16', 'src/internal/qinternal.c',
  "(hex_low >= 'A' ? ((hex_low & 0xdf) - 'A') + 10", "(hex_low >= 'A' ? (hex_low - 'A') + 10", 'TB14', '_q_x2c', 'low nibble not case-folded')

# ---- C07 -------------------------------------------------------------------------------------
M('c07-slot-pointer-member', 'C07', 'include/qlibc/containers/qhasharr.h',
  "    int link;          /*!< next link */", "    int link;          /*!< next link */\n    struct qhasharr_slot_s *nextp;",
  'I1', None, 'pointer member added to the slot')
M('c07-attach-memset', 'C07', 'src/containers/qhasharr.c',
  "        // Set memory.\n        memset((void *) tbldata, 0, memsize);\n        tbldata->maxslots = maxslots;\n        tbldata->usedslots = 0;\n        tbldata->num = 0;\n    }\n",
  "        // Set memory.\n        memset((void *) tbldata, 0, memsize);\n        tbldata->maxslots = maxslots;\n    }\n    tbldata->usedslots = 0;\n    tbldata->num = 0;\n",
  'I3', 'qhasharr', 'counters reset also in attach mode')
M('c07-datasize-knob-300', 'C07', 'include/qlibc/containers/qhasharr.h',
  "#define Q_HASHARR_DATASIZE (32)", "#define Q_HASHARR_DATASIZE (300)", 'I4', 'put_data', 'in-slot value size no longer fits the uint8_t length field')
M('c07-name-clamp-off-by-one', 'C07', 'src/containers/qhasharr.c',
  "(namesize < Q_HASHARR_NAMESIZE) ? namesize : Q_HASHARR_NAMESIZE);", "(namesize < Q_HASHARR_NAMESIZE) ? namesize : Q_HASHARR_NAMESIZE + 1);",
  'I4', 'put_data', 'key prefix copy one byte past the name field')
M('c07-ext-clamp-dropped', 'C07', 'src/containers/qhasharr.c',
  "            if (copysize > sizeof(struct Q_HASHARR_SLOT_EXT)) {\n                copysize = sizeof(struct Q_HASHARR_SLOT_EXT);\n            }\n", "",
  'I4', 'put_data', 'extension block copy unclamped')
M('c07-counter-in-remove-slot', 'C07', 'src/containers/qhasharr.c',
  "    tblslots[idx].count = 0;\n    return true;", "    tblslots[idx].count = 0;\n    tbl->data->usedslots--;\n    return true;",
  'I5', 'remove_slot', 'used-slot counter also written by remove_slot (moves would double count)')
M('c07-move-no-remove', 'C07', 'src/containers/qhasharr.c',
  "        copy_slot(tbl, idx, hash);\n        remove_slot(tbl, hash);\n", "        copy_slot(tbl, idx, hash);\n        tblslots[hash].datasize = 0;\n",
  'I6', 'qhasharr_put_by_obj', 'moved slot not released')
M('c07-promote-no-backlink', 'C07', 'src/containers/qhasharr.c',
  "        tblslots[idx].count = backupcount - 1;  // adjust collision counter\n        if (tblslots[idx].link != -1) {\n            tblslots[tblslots[idx].link].hash = idx;\n        }\n",
  "        tblslots[idx].count = backupcount - 1;  // adjust collision counter\n", 'I6', 'qhasharr_remove_by_idx', 'back-link of the value chain not repaired after promotion')

# ---- C01 / C04 -------------------------------------------------------------------------------
M('c01-find-swapped', 'C01', 'src/containers/qtreetbl.c',
  "        obj = (cmp < 0) ? obj->left : obj->right;", "        obj = (cmp < 0) ? obj->right : obj->left;", 'T2', 'find_obj', 'lookup descends the wrong way')
M('c01-put-eq-order', 'C01', 'src/containers/qtreetbl.c',
  "    if (cmp == 0) {  // existing key found", "    if (cmp == 0 && datasize == 0) {  // existing key found", 'T2', 'put_obj', 'equal key can descend')
M('c01-rotate-discarded', 'C01', 'src/containers/qtreetbl.c',
  "    if (is_red(obj->right) && !is_red(obj->left)) {\n        obj = rotate_left(obj);", "    if (is_red(obj->right) && !is_red(obj->left)) {\n        rotate_left(obj);",
  'T3', 'put_obj', 'rotation result dropped')
M('c01-wrong-link', 'C01', 'src/containers/qtreetbl.c',
  "        obj->right = rotate_right(obj->right);\n        obj = rotate_left(obj);\n        flip_color(obj);", "        obj->left = rotate_right(obj->right);\n        obj = rotate_left(obj);\n        flip_color(obj);",
  'T3', 'move_red_left', 'result stored into the other link')
M('c01-root-not-stored', 'C01', 'src/containers/qtreetbl.c',
  "    tbl->root = remove_obj(tbl, tbl->root, name, namesize);\n    if (tbl->root != NULL) {\n        tbl->root->red = false;\n    }",
  "    qtreetbl_obj_t *newroot = remove_obj(tbl, tbl->root, name, namesize);\n    if (newroot != NULL) {\n        newroot->red = false;\n    }",
  'T3-root', 'qtreetbl_removeobj', 'new root never stored')
M('c01-replace-counts', 'C01', 'src/containers/qtreetbl.c',
  "            free(obj->data);\n            obj->data = copydata;\n            obj->datasize = datasize;", "            free(obj->data);\n            obj->data = copydata;\n            obj->datasize = datasize;\n            tbl->num++;",
  'T4', 'put_obj', 'count bumped on value replacement')
M('c01-remove-uncounted', 'C01', 'src/containers/qtreetbl.c',
  "                free(obj);\n                tbl->num--;\n                return NULL;", "                free(obj);\n                return NULL;", 'T4', None, 'leaf removal not counted')
M('c01-strcmp-fastpath', 'C01', 'src/containers/qtreetbl.c',
  "        int cmp = tbl->compare(name, namesize, obj->name, obj->namesize);\n        if (cmp == 0) {\n            return obj;",
  "        int cmp = tbl->compare(name, namesize, obj->name, obj->namesize);\n        if (cmp == 0 || !strcmp(name, obj->name)) {\n            return obj;",
  'T1', 'find_obj', 'string comparison bypasses the configured ordering')
M('c04-no-reset', 'C04', 'src/containers/qtreetbl.c',
  "        tbl->root->next = NULL;\n    }\n    qtreetbl_obj_t *obj, *lastobj;", "    }\n    qtreetbl_obj_t *obj, *lastobj;", 'T5', 'qtreetbl_find_nearest', 'root parent link not cleared before the climb')
M('c04-no-parent-link', 'C04', 'src/containers/qtreetbl.c',
  "            if (obj->right != NULL) {\n                obj->right->next = obj;\n            }\n            obj = obj->right;", "            obj = obj->right;",
  'T5', 'qtreetbl_find_nearest', 'right descent does not record the parent')
M('c04-getnext-no-reset', 'C04', 'src/containers/qtreetbl.c',
  "        tid = reset_iterator(tbl);;", "        tid = ++tbl->tid;", 'T5', 'qtreetbl_getnext', 'first call does not clear the root parent link')
M('c04-descent-swapped', 'C04', 'src/containers/qtreetbl.c',
  "        lastobj = obj;\n        if (cmp < 0) {", "        lastobj = obj;\n        if (cmp > 0) {", 'T2', 'qtreetbl_find_nearest', 'search descends the wrong way')
M('c15-root-dropped', 'C15', 'src/containers/qtreetbl.c',
  "    if (root != NULL) {\n        // the tree may have been restructured on the way down even if the\n        // insertion itself failed, so always keep the returned root.\n        root->red = false;\n        tbl->root = root;\n    }\n    if (root == NULL || errno == ENOMEM) {\n        qtreetbl_unlock(tbl);\n        return false;\n    }\n",
  "    if (root == NULL || errno == ENOMEM) {\n        qtreetbl_unlock(tbl);\n        return false;\n    }\n    root->red = false;\n    tbl->root = root;\n",
  'A4', 'qtreetbl_putobj', 'restructured root dropped on the ENOMEM exit')
M('c15-newobj-value-unchecked', 'C15', 'src/containers/qtreetbl.c',
  "    if (obj == NULL || copyname == NULL\n        || (copydata == NULL && data != NULL && datasize > 0)) {", "    if (obj == NULL || copyname == NULL) {",
  'A1', 'new_obj', 'failed value copy absorbed as an empty value')

# ---- C05 -------------------------------------------------------------------------------------
M('c05-get-other-hash', 'C05', 'src/containers/qhashtbl.c',
  "    uint32_t hash = qhashmurmur3_32(name, strlen(name));\n    int idx = hash % tbl->range;\n\n    qhashtbl_lock(tbl);\n\n    // find key\n    qhashtbl_obj_t *obj;\n    for (obj = tbl->slots[idx]; obj != NULL; obj = obj->next) {\n        if (obj->hash == hash && !strcmp(obj->name, name)) {\n            break;\n        }\n    }\n\n    void *data = NULL;",
  "    uint32_t hash = qhashmurmur3_32(name, strlen(name) + 1);\n    int idx = hash % tbl->range;\n\n    qhashtbl_lock(tbl);\n\n    // find key\n    qhashtbl_obj_t *obj;\n    for (obj = tbl->slots[idx]; obj != NULL; obj = obj->next) {\n        if (obj->hash == hash && !strcmp(obj->name, name)) {\n            break;\n        }\n    }\n\n    void *data = NULL;",
  'S1', 'qhashtbl_get', 'get hashes the terminator too')
M('c05-getnext-resume', 'C05', 'src/containers/qhashtbl.c',
  "        idx = (obj->hash % tbl->range) + 1;", "        idx = (obj->hash % tbl->range);", 'S1', 'qhashtbl_getnext', 'walk resumes in the same slot')
M('c05-remove-hash-only', 'C05', 'src/containers/qhashtbl.c',
  "        if (obj->hash == hash && !strcmp(obj->name, name)) {\n            // adjust link", "        if (obj->hash == hash) {\n            // adjust link",
  'S2', 'qhashtbl_remove', 'remove matches on the hash alone')
M('c05-prev-not-updated', 'C05', 'src/containers/qhashtbl.c',
  "            break;\n        }\n\n        prev = obj;\n    }", "            break;\n        }\n    }", 'S3', 'qhashtbl_remove', 'predecessor never recorded')
M('c05-no-head-case', 'C05', 'src/containers/qhashtbl.c',
  "            if (prev == NULL)\n                tbl->slots[idx] = obj->next;\n            else\n                prev->next = obj->next;", "            if (prev != NULL)\n                prev->next = obj->next;",
  'S3', 'qhashtbl_remove', 'chain head removal not handled')
M('c05-replace-counts', 'C05', 'src/containers/qhashtbl.c',
  "        // replace\n        free(obj->name);\n        free(obj->data);", "        // replace\n        free(obj->name);\n        free(obj->data);\n        tbl->num++;",
  'T4', 'qhashtbl_put', 'replacement counted as a new key')
M('c11-prev-skipped', 'C11', 'src/containers/qhashtbl.c',
  "        if (obj->hash == hash && !strcmp(obj->name, name)) {\n            // adjust link", "        if (obj->hash != hash) continue;\n        if (!strcmp(obj->name, name)) {\n            // adjust link",
  'S3', 'qhashtbl_remove', 'continue skips the predecessor update: intermediate nodes leak')

# ---- C10 -------------------------------------------------------------------------------------
M('c10-resize-zero-objsize', 'C10', 'src/containers/qvector.c',
  "        vector->max = 0;\n        vector->num = 0;\n\n        vector->unlock(vector);", "        vector->max = 0;\n        vector->num = 0;\n        vector->objsize = 0;\n\n        vector->unlock(vector);",
  'V1', 'qvector_resize', 'element size cleared by resize(0)')
M('c10-getat-signed-compare', 'C10', 'src/containers/qvector.c',
  "static void *get_at(qvector_t *vector, int index, bool newmem) {\n    if (index < 0) {\n        index += vector->num;\n    }\n    if (index >= vector->num) {",
  "static void *get_at(qvector_t *vector, int index, bool newmem) {\n    if (index < 0) {\n        index += vector->num;\n    }\n    if (index >= (int) vector->num) {",
  'IDX', 'get_at', 'range check moved to the signed domain: negative indexes pass')
M('c10-removeat-le', 'C10', 'src/containers/qvector.c',
  "static bool remove_at(qvector_t *vector, int index) {\n    if (index < 0) {\n        index += vector->num;\n    }\n    if (index >= vector->num) {",
  "static bool remove_at(qvector_t *vector, int index) {\n    if (index < 0) {\n        index += vector->num;\n    }\n    if (index > vector->num) {",
  'IDX', 'remove_at', 'off-by-one upper bound')
M('c10-addat-no-upper', 'C10', 'src/containers/qvector.c',
  "    if (index > vector->num) {\n        vector->unlock(vector);\n        errno = ERANGE;\n        return false;\n    }\n", "", 'IDX', 'qvector_addat', 'insertion index not range-checked')
M('c10-popat-no-dec', 'C10', 'src/containers/qvector.c',
  "        return NULL;\n    }\n    vector->num--;\n\n    vector->unlock(vector);\n    return data;", "        return NULL;\n    }\n\n    vector->unlock(vector);\n    return data;",
  'VC', 'qvector_popat', 'pop does not decrement the count')
M('c10-remove-dec-on-failure', 'C10', 'src/containers/qvector.c',
  "    bool result = remove_at(vector, index);\n    if (result) {\n        vector->num--;\n    }", "    bool result = remove_at(vector, index);\n    vector->num--;",
  'VC', 'qvector_removeat', 'count decremented even when nothing was removed')
M('c11-vector-index-signed', 'C11', 'src/containers/qvector.c',
  "static void *get_at(qvector_t *vector, int index, bool newmem) {\n    if (index < 0) {\n        index += vector->num;\n    }\n    if (index >= vector->num) {",
  "static void *get_at(qvector_t *vector, int index, bool newmem) {\n    int num = (int) vector->num;\n    if (index < 0) {\n        index += num;\n    }\n    if (index >= num) {",
  'IDX', 'get_at', 'signed comparison lets an index below -n through: read before the buffer')

# ---- rules added after seeded changes were missed ---------------------------------------------
M('c12-move-without-size', 'C12', 'src/containers/qtreetbl.c',
  "            obj->data = minobj->data;\n            obj->datasize = minobj->datasize;", "            obj->data = minobj->data;",
  'R2-move', 'remove_obj', 'successor payload moved up without its size')
M('c12-hasharr-inplace', 'C12', 'src/containers/qhasharr.c',
  "        tblslots[newidx].datasize = copysize;\n        savesize += copysize;", "        savesize += copysize;", 'I7', 'put_data', 'stored length not updated')
M('c07-hasharr-len-missing', 'C07', 'src/containers/qhasharr.c',
  "        tblslots[newidx].datasize = copysize;\n        savesize += copysize;", "        tblslots[newidx].datasize = datasize;\n        savesize += copysize;", 'I', 'put_data', 'stored length is the total, not the slot share')
M('c11-realloc-zero', 'C11', 'src/containers/qvector.c',
  "    if (newmax == 0) {\n        free(vector->data);\n        vector->data = NULL;\n        vector->max = 0;\n        vector->num = 0;\n\n        vector->unlock(vector);\n        return true;\n    }\n", "",
  'M5', 'qvector_resize', 'resize(0) reaches realloc(p, 0)')

# ---- C18 -------------------------------------------------------------------------------------
M('c18-m32-rot', 'C18', 'src/utilities/qhash.c', "        h = (h << 13) | (h >> (32 - 13));", "        h = (h << 13) | (h >> (32 - 14));", 'H3-m32', 'qhashmurmur3_32', 'malformed rotate')
M('c18-m32-const', 'C18', 'src/utilities/qhash.c', "    h *= 0x85ebca6b;", "    h *= 0x85ebca6d;", 'H3-m32', 'qhashmurmur3_32', 'finaliser constant changed')
M('c18-m32-tail-shift', 'C18', 'src/utilities/qhash.c', "            k ^= tail[1] << 8;", "            k ^= tail[1] << 16;", 'H3-m32', 'qhashmurmur3_32', 'tail byte law broken')
M('c18-m32-len-missing', 'C18', 'src/utilities/qhash.c', "    h ^= nbytes;\n\n    h ^= h >> 16;", "    h ^= h >> 16;", 'H3-m32', 'qhashmurmur3_32', 'length not mixed in')
M('c18-m32-nblocks', 'C18', 'src/utilities/qhash.c', "    const int nblocks = nbytes / 4;", "    const int nblocks = (nbytes + 3) / 4;", 'H3-m32', 'qhashmurmur3_32', 'reads past the buffer / wrong framing')
M('c18-m128-swap', 'C18', 'src/utilities/qhash.c', "        k2 *= c2;\n        k2 = (k2 << 33) | (k2 >> (64 - 33));\n        k2 *= c1;\n        h2 ^= k2;\n\n        h2 = (h2 << 31)",
  "        k2 *= c1;\n        k2 = (k2 << 33) | (k2 >> (64 - 33));\n        k2 *= c2;\n        h2 ^= k2;\n\n        h2 = (h2 << 31)", 'H3-m128', 'qhashmurmur3_128', 'c1/c2 swapped in the second lane')
M('c18-m128-case-break', 'C18', 'src/utilities/qhash.c', "        case 12:\n            k2 ^= (uint64_t)(tail[11]) << 24;", "        case 12:\n            k2 ^= (uint64_t)(tail[11]) << 24;\n            break;", 'H3-m128', 'qhashmurmur3_128', 'fall-through interrupted')
M('c18-m128-fmix', 'C18', 'src/utilities/qhash.c', "    h2 ^= h2 >> 33;\n    h2 *= 0xff51afd7ed558ccdULL;", "    h2 ^= h2 >> 31;\n    h2 *= 0xff51afd7ed558ccdULL;", 'H3-m128', 'qhashmurmur3_128', 'fmix shift changed')
M('c18-fnv1a-order', 'C18', 'src/utilities/qhash.c', "        h += (h<<1) + (h<<4) + (h<<7) + (h<<8) + (h<<24);\n#else\n        h *= 0x01000193;\n#endif\n        h ^= *dp;",
  "        h ^= *dp;\n        h += (h<<1) + (h<<4) + (h<<7) + (h<<8) + (h<<24);\n#else\n        h *= 0x01000193;\n#endif", 'H4-fnv', 'qhashfnv1_32', 'FNV-1a order')
M('c18-fnv-prime', 'C18', 'src/utilities/qhash.c', "(h<<1) + (h<<4) + (h<<7) + (h<<8) + (h<<24);", "(h<<1) + (h<<4) + (h<<7) + (h<<9) + (h<<24);", 'H4-fnv', 'qhashfnv1_32', 'wrong prime via shift-add')
M('c18-fnv-nul-stop', 'C18', 'src/utilities/qhash.c', "    uint64_t h = 0xCBF29CE484222325ULL;\n\n    for (dp = (unsigned char *) data; nbytes > 0; dp++, nbytes--) {",
  "    uint64_t h = 0xCBF29CE484222325ULL;\n\n    for (dp = (unsigned char *) data; nbytes > 0 && *dp; dp++, nbytes--) {", 'H1', 'qhashfnv1_64', 'scan stops at a zero byte')
M('c18-md5-const', 'C18', 'src/internal/md5/md5c.c', "0x242070db); /* 3 */", "0x242070dd); /* 3 */", 'H5-md5', 'MD5Transform', 'sine constant changed')
M('c18-md5-shift', 'C18', 'src/internal/md5/md5c.c', "#define S23 14", "#define S23 15", 'H5-md5', 'MD5Transform', 'shift amount changed')
M('c18-md5-word', 'C18', 'src/internal/md5/md5c.c', "HH(d, a, b, c, x[8], S32, 0x8771f681); /* 34 */", "HH(d, a, b, c, x[9], S32, 0x8771f681); /* 34 */", 'H5-md5', 'MD5Transform', 'message word index changed')
M('c18-md5-roundfn', 'C18', 'src/internal/md5/md5c.c', "#define G(x, y, z) (((x) & (z)) | ((y) & (~z)))", "#define G(x, y, z) (((x) & (z)) | ((y) & (z)))", 'H5-md5', 'MD5Transform', 'round function G changed')
M('c18-md5-init', 'C18', 'src/internal/md5/md5c.c', "    context->state[2] = 0x98badcfe;", "    context->state[2] = 0x98badcff;", 'H5-md5', 'MD5Init', 'initial state changed')
M('c18-hasharr-fnv-slot', 'C18', 'src/containers/qhasharr.c', "    uint32_t hash = qhashmurmur3_32(name, namesize) % tbldata->maxslots;\n\n    // check, is slot empty",
  "    uint32_t hash = qhashfnv1_32(name, namesize) % tbldata->maxslots;\n\n    // check, is slot empty", 'H6', 'qhasharr_put_by_obj', 'put uses a different hash function than get')

# ---- C20 -------------------------------------------------------------------------------------
M('c20-no-off', 'C20', 'src/extensions/qaconf.c', '    else if (!strcasecmp(s, "off"))\n        return 0;\n', "", 'B1', '_is_str_bool', 'spelling off dropped')
M('c20-case-sensitive', 'C20', 'src/extensions/qaconf.c', '    else if (!strcasecmp(s, "yes"))', '    else if (!strcmp(s, "yes"))', 'B1', '_is_str_bool', 'case-sensitive comparison')
M('c20-false-is-unknown', 'C20', 'src/extensions/qaconf.c', '    else if (!strcasecmp(s, "no"))\n        return 0;', '    else if (!strcasecmp(s, "no"))\n        return -1;', 'B1', '_is_str_bool', 'one false spelling classified as not-a-boolean')
M('c20-only-one', 'C20', 'src/extensions/qaconf.c', '(boolval > 0) ? "1" : "0"', '"1"', 'B2', '_parse_inline', 'always normalised to 1')
M('c20-reject-false', 'C20', 'src/extensions/qaconf.c', "                            if (boolval >= 0) {", "                            if (boolval > 0) {", 'B2', '_parse_inline', 'false booleans rejected')
M('c20-no-lineno', 'C20', 'src/extensions/qaconf.c', 'qaconf->filepath, qaconf->lineno, ##args);', 'qaconf->filepath, 0, ##args);', 'B3', '_parse_inline', 'error message without the line number')
M('c20-uncounted', 'C20', 'src/extensions/qaconf.c', "        // Increase process counter\n        optcount++;", "        // Increase process counter", 'B4', '_parse_inline', 'directives not counted')
M('c20-nested-not-added', 'C20', 'src/extensions/qaconf.c', "                optcount += optcount2;", "                (void) optcount2;", 'B4', '_parse_inline', 'nested directive counts dropped')

# ---- C10 (rules added after seeds) / C16 additions ---------------------------------------------
M('c10-double-normalise', 'C10', 'src/containers/qvector.c',
  "void *qvector_popat(qvector_t *vector, int index) {\n    vector->lock(vector);", "void *qvector_popat(qvector_t *vector, int index) {\n    vector->lock(vector);\n    if (index < 0) index += vector->num;",
  'V2', 'qvector_popat', 'back-relative index resolved twice')
M('c10-growth-zero', 'C10', 'src/containers/qvector.c', "            newmax = (vector->max + 1) * 2;", "            newmax = vector->max * 2;", 'G1', 'qvector_addat', 'doubling of capacity 0 stays 0')
M('c16-b64-no-rezero', 'C16', 'src/utilities/qencode.c', "        memset((void *) szIn, 0, sizeof(szIn));\n", "", 'TB8', 'qbase64_encode', 'staging buffer not cleared between groups')
M('c16-decode-before-split', 'C16', 'src/utilities/qencode.c',
  "        char *name = qstrtrim(_q_makeword(value, equalchar));\n        qurl_decode(name);\n        qurl_decode(value);", "        qurl_decode(value);\n        char *name = qstrtrim(_q_makeword(value, equalchar));",
  'TB9', 'qparse_queries', 'pair decoded before the name/value split')
M('c01-cmp-prefix', 'C01', 'src/containers/qtreetbl.c', "    return (namesize1 < namesize2) ? -1 : +1;", "    return (namesize1 < namesize2) ? +1 : -1;", 'T6', 'qtreetbl_byte_cmp', 'prefix keys ordered backwards')
M('c01-inplace-stale-size', 'C01', 'src/containers/qtreetbl.c', "            free(obj->data);\n            obj->data = copydata;\n            obj->datasize = datasize;", "            free(obj->data);\n            obj->data = copydata;",
  'R2', 'put_obj', 'replacement keeps the old recorded size')

# ---- C08 / C09 -------------------------------------------------------------------------------
M('c08-load-count', 'C08', 'src/containers/qlisttbl.c', "        if (qlisttbl_put(tbl, name, data, strlen(data) + 1) == true) {\n            cnt++;\n        }",
  "        qlisttbl_put(tbl, name, data, strlen(data) + 1);", 'L1', 'qlisttbl_load', 'loaded entries not counted')
M('c08-sort-unstable', 'C08', 'src/containers/qlisttbl.c', "            if (tbl->namecmp(obj1->name, obj2->name) > 0) {", "            if (tbl->namecmp(obj1->name, obj2->name) >= 0) {", 'L2', 'qlisttbl_sort', 'equal keys exchanged')
M('c08-sort-size-not-swapped', 'C08', 'src/containers/qlisttbl.c', "                obj1->size = obj2->size;\n", "", 'L2', 'qlisttbl_sort', 'size not exchanged with the data pointer')
M('c08-load-no-decode', 'C08', 'src/containers/qlisttbl.c', "        if (decode == true) qurl_decode(data);", "        if (decode == true) qhex_decode(data);", 'L3', 'qlisttbl_load', 'load uses a different codec than save')
M('c08-unique-ignored', 'C08', 'src/containers/qlisttbl.c', "    if (tbl->unique == true) qlisttbl_remove(tbl, name);\n", "", 'L4', None, 'unique option has no effect in put')
M('c08-inserttop-sets-unique', 'C08', 'src/containers/qlisttbl.c', "      tbl->inserttop = true;", "      tbl->unique = true;", 'L4', None, 'option wired to the wrong field')
M('c08-direction-swapped', 'C08', 'src/containers/qlisttbl.c', "        obj = (tbl->lookupforward)? obj->next : obj->prev;", "        obj = (tbl->lookupforward)? obj->prev : obj->next;", 'L5', 'findobj', 'walks against the lookup direction')
M('c08-inserttop-bottom', 'C08', 'src/containers/qlisttbl.c', "        if (tbl->inserttop == false) {\n            obj->prev = tbl->last;", "        if (tbl->inserttop == true) {\n            obj->prev = tbl->last;", 'L5', 'qlisttbl_put', 'insert-at-top appends at the bottom')
M('c09-queue-lifo', 'C09', 'src/containers/qqueue.c', "    return queue->list->popfirst(queue->list, size);", "    return queue->list->poplast(queue->list, size);", 'E1', None, 'pop takes the newest element while popstr/popint take the oldest')
M('c09-queue-pushint-front', 'C09', 'src/containers/qqueue.c', "    return queue->list->addlast(queue->list, &num, sizeof(num));", "    return queue->list->addfirst(queue->list, &num, sizeof(num));", 'E1', None, 'one push variant inserts at the other end')
M('c09-stack-peek-bottom', 'C09', 'src/containers/qstack.c', "    return stack->list->getfirst(stack->list, size, newmem);", "    return stack->list->getlast(stack->list, size, newmem);", 'E1', None, 'peek looks at the bottom of the stack')
M('c09-grow-prepend', 'C09', 'src/containers/qgrow.c', "    return grow->list->addlast(grow->list, str, strlen(str));", "    return grow->list->addfirst(grow->list, str, strlen(str));", 'E1', None, 'addstr prepends')
M('c09-addlast-index', 'C09', 'src/containers/qlist.c', "    return qlist_addat(list, -1, data, size);", "    return qlist_addat(list, -2, data, size);", 'E2', 'qlist_addlast', 'addlast inserts before the last element')
M('c09-datasum-not-updated', 'C09', 'src/containers/qlist.c', "    list->datasum -= obj->size;\n", "", 'E3', 'remove_obj', 'byte total not reduced on removal')
M('c09-limit-ignored', 'C09', 'src/containers/qlist.c', "    if (list->max > 0 && list->num >= list->max) {", "    if (list->max > 0 && list->num > list->max + 1) {", 'E4', 'qlist_addat', 'size limit off by two')

# ---- C17 / C19 -------------------------------------------------------------------------------
M('c17-url-truncated-escape', 'C17', 'src/utilities/qencode.c',
  "                if (*(pEncPt + 1) != '\\0' && *(pEncPt + 2) != '\\0') {", "                if (*(pEncPt + 1) != '\\0') {", 'CU1', 'qurl_decode', 'second escape digit not checked against the terminator')
M('c17-hex-odd', 'C17', 'src/utilities/qencode.c', "*pEncPt != '\\0' && *(pEncPt + 1) != '\\0'; pEncPt += 2", "*pEncPt != '\\0'; pEncPt += 2", 'CU1', 'qhex_decode', 'stride 2 over an odd-length string')
M('c17-b64-lookahead', 'C17', 'src/utilities/qencode.c', "        char cByte = B64MAPTBL[(unsigned char) (*pEncPt)];\n        if (cByte == 64)\n            continue;",
  "        char cByte = B64MAPTBL[(unsigned char) (*pEncPt)];\n        if (cByte == 64) {\n            if (*(pEncPt + 1) == '=' || *(pEncPt + 2) == '=') pEncPt += 2;\n            continue;\n        }", 'CU1', 'qbase64_decode', 'padding look-ahead past the terminator')
M('c17-aconf-backslash', 'C17', 'src/extensions/qaconf.c', "                    if (qtmark > 0 && *(wp2 + 1) != '\\0') {", "                    if (qtmark > 0) {", 'CU1', '_parse_inline', 'trailing backslash steps over the terminator')
M('c17-aconf-eol', 'C17', 'src/extensions/qaconf.c', "            if (doneparsing == false) {\n                wp2++;\n            }", "            wp2++;", 'CU1', '_parse_inline', 'one byte past the end of every line')
M('c17-aconf-uninit', 'C17', 'src/extensions/qaconf.c', "        qaconf_cbdata_t *cbdata = NULL;\n\n        if (fgets(buf, MAX_LINESIZE, fp) == NULL) {", "        qaconf_cbdata_t *cbdata;\n\n        if (fgets(buf, MAX_LINESIZE, fp) == NULL) {", 'CU3', '_parse_inline', 'callback data read uninitialised on the unclosed-section exit')
M('c17-makeword-overrun', 'C17', 'src/internal/qinternal.c', "    if (str[len])\n        len++;", "    len++;", 'CU1', '_q_makeword', 'separator skip without checking for the terminator')
M('c17-decoder-expands', 'C17', 'src/utilities/qencode.c', "            case '+': {\n                *pBinPt++ = ' ';\n                break;\n            }", "            case '+': {\n                *pBinPt++ = ' ';\n                *pBinPt++ = ' ';\n                break;\n            }", 'CU1', 'qurl_decode', 'in-place decoder writes ahead of the read cursor')
M('c19-no-clamp', 'C19', 'src/utilities/qstring.c', "    if (nbytes >= size)\n        nbytes = size - 1;\n", "", 'Q1', 'qstrncpy', 'copy length not clamped to the destination')
M('c19-clamp-off-by-one', 'C19', 'src/utilities/qstring.c', "    if (nbytes >= size)\n        nbytes = size - 1;", "    if (nbytes > size)\n        nbytes = size;", 'Q1', 'qstrncpy', 'terminator stored one past the destination')
M('c19-gets-bound', 'C19', 'src/utilities/qstring.c', "*from != '\\0' && i < (size - 1); i++, from++", "*from != '\\0' && i < size; i++, from++", 'Q1', 'qstrgets', 'line reader fills the buffer completely, terminator one past')
M('c19-gets-double-advance', 'C19', 'src/utilities/qstring.c', "        *to = *from;\n        to++;", "        *to = *from;\n        to++;\n        if (*from == '\\t') { *to = ' '; to++; }", 'Q1', 'qstrgets', 'cursor advances faster than the bounded counter')
M('c19-strcpy-unbounded', 'C19', 'src/utilities/qstring.c', "    size_t nbytes = strlen(src);\n    return qstrncpy(dst, size, src, nbytes);", "    return strcpy(dst, src);", 'Q1', 'qstrcpy', 'bounded copy replaced by strcpy')
M('c19-trim-memcpy', 'C19', 'src/utilities/qstring.c', "        size_t len = (se - ss) + 1;\n        memmove(str, ss, len);\n    }\n\n    return str;", "        size_t len = (se - ss) + 1;\n        memcpy(str, ss, len);\n    }\n\n    return str;", 'M1', None, 'in-place trim with memcpy')


# ---- wave 9 rules ----------------------------------------------------------------------------
_FMT_OLD = "            if (_n >= 0 && _n < _strsize) break;                        \\\n"
_FMT_NEW = "            if (_n >= 0 && _n <= _strsize) break;                       \\\n"
for _p, _fn in (('C01', 'qtreetbl_putstrf'), ('C05', 'qhashtbl_putstrf'), ('C08', 'qlisttbl_putstrf'), ('C09', 'qgrow_addstrf'),
                ('C19', 'qstrdupf')):
    M('%s-fmt-accept-equal' % _p.lower(), _p, 'src/internal/qinternal.h', _FMT_OLD, _FMT_NEW, 'F1', _fn,
      'formatted result equal to the buffer size accepted (last character cut off)')
M('c07-digest-skipped-upto-namesize', 'C07', 'src/containers/qhasharr.c',
  "    unsigned char namemd5[16];\n    qhashmd5(name, namesize, namemd5);\n\n    // store name",
  "    unsigned char namemd5[16];\n    memset(namemd5, 0, sizeof(namemd5));\n    if (namesize > Q_HASHARR_NAMESIZE + 1) qhashmd5(name, namesize, namemd5);\n\n    // store name",
  'I10', None, 'digest skipped for 17-byte keys, which the reader looks up by digest')
M('c07-collision-release-no-counter', 'C07', 'src/containers/qhasharr.c',
  "        tblslots[tblslots[idx].hash].count--;\n\n        // remove data\n        remove_data(tbl, idx);",
  "        // remove data\n        remove_data(tbl, idx);", 'I11', 'qhasharr_remove_by_idx',
  'collision entry released without decrementing the leading slot counter')
M('c07-ring-start-unchecked', 'C07', 'src/containers/qhasharr.c',
  "        for (idx2 = idx + 1;; idx2++) {\n            if (idx2 >= tbldata->maxslots)\n                idx2 = 0;\n            if (idx2 == idx) {",
  "        for (idx2 = idx + 1;; idx2++) {\n            if (idx2 > tbldata->maxslots)\n                idx2 = 0;\n            if (idx2 == idx) {",
  'I12', 'qhasharr_remove_by_idx', 'wrap test lets index == maxslots through')
M('c11-ring-start-unchecked', 'C11', 'src/containers/qhasharr.c',
  "        for (idx2 = idx + 1;; idx2++) {\n            if (idx2 >= tbldata->maxslots)\n                idx2 = 0;\n            if (idx2 == idx) {",
  "        for (idx2 = idx + 1;; idx2++) {\n            if (idx2 == idx) {", 'I12', 'qhasharr_remove_by_idx', 'wrap dropped from the ring walk')
_DL3_OLD = "    // if unique flag is set, remove same key\n    if (tbl->unique == true) qlisttbl_remove(tbl, name);\n\n    // insert into table\n    if (tbl->num == 0) {\n        obj->prev = NULL;\n        obj->next = NULL;\n    } else {\n        if (inserttop == false) {\n            obj->prev = tbl->last;\n            obj->next = NULL;\n        } else {\n            obj->prev = NULL;\n            obj->next = tbl->first;\n        }\n    }\n    insertobj(tbl, obj);"
_DL3_NEW = "    // insert into table\n    if (tbl->num == 0) {\n        obj->prev = NULL;\n        obj->next = NULL;\n    } else {\n        if (inserttop == false) {\n            obj->prev = tbl->last;\n            obj->next = NULL;\n        } else {\n            obj->prev = NULL;\n            obj->next = tbl->first;\n        }\n    }\n    // if unique flag is set, remove same key\n    if (tbl->unique == true) qlisttbl_remove(tbl, name);\n    insertobj(tbl, obj);"
M('c11-position-before-removal', 'C11', 'src/containers/qlisttbl.c', _DL3_OLD, _DL3_NEW, 'DL3', 'putdata',
  'neighbour sampled before the unique-key removal may free it')
M('c08-position-before-removal', 'C08', 'src/containers/qlisttbl.c', _DL3_OLD, _DL3_NEW, 'DL3', 'putdata',
  'neighbour sampled before the unique-key removal may free it')


M('c16-url-encode-dot-passthrough', 'C16', 'src/utilities/qencode.c',
  "        if (URLCHARTBL[c] != 0) {\n            *pszEncPt++ = *pBinPt;\n        } else {",
  "        if (URLCHARTBL[c] != 0) {\n            *pszEncPt++ = *pBinPt;\n        } else if (c == '~') {\n            *pszEncPt++ = *pBinPt;\n        } else {",
  'TB1', 'qurl_encode', 'a byte the table marks must-encode is copied through by a second arm')
M('c16-query-skip-valueless', 'C16', 'src/utilities/qencode.c',
  "        qurl_decode(name);\n        qurl_decode(value);\n\n        if (tbl->putstr(tbl, name, value) == true) {",
  "        qurl_decode(name);\n        qurl_decode(value);\n        if (*value == '\\0') {\n            free(name);\n            free(value);\n            continue;\n        }\n\n        if (tbl->putstr(tbl, name, value) == true) {",
  'TB18', 'qparse_queries', 'pairs with an empty value are dropped instead of stored')
M('c16-hex-encode-static-cache', 'C16', 'src/utilities/qencode.c',
  "char *qhex_encode(const void *bin, size_t size) {\n",
  "char *qhex_encode(const void *bin, size_t size) {\n    static size_t lastsize = 0;\n    if (size == 0) size = lastsize;\n    lastsize = size;\n",
  'TB17', 'qhex_encode', 'encoder result depends on mutable static state left by the previous call')
M('c18-file-digest-eintr', 'C18', 'src/utilities/qhash.c',
  "        if (nread < 0)\n            break;\n        MD5Update(&context, buf, nread);",
  "        if (nread < 0 && errno != EINTR)\n            break;\n        MD5Update(&context, buf, nread);",
  'H8', 'qhashmd5_file', 'a negative read result reaches the digest update and the remaining-count arithmetic')


M('c17-makeword-spin', 'C17', 'src/internal/qinternal.c',
  "    for (len = 0; ((str[len] != stop) && (str[len])); len++);\n",
  "    for (len = 0; ((str[len] != stop) && (str[len])); ) {\n        if (str[len] == '\\r') continue;\n        len++;\n    }\n",
  'LP1', '_q_makeword', 'a continue before the only increment: the scan spins on a carriage return')
M('c17-aconf-blank-skip-spin', 'C17', 'src/extensions/qaconf.c',
  "            for (; (*wp1 == ' ' || *wp1 == '\\t'); wp1++)\n",
  "            for (; (*wp1 == ' ' || *wp1 == '\\t'); ) { if (*wp1 == ' ') wp1++; }\n",
  'LP1', None, 'blank-skipping loop does not advance over a tab')


M('c17-expansion-budget-dropped', 'C17', 'src/extensions/qconfig.c',
  "            produced += strlen(value) + 1;\n            if (produced > _MAX_EXPANSION) {\n                return value;\n            }\n",
  "            produced += strlen(value) + 1;\n",
  'LP2', '_parsestr', 'the budget of the ${} expansion loop is counted but never tested')
M('c17-expansion-budget-not-counted', 'C17', 'src/extensions/qconfig.c',
  "            produced += strlen(value) + 1;\n            if (produced > _MAX_EXPANSION) {\n                return value;\n            }\n",
  "            if (produced > _MAX_EXPANSION) {\n                return value;\n            }\n",
  'LP2', '_parsestr', 'the budget of the ${} expansion loop is tested but never counted')
M('c17-include-budget-dropped', 'C17', 'src/extensions/qconfig.c',
  "            produced += strlen(str) + 1;\n            if (produced > _MAX_EXPANSION) {",
  "            produced += strlen(str) + 1;\n            if (produced > _MAX_EXPANSION && strp == NULL) {\n                produced = 0;\n            } else if (false) {",
  'LP2', 'qconfig_parse_file', 'the include budget no longer leaves the loop')


M('c04-stamp-before-copy', 'C04', 'src/containers/qtreetbl.c',
  "        } else if (cursor->tid != tid) {\n            void *name = cursor->name;",
  "        } else if (cursor->tid != tid) {\n            cursor->tid = tid;\n            void *name = cursor->name;",
  'T10', 'qtreetbl_getnext', 'node stamped as visited before the fallible copies')
M('c05-empty-value-copy-is-enomem', 'C05', 'src/containers/qhashtbl.c',
  "            data = malloc(obj->size);\n            if (data == NULL) {",
  "            data = qmemdup(obj->data, obj->size);\n            if (data == NULL) {",
  'T8', 'qhashtbl_get', 'qmemdup returns NULL for an empty value, reported as ENOMEM')
M('c09-tostring-strlen', 'C09', 'src/containers/qlist.c',
  "        size_t size = obj->size;\n        // do not copy tailing '\\0'\n        if (*(char *) (obj->data + (size - 1)) == '\\0')\n            size -= 1;",
  "        size_t size = strlen((char *) obj->data);\n        if (size > obj->size) size = obj->size;",
  'E7', 'qlist_tostring', 'flattener length taken from the content instead of the recorded size')
M('c09-toarray-advance', 'C09', 'src/containers/qlist.c',
  "        memcpy(dp, obj->data, obj->size);\n        dp += obj->size;",
  "        memcpy(dp, obj->data, obj->size);\n        dp += sizeof(obj->size);",
  'E7', 'qlist_toarray', 'output cursor advances by something other than the copied length')


M('c19-selfcopy-shortcut', 'C19', 'src/utilities/qstring.c',
  "char *qstrncpy(char *dst, size_t size, const char *src, size_t nbytes) {\n    if (dst == NULL || size == 0 || src == NULL)\n        return dst;\n",
  "char *qstrncpy(char *dst, size_t size, const char *src, size_t nbytes) {\n    if (dst == NULL || size == 0 || src == NULL)\n        return dst;\n    if (nbytes == 0 && dst == src)\n        return dst;\n",
  'Q2', 'qstrncpy', 'short-cut return that leaves the destination un-terminated')
M('c17-include-resume-offset', 'C17', 'src/extensions/qconfig.c',
  "            strp = qstrreplace(\"sn\", str, token, incdata);\n            free(incdata);\n            free(str);\n            str = strp;\n",
  "            size_t resume = strp - str;\n            strp = qstrreplace(\"sn\", str, token, incdata);\n            free(incdata);\n            free(str);\n            str = strp;\n            strp = str + resume;\n",
  'LP3', 'qconfig_parse_file', 'scan resumes at an offset measured in the old document')


# ---- C06 -------------------------------------------------------------------------------------
M('c06-usedslots-only-first', 'C06', 'src/containers/qhasharr.c',
  "            // increase stored key counter\n            tbldata->num++;\n        }\n        tblslots[newidx].datasize = copysize;\n        savesize += copysize;\n\n        // increase used slot counter\n        tbldata->usedslots++;\n",
  "            // increase stored key counter\n            tbldata->num++;\n            tbldata->usedslots++;\n        }\n        tblslots[newidx].datasize = copysize;\n        savesize += copysize;\n",
  'K1', 'put_data', 'extension blocks are no longer counted as used slots')
M('c06-num-every-chunk', 'C06', 'src/containers/qhasharr.c',
  "            // increase stored key counter\n            tbldata->num++;\n        }\n        tblslots[newidx].datasize = copysize;",
  "        }\n        tbldata->num++;\n        tblslots[newidx].datasize = copysize;",
  'K1', 'put_data', 'key counter incremented for every chunk')
M('c06-release-no-usedslots', 'C06', 'src/containers/qhasharr.c',
  "        remove_slot(tbl, idx);\n        tbldata->usedslots--;\n\n        if (link == -1)\n            break;",
  "        remove_slot(tbl, idx);\n\n        if (link == -1) {\n            tbldata->usedslots--;\n            break;\n        }",
  'K2', 'remove_data', 'only the last slot of a chain is given back to the used-slot count')
M('c06-no-rollback', 'C06', 'src/containers/qhasharr.c',
  "            if (tmpidx < 0) {\n                remove_data(tbl, idx);\n                errno = ENOBUFS;\n                return false;\n            }",
  "            if (tmpidx < 0) {\n                errno = ENOBUFS;\n                return false;\n            }",
  'K3', 'put_data', 'out-of-space exit leaves the partially written entry in place')
M('c06-match-without-length', 'C06', 'src/containers/qhasharr.c',
  "                if (namesize == tblslots[idx].data.pair.namesize) {\n                    if (namesize <= Q_HASHARR_NAMESIZE) {",
  "                if (namesize == tblslots[idx].data.pair.namesize || namesize > Q_HASHARR_NAMESIZE) {\n                    if (namesize <= Q_HASHARR_NAMESIZE) {",
  'K4', 'get_idx', 'long keys matched without comparing their length')
M('c06-match-without-digest', 'C06', 'src/containers/qhasharr.c',
  "                        Q_HASHARR_NAMESIZE)\n                                && !memcmp(namemd5,\n                                           tblslots[idx].data.pair.namemd5,\n                                           16)) {",
  "                        Q_HASHARR_NAMESIZE)) {",
  'K4', 'get_idx', 'truncated keys matched by prefix only')
M('c06-collision-release-no-counter', 'C06', 'src/containers/qhasharr.c',
  "        tblslots[tblslots[idx].hash].count--;\n\n        // remove data\n        remove_data(tbl, idx);",
  "        // remove data\n        remove_data(tbl, idx);", 'I11', 'qhasharr_remove_by_idx',
  'collision entry released without decrementing the leading slot counter')


M('c17-section-depth-unbounded', 'C17', 'src/extensions/qaconf.c',
  "            if (cbdata->level >= MAX_SECTIONLEVEL) {\n                EXITLOOP(\"Sections are nested too deeply.\");\n            }\n",
  "            if (cbdata->level >= MAX_SECTIONLEVEL) {\n                DEBUG(\"Sections are nested deeply.\");\n            }\n",
  'LP4', '_parse_inline', 'the nesting limit is tested but the descent goes on')
M('c17-hexval-plain-char', 'C17', 'src/utilities/qencode.c',
  "        *pBinPt++ = (HEXMAPTBL[(unsigned char) (*pEncPt)] << 4)",
  "        *pBinPt++ = (HEXMAPTBL[(int) (*pEncPt)] << 4)",
  'W3', 'qhex_decode', 'hex table indexed by a plain char')
M('c19-store-before-move', 'C19', 'src/utilities/qstring.c',
  "    memmove((void *) dst, (void *) src, nbytes);\n    dst[nbytes] = '\\0';\n",
  "    dst[nbytes] = '\\0';\n    memmove((void *) dst, (void *) src, nbytes);\n",
  'Q3', 'qstrncpy', 'terminator stored before the overlapping move')
M('c20-number-by-strtod', 'C20', 'src/extensions/qaconf.c',
  "static int _is_str_number(const char *s) {\n    char *op = (char *) s;",
  "static int _is_str_number(const char *s) {\n    char *endp0;\n    if (*s != '\\0' && (strtod(s, &endp0), *endp0 == '\\0') && strchr(s, 'e') != NULL) return 2;\n    char *op = (char *) s;",
  'B8', '_is_str_number', 'exponent spellings accepted through strtod')
M('c20-trim-after-expansion', 'C20', 'src/extensions/qconfig.c',
  "        qstrtrim(value);\n        qstrtrim(name);\n",
  "        qstrtrim(name);\n",
  'B9', 'qconfig_parse_str', 'raw value no longer trimmed before the expansion')


# ---- C02 -------------------------------------------------------------------------------------
M('c02-rotate-left-colour', 'C02', 'src/containers/qtreetbl.c',
  "    x->left = obj;\n    x->red = x->left->red;\n    x->left->red = true;\n    _q_treetbl_rotate_left_cnt++;",
  "    x->red = obj->right->red;\n    x->left = obj;\n    x->left->red = true;\n    _q_treetbl_rotate_left_cnt++;",
  'ROT', 'rotate_left', 'new root takes the colour of its old left child instead of the old root')
M('c02-rotate-right-no-red', 'C02', 'src/containers/qtreetbl.c',
  "    x->right = obj;\n    x->red = x->right->red;\n    x->right->red = true;",
  "    x->right = obj;\n    x->red = x->right->red;",
  'ROT', 'rotate_right', 'old root not made red')
M('c02-flip-only-children', 'C02', 'src/containers/qtreetbl.c',
  "    obj->red = !(obj->red);\n    obj->left->red = !(obj->left->red);",
  "    obj->left->red = !(obj->left->red);",
  'ROT', 'flip_color', 'colour flip leaves the parent alone')
M('c02-rotate-left-returns-old-root', 'C02', 'src/containers/qtreetbl.c',
  "    _q_treetbl_rotate_left_cnt++;\n    return x;",
  "    _q_treetbl_rotate_left_cnt++;\n    return obj;",
  'ROT', 'rotate_left', 'old subtree root returned')
M('c02-fix-result-dropped', 'C02', 'src/containers/qtreetbl.c',
  "        obj = rotate_left(obj);\n    }\n    // rotate left red-red to right",
  "        rotate_left(obj);\n    }\n    // rotate left red-red to right",
  'T3', 'fix', 'rotation result not stored back')


# ---- C03 -------------------------------------------------------------------------------------
M('c03-wrap-not-purged', 'C03', 'src/containers/qtreetbl.c',
  "        clear_tids(tbl->root);\n        tbl->tid = 1;",
  "        tbl->tid = 1;",
  'T11', 'reset_iterator', 'wrap detected but the marks of the nodes are kept')
M('c03-wrap-not-detected', 'C03', 'src/containers/qtreetbl.c',
  "    if (++tbl->tid == 0) {",
  "    ++tbl->tid;\n    if (tbl->root == NULL) {",
  'T11', 'reset_iterator', 'the wrap of the 8-bit id is no longer detected')
M('c03-purge-left-only', 'C03', 'src/containers/qtreetbl.c',
  "    clear_tids(obj->left);\n    clear_tids(obj->right);\n    obj->tid = 0;",
  "    clear_tids(obj->left);\n    obj->tid = 0;",
  'T11', 'reset_iterator', 'the purge visits left subtrees only')
M('c03-stamp-before-copy', 'C03', 'src/containers/qtreetbl.c',
  "        } else if (cursor->tid != tid) {\n            void *name = cursor->name;",
  "        } else if (cursor->tid != tid) {\n            cursor->tid = tid;\n            void *name = cursor->name;",
  'T10', 'qtreetbl_getnext', 'node stamped as visited before the fallible copies')
M('c03-search-bumps-epoch', 'C03', 'src/containers/qtreetbl.c',
  "        // carry a stale pointer from an earlier walk or search.\n        tbl->root->next = NULL;",
  "        // carry a stale pointer from an earlier walk or search.\n        reset_iterator(tbl);",
  'T7', 'qtreetbl_find_nearest', 'a search advances the traversal id')


M('c15-ctor-range-early', 'C15', 'src/containers/qhashtbl.c',
  "    // allocate table space\n    tbl->slots = (qhashtbl_obj_t **) calloc(range, sizeof(qhashtbl_obj_t *));",
  "    // allocate table space\n    tbl->range = range;\n    tbl->num = 1;\n    tbl->slots = (qhashtbl_obj_t **) calloc(range, sizeof(qhashtbl_obj_t *));",
  'A9', 'qhashtbl', 'both guards of the clean-up walk set before the slot array exists')
M('c18-md5file-static-buffer', 'C18', 'src/utilities/qhash.c',
  "    unsigned char buf[32 * 1024];\n    for (toread = nbytes;",
  "    static unsigned char buf[32 * 1024];\n    for (toread = nbytes;",
  'H9', 'qhashmd5_file', 'read buffer shared between calls and threads')
M('c07-findavail-raw-stop', 'C07', 'src/containers/qhasharr.c',
  "    if (startidx >= tbldata->maxslots)\n        startidx = 0;\n\n    int idx = startidx;",
  "    int idx = (startidx >= tbldata->maxslots) ? 0 : startidx;",
  'I12', 'find_avail', 'ring walk compares the wrapped cursor with the raw start index')
M('c06-findavail-raw-stop', 'C06', 'src/containers/qhasharr.c',
  "    if (startidx >= tbldata->maxslots)\n        startidx = 0;\n\n    int idx = startidx;",
  "    int idx = (startidx >= tbldata->maxslots) ? 0 : startidx;",
  'I12', 'find_avail', 'ring walk compares the wrapped cursor with the raw start index')


M('c18-tail-in-blocks', 'C18', 'src/utilities/qhash.c',
  "    const uint8_t *tail = (const uint8_t *) (data + (nblocks * 4));",
  "    const uint8_t *tail = ((const uint8_t *) data) + nblocks;",
  'DIM1', 'qhashmurmur3_32', 'tail pointer advanced by the block count instead of the byte count')


M('c12-valist-hoisted', 'C12', 'src/internal/qinternal.h',
  "            va_list _arglist;                                           \\\n            va_start(_arglist, f);                                      \\\n            int _n = vsnprintf(s, _strsize, f, _arglist);               \\\n            va_end(_arglist);                                           \\\n",
  "            static int _once = 0;                                       \\\n            va_list _arglist;                                           \\\n            if (_strsize == 1024) va_start(_arglist, f);                \\\n            int _n = vsnprintf(s, _strsize, f, _arglist);               \\\n            (void) _once;                                               \\\n",
  'VA1', None, 'the va_list is started for the first attempt only')
M('c03-purge-prunes-unmarked', 'C03', 'src/containers/qtreetbl.c',
  "static void clear_tids(qtreetbl_obj_t *obj) {\n    if (obj == NULL) {\n        return;\n    }\n",
  "static void clear_tids(qtreetbl_obj_t *obj) {\n    if (obj == NULL || obj->tid == 0) {\n        return;\n    }\n",
  'T11', 'reset_iterator', 'the purge stops at unmarked nodes although their children may be marked')
M('c13-unique-remove-before-lock', 'C13', 'src/containers/qlisttbl.c',
  "    // lock table\n    qlisttbl_lock(tbl);\n\n    // if unique flag is set, remove same key\n    if (tbl->unique == true) qlisttbl_remove(tbl, name);\n",
  "    // if unique flag is set, remove same key\n    if (tbl->unique == true) qlisttbl_remove(tbl, name);\n\n    // lock table\n    qlisttbl_lock(tbl);\n",
  'B-single', None, 'unique-key removal and insertion in two critical sections')


M('c18-md5-bitcount-64-late-widening', 'C18', 'src/internal/md5/md5c.c',
  "    if ((context->count[0] += ((u_int32_t) inputLen << 3))\n            < ((u_int32_t) inputLen << 3))\n        context->count[1]++;\n    context->count[1] += ((u_int32_t) inputLen >> 29);",
  "    {\n        u_int64_t nbits = ((u_int64_t) context->count[1] << 32) | context->count[0];\n        nbits += (u_int32_t) inputLen << 3;\n        context->count[0] = (u_int32_t) nbits;\n        context->count[1] = (u_int32_t) (nbits >> 32);\n    }",
  'WID1', 'MD5Update', 'bit count kept in 64 bits but the shift is done in 32')


M('c20-empty-word-dropped', 'C20', 'src/extensions/qaconf.c',
  "            cbdata->argv[cbdata->argc] = wp1;\n            cbdata->argc++;",
  "            if (*wp1 == '\\0' && cbdata->argc > 0) continue;\n            cbdata->argv[cbdata->argc] = wp1;\n            cbdata->argc++;",
  'B10', '_parse_inline', 'empty words are skipped instead of stored')


M('c19-unchar-cut-before-check', 'C19', 'src/utilities/qstring.c',
  "    if (len >= 2 && str[0] == head && str[len - 1] == tail) {\n        memmove(str, str + 1, len - 2);\n        str[len - 2] = '\\0';\n    } else {\n        return NULL;\n    }",
  "    if (len < 2 || str[len - 1] != tail)\n        return NULL;\n    str[len - 1] = '\\0';\n    if (str[0] != head)\n        return NULL;\n    memmove(str, str + 1, len - 1);",
  'Q4', 'qstrunchar', 'string modified before the routine refuses it')
M('c18-md5-chunks-same-pointer', 'C18', 'src/utilities/qhash.c',
  "    MD5Update(&context, data, nbytes);",
  "    {\n        size_t off_;\n        for (off_ = 0; off_ < nbytes; off_ += 4096) {\n            MD5Update(&context, data, (nbytes - off_ > 4096) ? 4096 : (unsigned int) (nbytes - off_));\n        }\n    }",
  'H10', 'qhashmd5', 'chunk loop always passes the start of the message')
M('c20-static-line-buffer', 'C20', 'src/extensions/qaconf.c',
  "    char buf[MAX_LINESIZE];\n    bool doneloop = false;",
  "    static char buf[MAX_LINESIZE];\n    bool doneloop = false;",
  'B11', '_parse_inline', 'line buffer shared between parser objects and threads')
M('c06-namesize-through-uint8', 'C06', 'src/containers/qhasharr.c',
  "    tblslots[idx].data.pair.namesize = namesize;\n    tblslots[idx].link = -1;",
  "    {\n        uint8_t shortsize = namesize;\n        tblslots[idx].data.pair.namesize = (namesize > 255) ? namesize : shortsize;\n    }\n    tblslots[idx].link = -1;",
  'WID3', 'put_data', 'a size squeezed through an 8-bit local')


M('c15-getmulti-sentinel-late', 'C15', 'src/containers/qlisttbl.c',
  "        // clear next block\n        newobj = &objs[numfound];\n        memset((void *)newobj, '\\0', sizeof(qlisttbl_data_t));\n        newobj->type = 0;  // mark, end of objects\n    }",
  "    }\n    if (objs != NULL) {\n        memset((void *)&objs[numfound], '\\0', sizeof(qlisttbl_data_t));\n    }",
  'GR2', 'qlisttbl_getmulti', 'end-of-array mark written only after the loop, the in-loop failure path frees an open array')


# ---- wave 18 ------------------------------------------------------------------------------------
M('c01-cmp-unsigned-length-diff', 'C01', 'src/containers/qtreetbl.c',
  "    return (namesize1 < namesize2) ? -1 : +1;\n}",
  "    return ((namesize1 - namesize2) > 0) ? +1 : -1;\n}",
  'T6', 'qtreetbl_byte_cmp', 'length tie-break through an unsigned difference (always positive)')
M('c01-shared-counter-read', 'C01', 'src/containers/qtreetbl.c',
  "    _q_treetbl_flip_color_cnt++;\n", "    if ((++_q_treetbl_flip_color_cnt & 0xffff) == 0) obj->red = false;\n",
  'GS1', 'flip_color', 'the file-scope counter now steers the tree shape')
M('c13-shared-counter-read', 'C13', 'src/containers/qtreetbl.c',
  "    _q_treetbl_rotate_left_cnt++;\n", "    if ((++_q_treetbl_rotate_left_cnt & 0xffff) == 0) x->red = false;\n",
  'GS1', 'rotate_left', 'file-scope state read and written outside every container lock')
M('c16-urlenc-signed-byte', 'C16', 'src/utilities/qencode.c',
  "        unsigned char c = *pBinPt;\n        if (URLCHARTBL[c] != 0) {", "        char c = *pBinPt;\n        if (URLCHARTBL[(unsigned char) c] != 0) {",
  'TB14', 'qurl_encode', 'the escaped byte is held in a plain char: the high nibble of bytes >= 0x80 is computed from a negative value')
M('c04-cmp-result-narrowed', 'C04', 'src/containers/qtreetbl.c',
  "        int cmp = tbl->compare(name, namesize, obj->name, obj->namesize);\n        if (cmp == 0) {\n            break;\n        }\n        lastobj = obj;",
  "        int8_t cmp = tbl->compare(name, namesize, obj->name, obj->namesize);\n        if (cmp == 0) {\n            break;\n        }\n        lastobj = obj;",
  'T15', 'qtreetbl_find_nearest', 'the comparator result is held in an int8_t')
M('c17-aconf-close-check-late', 'C17', 'src/extensions/qaconf.c',
  "            if (cbdata_parent == NULL\n                    || cmpfunc(cbdata->argv[0], cbdata_parent->argv[0])) {",
  "            if (cbdata_parent != NULL\n                    && cmpfunc(cbdata->argv[0], cbdata_parent->argv[0])) {",
  'NC1', '_parse_inline', 'a stray section close at the top level is no longer refused before the close callback dereferences the parent')
M('c11-size-out-unguarded', 'C11', 'src/containers/qlist.c',
  "    if (size != NULL)\n        *size = list->datasum;\n    qlist_unlock(list);", "    *size = list->datasum;\n    qlist_unlock(list);",
  'NC1', 'qlist_toarray', 'optional out-parameter written without its NULL test on the success path (tested on the empty path)')
M('c19-strtok-static-last', 'C19', 'src/utilities/qstring.c',
  "char *qstrtok(char *str, const char *delimiters, char *retstop, int *offset) {\n",
  "char *qstrtok(char *str, const char *delimiters, char *retstop, int *offset) {\n    static const char *lastdelim = NULL;\n    if (lastdelim != delimiters) lastdelim = delimiters;\n",
  'Q5', 'qstrtok', 'a function-static variable written by the tokenizer')
M('c20-argc-narrowed', 'C20', 'src/extensions/qaconf.c',
  "                    int numtake = option->take & QAC_TAKEALL;\n                    if (numtake != QAC_TAKEALL\n                            && numtake != (cbdata->argc - 1)) {",
  "                    int numtake = option->take & QAC_TAKEALL;\n                    uint8_t numargs = cbdata->argc - 1;\n                    if (numtake != QAC_TAKEALL\n                            && numtake != numargs) {",
  'WID3', '_parse_inline', 'the argument count is reduced modulo 256 before it is compared')
M('c11-borrowed-name-freed', 'C11', 'src/containers/qhashtbl.c',
  "    char *dupname = strdup(name);\n    void *dupdata = malloc(size);",
  "    char *dupname = (obj != NULL) ? obj->name : strdup(name);\n    void *dupdata = malloc(size);",
  'M', 'qhashtbl_put', 'the error path frees a local that may be the live entry\'s own name')


def run_selftest(prop, rep, rule_fn, config='cmake-release'):
    """Apply every mutant of `prop` to a scratch copy, run rule_fn(prog, report) on it, and
    require a finding of the expected rule (and function)."""
    root = repo_root()
    muts = [m for m in MUTANTS if m['prop'] == prop]
    rep.rule('SELFTEST', 'both-ways test: each seeded mutant of this property is detected by the expected rule')
    results = []
    for m in muts:
        src = os.path.join(root, m['file'])
        try:
            text = open(src).read()
        except OSError:
            results.append({'mutant': m['id'], 'status': 'skipped', 'why': 'file missing'})
            continue
        if text.count(m['old']) != 1:
            results.append({'mutant': m['id'], 'status': 'skipped',
                            'why': 'anchor text occurs %d times in the current tree' % text.count(m['old'])})
            continue
        scratch = tempfile.mkdtemp(prefix='qv-mut-', dir='/tmp')
        try:
            for d in ('src', 'include'):
                shutil.copytree(os.path.join(root, d), os.path.join(scratch, d))
            shutil.copy(os.path.join(root, 'CMakeLists.txt'), scratch)
            with open(os.path.join(scratch, m['file']), 'w') as fh:
                fh.write(text.replace(m['old'], m['new']))
            scratch_real = os.path.realpath(scratch)
            try:
                prog = load_program(config, scratch_real)
            except AnalysisBroken as e:
                results.append({'mutant': m['id'], 'status': 'invalid', 'why': 'mutant does not parse: %s' % str(e)[-300:]})
                rep.broken.append('self-test mutant %s does not parse' % m['id'])
                continue
            from .dataflow import register_identity_functions
            register_identity_functions(prog)
            sub = Report(prop, rep.tier)
            sub.cur_config = config
            rule_fn(prog, sub)
            hits = [f for f in sub.findings if f.rule.startswith(m['rule']) and (m['func'] is None or f.function == m['func'])]
            rep.instance('SELFTEST')
            ok = bool(hits)
            rep.oblige('SELFTEST', ok, {'mutant': m['id'], 'expected_rule': m['rule'], 'expected_function': m['func'],
                                        'reported': hits[0].text()[:200] if hits else
                                        [f.text()[:120] for f in sub.findings][:3]})
            results.append({'mutant': m['id'], 'status': 'detected' if ok else 'MISSED', 'note': m['note'],
                            'other_findings': len(sub.findings) - len(hits)})
            if not ok:
                rep.broken.append('self-test mutant %s (%s) was not detected by rule %s' % (m['id'], m['note'], m['rule']))
        finally:
            shutil.rmtree(scratch, ignore_errors=True)
            for k in [k for k in _prog_cache if k[1] != root]:
                del _prog_cache[k]
    rep.notes['selftest'] = results
    from .dataflow import register_identity_functions
    register_identity_functions(load_program(config, root))
    return results

# ---- wave 4 rules ------------------------------------------------------------------------------
M('c19-trim-isspace', 'C19', 'src/utilities/qstring.c',
  "    for (ss = str; *ss == ' ' || *ss == '\\t' || *ss == '\\r' || *ss == '\\n';\n            ss++)\n        ;\n\n    if (ss > str) {\n        size_t len = strlen(ss) + 1;",
  "    for (ss = str; isspace((unsigned char) *ss);\n            ss++)\n        ;\n\n    if (ss > str) {\n        size_t len = strlen(ss) + 1;",
  'W1', 'qstrtrim_head', 'isspace also strips VT and FF')
M('c19-trim-drop-cr', 'C19', 'src/utilities/qstring.c',
  "    for (se = str + strlen(str) - 1;\n            se >= str\n                    && (*se == ' ' || *se == '\\t' || *se == '\\r' || *se == '\\n');",
  "    for (se = str + strlen(str) - 1;\n            se >= str\n                    && (*se == ' ' || *se == '\\t' || *se == '\\n');",
  'W1', 'qstrtrim_tail', 'CR no longer trimmed at the tail')
M('c19-upper-range', 'C19', 'src/utilities/qstring.c',
  "        if (*cp >= 'a' && *cp <= 'z')\n            *cp -= 32;", "        if (*cp >= 'a' && *cp < 'z')\n            *cp -= 32;",
  'W2', 'qstrupper', 'z left in lower case')
M('c19-lower-delta', 'C19', 'src/utilities/qstring.c',
  "        if (*cp >= 'A' && *cp <= 'Z')\n            *cp += 32;", "        if (*cp >= 'A' && *cp <= 'Z')\n            *cp += 31;",
  'W2', 'qstrlower', 'wrong distance between the cases')
M('c19-unchar-guard', 'C19', 'src/utilities/qstring.c',
  "    if (len >= 2 && str[0] == head && str[len - 1] == tail) {", "    if (str[0] == head && str[len - 1] == tail) {",
  'W4', 'qstrunchar', 'length guard dropped: str[len-1] on an empty string')
M('c19-tok-signed-table', 'C19', 'src/utilities/qstring.c',
  "    tokensp = tokenep = (char *) (str + *offset);\n    int numdel = strlen(delimiters);",
  "    char seen[256];\n    memset(seen, 0, sizeof(seen));\n    tokensp = tokenep = (char *) (str + *offset);\n    int c0 = *tokensp;\n    seen[c0] = 1;\n    int numdel = strlen(delimiters);",
  'W3', 'qstrtok', 'byte table indexed through an int holding a plain char')
M('c08-removeobj-last', 'C08', 'src/containers/qlisttbl.c',
  "    if (next == NULL) tbl->last = prev; // if the object is last one\n    else next->prev = prev;  // not the first one",
  "    if (next != NULL) next->prev = prev;  // not the first one",
  'DL1', 'qlisttbl_removeobj', 'tail pointer not updated when the last entry goes')
M('c08-removeobj-relink', 'C08', 'src/containers/qlisttbl.c',
  "    if (prev == NULL) tbl->first = next; // if the object is first one\n    else prev->next = next;  // not the first one",
  "    if (prev == NULL) tbl->first = next; // if the object is first one",
  'DL1', 'qlisttbl_removeobj', 'predecessor keeps pointing at the removed entry')
M('c08-hash-prefilter', 'C08', 'src/containers/qlisttbl.c',
  "            if (tbl->namecmp(obj1->name, obj2->name) > 0) {", "            if (obj1->hash != obj2->hash && tbl->namecmp(obj1->name, obj2->name) > 0) {",
  'L6', 'qlisttbl_sort', 'stored hash compared outside the matcher')
M('c08-casematch-hash', 'C08', 'src/containers/qlisttbl.c',
  "    if (!strcasecmp(obj->name, name)) {", "    if ((obj->hash == hash) && !strcasecmp(obj->name, name)) {",
  'L6', 'namecasematch', 'case-insensitive matcher consults the case-sensitive hash')
M('c08-load-decode-first', 'C08', 'src/containers/qlisttbl.c',
  "        qstrtrim(data);\n        qstrtrim(name);\n        if (decode == true) qurl_decode(data);",
  "        if (decode == true) qurl_decode(data);\n        qstrtrim(data);\n        qstrtrim(name);",
  'L8', 'qlisttbl_load', 'escaped blanks trimmed after decoding')
M('c08-load-inserttop', 'C08', 'src/containers/qlisttbl.c',
  "        if (putdata(tbl, name, data, strlen(data) + 1, false) == true) {", "        if (qlisttbl_put(tbl, name, data, strlen(data) + 1) == true) {",
  'L9', None, 'loader honours INSERTTOP again')
M('c09-removeobj-first', 'C09', 'src/containers/qlist.c',
  "    if (obj->prev == NULL)\n        list->first = obj->next;\n    else\n        obj->prev->next = obj->next;",
  "    if (obj->prev != NULL)\n        obj->prev->next = obj->next;",
  'DL1', 'remove_obj', 'head pointer not updated when the first element goes')
M('c09-size-zeroed', 'C09', 'src/containers/qlist.c',
  "    // copy data\n    void *data;\n    if (newmem == true) {\n        data = malloc(obj->size);", "    if (remove == true && newmem == false) obj->size = 0;\n    // copy data\n    void *data;\n    if (newmem == true) {\n        data = malloc(obj->size);",
  'E3', 'get_at', 'node size changed behind the byte total')
M('c09-getobj-signed', 'C09', 'src/containers/qlist.c',
  "    if (index >= list->num) {\n        errno = ERANGE;\n        return NULL;\n    }\n\n    // detect faster scan direction",
  "    if (index >= (int) list->num) {\n        errno = ERANGE;\n        return NULL;\n    }\n\n    // detect faster scan direction",
  'E5', 'get_obj', 'range test moved to the signed domain')
M('c18-md5-padlen', 'C18', 'src/internal/md5/md5c.c',
  "    padLen = (idx < 56) ? (56 - idx) : (120 - idx);", "    padLen = (idx <= 56) ? (56 - idx) : (120 - idx);",
  'H7', 'MD5Pad', 'zero padding bytes when 56 bytes are buffered')
M('c18-md5-padtable', 'C18', 'src/internal/md5/md5c.c',
  "static unsigned char PADDING[64] = { 0x80, 0, 0,", "static unsigned char PADDING[64] = { 0x80, 0, 1,",
  'H7', None, 'padding table entry changed')
M('c18-md5-bits-late', 'C18', 'src/internal/md5/md5c.c',
  "    /* Save number of bits */\n    Encode(bits, context->count, 8);\n", "",
  'H7', 'MD5Pad', 'bit count never encoded')
M('c17-argv-errmsg', 'C17', 'src/extensions/qaconf.c',
  "                EXITLOOP(\"Quotation hasn't properly closed.\");", "                EXITLOOP(\"Quotation hasn't properly closed in '%s'.\", cbdata->argv[0]);",
  'CU4', '_parse_inline', 'argv[0] read before any cell was stored')
M('c17-varstr-alloc', 'C17', 'src/extensions/qconfig.c',
  "            char *varstr = (char *) malloc(varlen + 3 + 1);", "            char *varstr = (char *) malloc(varlen + 1);",
  'BW1', '_parsestr', 'buffer sized for the name only, reused for the whole token')
M('c17-cbdata-alloc', 'C17', 'src/extensions/qaconf.c',
  "        cbdata = (qaconf_cbdata_t*) malloc(\n                sizeof(qaconf_cbdata_t));", "        cbdata = (qaconf_cbdata_t*) malloc(\n                sizeof(qaconf_cbdata_t *));",
  'BW1', '_parse_inline', 'record allocated with the size of a pointer, then cleared with the size of the record')
M('c20-scan-break', 'C20', 'src/extensions/qconfig.c',
  "            if (openedbrakets > 0)\n                continue;  // found internal ${", "            if (openedbrakets > 0)\n                break;  // found internal ${",
  'B5', '_parsestr', 'scan abandoned at a nested reference')

# ---- C16 bit laws -------------------------------------------------------------------------------
M('c16-b64enc-field', 'C16', 'src/utilities/qencode.c',
  "        *pszB64Pt++ = B64CHARTBL[(((szIn[0] & 0x03) << 4)\n                | ((szIn[1] & 0xF0) >> 4))];",
  "        *pszB64Pt++ = B64CHARTBL[(((szIn[0] & 0x03) << 4)\n                | ((szIn[1] & 0xE0) >> 4))];",
  'TB10', 'qbase64_encode', 'one bit of the second sextet masked away')
M('c16-b64dec-shift', 'C16', 'src/utilities/qencode.c',
  "            *pBinPt++ = ((cLastByte << 4) | (cByte >> 2));", "            *pBinPt++ = ((cLastByte << 4) | (cByte >> 3));",
  'TB11', 'qbase64_decode', 'wrong shift in the second byte of a quartet')
M('c16-b64dec-state', 'C16', 'src/utilities/qencode.c',
  "            *pBinPt++ = ((cLastByte << 6) | cByte);\n            nIdxOfFour = 0;", "            *pBinPt++ = ((cLastByte << 6) | cByte);\n            nIdxOfFour = 1;",
  'TB11', 'qbase64_decode', 'quartet state not reset')
M('c16-hexenc-order', 'C16', 'src/utilities/qencode.c',
  "        *pHexPt++ = HEXCHARTBL[(pSrc[i] >> 4)];\n        *pHexPt++ = HEXCHARTBL[(pSrc[i] & 0x0F)];",
  "        *pHexPt++ = HEXCHARTBL[(pSrc[i] & 0x0F)];\n        *pHexPt++ = HEXCHARTBL[(pSrc[i] >> 4)];",
  'TB12', 'qhex_encode', 'low digit first')
M('c16-hexdec-shift', 'C16', 'src/utilities/qencode.c',
  "        *pBinPt++ = (HEXMAPTBL[(unsigned char) (*pEncPt)] << 4)", "        *pBinPt++ = (HEXMAPTBL[(unsigned char) (*pEncPt)] << 3)",
  'TB13', 'qhex_decode', 'high digit weighted 8')
M('c16-pct-digit', 'C16', 'src/utilities/qencode.c',
  "                    (cLower4 < 0x0A) ?\n                            (cLower4 + '0') : ((cLower4 - 0x0A) + 'a');",
  "                    (cLower4 <= 0x0A) ?\n                            (cLower4 + '0') : ((cLower4 - 0x0A) + 'a');",
  'TB14', 'qurl_encode', 'nibble 10 written as \':\'')
M('c16-x2c-case', 'C16', 'src/internal/qinternal.c',
  "    digit += (hex_low >= 'A' ? ((hex_low & 0xdf) - 'A') + 10 : hex_low - '0');",
  "    digit += (hex_low >= 'A' ? (hex_low - 'A') + 10 : hex_low - '0');",
  'TB14', '_q_x2c', 'lower-case low digit not folded')

# ---- wave 5 rules ------------------------------------------------------------------------------
M('c05-head-order', 'C05', 'src/containers/qhashtbl.c',
  "        if (tbl->slots[idx] != NULL) {\n            // insert at the beginning\n            obj->next = tbl->slots[idx];\n        }\n        tbl->slots[idx] = obj;",
  "        tbl->slots[idx] = obj;\n        if (tbl->slots[idx] != NULL) {\n            // insert at the beginning\n            obj->next = tbl->slots[idx];\n        }",
  'S4', 'qhashtbl_put', 'head overwritten before the new node received the old head')
M('c05-cursor-hash', 'C05', 'src/containers/qhashtbl.c',
  "        obj->hash = cursor->hash;\n        obj->size = cursor->size;\n        obj->next = cursor->next;",
  "        obj->size = cursor->size;\n        obj->next = cursor->next;",
  'S5', 'qhashtbl_getnext', 'cursor keeps the hash of the previous entry: the walk resumes in the wrong slot')
M('c05-clear-slot', 'C05', 'src/containers/qhashtbl.c',
  "        qhashtbl_obj_t *obj = tbl->slots[idx];\n        tbl->slots[idx] = NULL;\n        while (obj != NULL) {",
  "        qhashtbl_obj_t *obj = tbl->slots[idx];\n        while (obj != NULL) {",
  'S6', 'qhashtbl_clear', 'slot keeps pointing at the freed chain')
M('c05-get-hash-only', 'C05', 'src/containers/qhashtbl.c',
  "    qhashtbl_obj_t *obj;\n    for (obj = tbl->slots[idx]; obj != NULL; obj = obj->next) {\n        if (obj->hash == hash && !strcmp(obj->name, name)) {\n            break;\n        }\n    }\n\n    void *data = NULL;",
  "    qhashtbl_obj_t *obj;\n    for (obj = tbl->slots[idx]; obj != NULL; obj = obj->next) {\n        if (obj->hash == hash) {\n            break;\n        }\n    }\n\n    void *data = NULL;",
  'S2', 'qhashtbl_get', 'colliding keys taken for one')
M('c15-fixup-bypass', 'C15', 'src/containers/qtreetbl.c',
  "    // fix right-leaning reds on the way up\n    if (is_red(obj->right) && !is_red(obj->left)) {",
  "    if (errno == ENOMEM) {\n        return obj;\n    }\n    // fix right-leaning reds on the way up\n    if (is_red(obj->right) && !is_red(obj->left)) {",
  'A5', 'put_obj', 'way-up fix-ups skipped on the failure status')
M('c11-free-before-copy', 'C11', 'src/containers/qtreetbl.c',
  "        void *copydata = qmemdup(data, datasize);\n        if (copydata != NULL || data == NULL || datasize == 0) {\n            free(obj->data);",
  "        free(obj->data);\n        void *copydata = qmemdup(data, datasize);\n        if (copydata != NULL || data == NULL || datasize == 0) {",
  'M3', 'put_obj', 'old value released before the copy is taken from a caller pointer that may alias it')
M('c11-hasharr-guard', 'C11', 'src/containers/qhasharr.c',
  "        if (maxslots < 1 || memsize <= sizeof(qhasharr_t)) {", "        if (maxslots < 1) {",
  'I9', 'qhasharr', 'only guard against the unsigned wrap dropped')
M('c07-hasharr-guard', 'C07', 'src/containers/qhasharr.c',
  "        if (maxslots < 1 || memsize <= sizeof(qhasharr_t)) {", "        if (maxslots < 1) {",
  'I9', 'qhasharr', 'only guard against the unsigned wrap dropped')
M('c13-getint-borrow', 'C13', 'src/containers/qhashtbl.c',
  "    char *str = qhashtbl_getstr(tbl, name, true);\n    if (str != NULL) {\n        num = atoll(str);\n        free(str);\n    }",
  "    const char *str = qhashtbl_getstr(tbl, name, false);\n    if (str != NULL) {\n        num = atoll(str);\n    }",
  'B-guard', 'qhashtbl_getint', 'value parsed through a borrowed pointer after the lock was released')
M('c13-plain-mutex', 'C13', 'src/containers/qvector.c',
  "        Q_MUTEX_NEW(vector->qmutex, true);", "        Q_MUTEX_NEW(vector->qmutex, false);",
  'B-recursive', 'qvector', 'non-recursive mutex under a user-visible lock')
M('c14-plain-mutex', 'C14', 'src/containers/qtreetbl.c',
  "        Q_MUTEX_NEW(tbl->qmutex, true);", "        Q_MUTEX_NEW(tbl->qmutex, false);",
  'A-recursive', 'qtreetbl', 'non-recursive mutex under a user-visible lock')
M('c12-strndup-key', 'C12', 'src/containers/qtreetbl.c',
  "    void *name = qmemdup(obj->name, obj->namesize);\n    qtreetbl_unlock(tbl);\n    return name;\n}\n\n/**\n * qtreetbl->find_max",
  "    void *name = strndup((const char *) obj->name, obj->namesize);\n    qtreetbl_unlock(tbl);\n    return name;\n}\n\n/**\n * qtreetbl->find_max",
  'R2-bin', 'qtreetbl_find_min', 'binary key duplicated as a string')


# ---------------------------------------------------------------------------------------------------------
# Corpus self-test (thorough tier): the independently seeded changes kept under /verif/seeded must be reported by
# this property's rules, and the behaviour-preserving refactorings under /verif/refactors must leave them silent.
# Patches are applied with `git apply` to a scratch copy of the sources under /tmp (never to /repo); a patch that no
# longer applies to the current tree is skipped and reported as skipped.

def run_corpus(prop, rep, rule_fn, config='cmake-release'):
    import glob
    import json
    import subprocess
    root = repo_root()
    verif = os.path.dirname(os.path.dirname(os.path.abspath(__file__)))
    rep.rule('CORPUS', 'both-ways test on the kept corpus: every seeded change attributed to this check is reported, every '
                       'behaviour-preserving refactoring leaves it silent')
    jobs = []
    for mp in sorted(glob.glob(os.path.join(verif, 'seeded', '*', 'meta.json'))):
        try:
            m = json.load(open(mp))
        except (OSError, ValueError):
            continue
        who = m.get('detect_with') or m.get('property')
        if who != prop:
            continue
        expect = 'miss' if str(m.get('detected_by', '')).startswith('NOT DETECTED') else 'alarm'
        jobs.append((m.get('id'), os.path.join(os.path.dirname(mp), 'patch.diff'), expect))
    for pp in sorted(glob.glob(os.path.join(verif, 'refactors', '*', 'patch.diff'))):
        jobs.append(('refactor:' + os.path.basename(os.path.dirname(pp)), pp, 'silent'))
    results = []
    from .dataflow import register_identity_functions
    for (jid, patch, expect) in jobs:
        scratch = tempfile.mkdtemp(prefix='qv-corpus-', dir='/tmp')
        try:
            for d in ('src', 'include'):
                shutil.copytree(os.path.join(root, d), os.path.join(scratch, d))
            shutil.copy(os.path.join(root, 'CMakeLists.txt'), scratch)
            r = subprocess.run(['git', 'apply', '--unsafe-paths', '--directory=' + scratch, patch], cwd='/', capture_output=True, text=True)
            if r.returncode != 0:
                r = subprocess.run(['patch', '-p1', '-s', '-d', scratch, '-i', patch], capture_output=True, text=True)
            if r.returncode != 0:
                results.append({'case': jid, 'status': 'skipped', 'why': 'patch does not apply to the current tree'})
                continue
            scratch_real = os.path.realpath(scratch)
            from .props import FLOORS

            def analyse(view):
                sub_ = Report(prop, rep.tier)
                sub_.cur_config = config
                broken_ = None
                expanded = True
                try:
                    prog = load_program(config, scratch_real)
                    if view:
                        from .inline import inlined_view
                        prog, done = inlined_view(prog)
                        expanded = bool(done)
                    register_identity_functions(prog)
                    rule_fn(prog, sub_)
                    for rid, n in FLOORS.get(prop, {}).items():
                        if rid in sub_.rules:
                            sub_.floor(rid, n)
                except AnalysisBroken as e:
                    broken_ = str(e)[:200]
                if sub_.broken and not broken_:
                    broken_ = sub_.broken[0][:200]
                return sub_, broken_, expanded
            sub, broken, _x = analyse(False)
            if broken:
                # the same fall-back as the registered check: the inlined view, accepted only when completely clean
                sub2, broken2, expanded = analyse(True)
                if expanded and not broken2 and not sub2.findings:
                    sub, broken = sub2, None
            rep.instance('CORPUS')
            documented = None
            if expect == 'silent':
                try:
                    ex = open(os.path.join(os.path.dirname(patch), 'expect.txt')).read().split('\n')
                except OSError:
                    ex = []
                if '%s analysis-broken' % prop in ex and broken and not sub.findings:
                    documented = 'documented: no verdict (analysis-broken) on this refactoring'
                elif '%s false-alarm' % prop in ex and sub.findings:
                    documented = 'documented FALSE ALARM on this refactoring (not corrected, see DESIGN.md section 8)'
            if documented:
                ok = True
            elif expect == 'alarm':
                ok = bool(sub.findings)
            elif expect == 'miss':
                ok = True          # documented miss: recorded, nothing demanded
            else:
                ok = not sub.findings and not broken
            rep.oblige('CORPUS', ok, {'case': jid, 'expected': expect, 'findings': len(sub.findings), 'broken': broken})
            results.append({'case': jid, 'expected': expect, 'findings': len(sub.findings), 'broken': broken,
                            'status': (documented or 'ok') if ok else 'UNEXPECTED'})
            if not ok:
                rep.broken.append('corpus case %s: expected %s, got %d finding(s)%s' % (
                    jid, expect, len(sub.findings), (' / ' + broken) if broken else ''))
        finally:
            shutil.rmtree(scratch, ignore_errors=True)
            for k in [k for k in _prog_cache if k[1] != root]:
                del _prog_cache[k]
    rep.notes['corpus'] = results
    register_identity_functions(load_program(config, root))
    return results

# ---- wave 6 rules ------------------------------------------------------------------------------
M('c05-fresh-cursor', 'C05', 'src/containers/qhashtbl.c',
  "    if (obj->name != NULL) {\n        idx = (obj->hash % tbl->range) + 1;", "    if (obj->hash != 0 || obj->next != NULL) {\n        idx = (obj->hash % tbl->range) + 1;",
  'S7', 'qhashtbl_getnext', 'a used cursor with hash 0 at the end of a chain looks fresh')
M('c10-shift-distance', 'C10', 'src/containers/qvector.c',
  "        void *src = (unsigned char *)vector->data + vector->objsize * (i - 1);", "        void *src = (unsigned char *)vector->data + vector->objsize * (i - 2);",
  'G2', 'qvector_addat', 'tail shifted by two elements')
M('c16-urldec-remap', 'C16', 'src/utilities/qencode.c',
  "                    *pBinPt++ = _q_x2c(*(pEncPt + 1), *(pEncPt + 2));\n                    pEncPt += 2;",
  "                    *pBinPt++ = _q_x2c(*(pEncPt + 1), *(pEncPt + 2)) == '+' ? ' ' : _q_x2c(*(pEncPt + 1), *(pEncPt + 2));\n                    pEncPt += 2;",
  'TB7', 'qurl_decode', 'a decoded %2b mapped again to a space')
M('c16-urldec-consume', 'C16', 'src/utilities/qencode.c',
  "                    *pBinPt++ = _q_x2c(*(pEncPt + 1), *(pEncPt + 2));\n                    pEncPt += 2;",
  "                    *pBinPt++ = _q_x2c(*(pEncPt + 1), *(pEncPt + 2));\n                    pEncPt += 1;",
  'TB7', 'qurl_decode', 'escape consumes two bytes only')
M('c16-enc-shrink', 'C16', 'src/utilities/qencode.c',
  "    *pszEncPt = '\\0';\n\n    return pszEncStr;", "    *pszEncPt = '\\0';\n    pszEncStr = (char *) realloc(pszEncStr, pszEncPt - pszEncStr);\n\n    return pszEncStr;",
  'TB15', 'qurl_encode', 'output shrunk to the string length without the terminator')
M('c16-hexdec-strlen', 'C16', 'src/utilities/qencode.c',
  "    *pBinPt = '\\0';\n\n    return (pBinPt - str);\n}\n\n/**\n * Encode data to Hexadecimal", "    *pBinPt = '\\0';\n\n    return strlen(str);\n}\n\n/**\n * Encode data to Hexadecimal",
  'TB16', 'qbase64_decode', 'decoded length taken with strlen')
M('c04-search-bumps-tid', 'C04', 'src/containers/qtreetbl.c',
  "    qtreetbl_lock(tbl);\n    if (tbl->root != NULL) {\n        // the climb below stops at the root",
  "    qtreetbl_lock(tbl);\n    reset_iterator(tbl);\n    if (tbl->root != NULL) {\n        // the climb below stops at the root",
  'T7', None, 'search advances the traversal id')
M('c04-key-copy-len', 'C04', 'src/containers/qtreetbl.c',
  "            retobj.name = qmemdup(obj->name, obj->namesize);", "            retobj.name = qmemdup(obj->name, namesize);",
  'R2-src', 'qtreetbl_find_nearest', 'found key copied with the probe key\'s length')
M('c12-key-copy-len', 'C12', 'src/containers/qtreetbl.c',
  "            retobj.name = qmemdup(obj->name, obj->namesize);", "            retobj.name = qmemdup(obj->name, namesize);",
  'R2-src', 'qtreetbl_find_nearest', 'found key copied with the probe key\'s length')
M('c17-include-token', 'C17', 'src/extensions/qconfig.c',
  "            char token[CONST_STRLEN(_INCLUDE_DIRECTIVE) + PATH_MAX];", "            char token[PATH_MAX];",
  'BW1', 'qconfig_parse_file', 'directive token buffer without room for the directive itself')

# ---- wave 7 rules ------------------------------------------------------------------------------
M('c09-addat-backlink', 'C09', 'src/containers/qlist.c',
  "        obj->next = tgt;\n        tgt->prev = obj;", "        obj->next = tgt;",
  'DL2', 'qlist_addat', 'successor keeps pointing at its old predecessor')
M('c09-addfirst-backlink', 'C09', 'src/containers/qlist.c',
  "        obj->next = list->first;\n        if (obj->next != NULL)\n            obj->next->prev = obj;\n        list->first = obj;",
  "        obj->next = list->first;\n        list->first = obj;",
  'DL2', 'qlist_addat', 'old head not linked back to the new head')
M('c09-addlast-tail', 'C09', 'src/containers/qlist.c',
  "        if (obj->prev != NULL)\n            obj->prev->next = obj;\n        list->last = obj;", "        if (obj->prev != NULL)\n            obj->prev->next = obj;",
  'DL2', 'qlist_addat', 'tail pointer not moved to the appended element')
M('c08-insertobj-tail', 'C08', 'src/containers/qlisttbl.c',
  "    if (next == NULL) tbl->last = obj;\n    else next->prev = obj;", "    if (next != NULL) next->prev = obj;",
  'DL2', 'insertobj', 'tail pointer not set when appending')
M('c09-clear-memset', 'C09', 'src/containers/qlist.c',
  "    list->num = 0;\n    list->datasum = 0;\n    list->first = NULL;\n    list->last = NULL;", "    memset(&list->num, 0, sizeof(qlist_t) - ((char *) &list->num - (char *) list));",
  'E6', 'qlist_clear', 'size limit wiped by a block fill')
M('c08-getmulti-growth', 'C08', 'src/containers/qlisttbl.c',
  "        if (numfound >= allocobjs) {", "        if (numfound > allocobjs) {",
  'GR1', 'qlisttbl_getmulti', 'no slot for the end marker')
M('c19-vsnprintf-fit', 'C19', 'src/internal/qinternal.h',
  "            if (_n >= 0 && _n < _strsize) break;", "            if (_n >= 0 && _n <= _strsize) break;",
  'W5', None, 'truncated vsnprintf output accepted when its length equals the buffer size')
M('c17-free-moved', 'C17', 'src/utilities/qencode.c',
  "    while (newquery && *newquery) {\n        char *value = _q_makeword(newquery, sepchar);",
  "    while (newquery && *newquery) {\n        if (*newquery == sepchar) { newquery++; continue; }\n        char *value = _q_makeword(newquery, sepchar);",
  'M6', 'qparse_queries', 'allocation base advanced before free')
M('c20-bool-prefix', 'C20', 'src/extensions/qaconf.c',
  "    if (!strcasecmp(s, \"true\"))", "    if (!strncasecmp(s, \"true\", strlen(s)))",
  'B1', '_is_str_bool', 'prefix match accepts abbreviations and the empty word')
M('c17-bool-prefix', 'C17', 'src/extensions/qaconf.c',
  "    if (!strcasecmp(s, \"true\"))", "    if (!strncasecmp(s, \"true\", strlen(s)))",
  'CU5', '_is_str_bool', 'prefix match accepts the empty word, which is then overwritten in place')

# ---- wave 8 rules ------------------------------------------------------------------------------
M('c15-errno-overwrite', 'C15', 'src/containers/qlisttbl.c',
  "                    nomem = true;\n                    break;\n                }\n                memcpy(obj->data, cont->data, cont->size);",
  "                    nomem = true;\n                    errno = ENOMEM;\n                    break;\n                }\n                memcpy(obj->data, cont->data, cont->size);",
  'A7', 'qlisttbl_getnext', 'ENOMEM stored on the failure branch and overwritten by the trailing errno assignment')
M('c15-ctor-free', 'C15', 'src/containers/qvector.c',
  "        void *data = malloc(max * objsize);\n        if (data == NULL) {\n            free(vector);",
  "        void *data = malloc(max * objsize);\n        if (data == NULL) {\n            qvector_free(vector);",
  'A8', 'qvector', 'destructor dispatching through the unassigned method table on a failure exit')
M('c20-typecheck-bound', 'C20', 'src/extensions/qaconf.c',
  "j < cbdata->argc && j <= MAX_TYPECHECK; j++", "j < cbdata->argc; j++",
  'B6', '_parse_inline', 'per-argument flag shifted beyond its group')
M('c20-lineno-reset', 'C20', 'src/extensions/qaconf.c',
  "    qaconf->lineno = 0;\n", "",
  'B7', 'parse', 'line counter not reset between parses')
