"""C07: static hash table image is self-contained, relocatable, bounded (rules I1-I6)."""
import os
import re
import subprocess
import tempfile
from .frontend import walk, children, strip, strip_parens, qtype, dtype, CONFIGS, Ext, AnalysisBroken
from .expr import canon, access_path, int_value, var_init, array_len, is_null
from .dataflow import ReachingDefs, origins, canon_subst
from .copy import _dominating_true

UNIT = 'src/containers/qhasharr.c'
IMAGE_RECORDS = ('qhasharr_data_s', 'qhasharr_slot_s')


def image_record_closure(u):
    """All records reachable from the image records through by-value members."""
    seen = []
    work = list(IMAGE_RECORDS)
    while work:
        r = work.pop()
        if r in seen or r not in u.record_fields:
            continue
        seen.append(r)
        for fl in u.record_fields[r]:
            if fl.get('record'):
                work.append(fl['record'])
            t = fl['type']
            m = re.match(r'(?:const )?(?:struct|union) (\w+)', t)
            if m and m.group(1) in u.record_fields:
                work.append(m.group(1))
            # nested named records are indexed with their plain name
            for rn in u.record_fields:
                if rn in t and rn not in seen:
                    work.append(rn)
    return seen


def clang_sizeof(prog, exprs):
    """Let the compiler evaluate sizeof/constant expressions: {text: int}."""
    if not exprs:
        return {}
    root = prog.root
    src = '#include "qlibc.h"\n#include "qlibcext.h"\n#include "qinternal.h"\n'
    names = {}
    for i, e in enumerate(sorted(set(exprs))):
        names['qv_sz_%d' % i] = e
        src += 'unsigned long qv_sz_%d = (unsigned long)(%s);\n' % (i, e)
    with tempfile.NamedTemporaryFile('w', suffix='.c', dir='/tmp', delete=False) as fh:
        fh.write(src)
        path = fh.name
    try:
        cmd = ['clang'] + CONFIGS[prog.config] + ['-I' + os.path.join(root, 'src/internal'),
                                                  '-I' + os.path.join(root, 'include/qlibc'), '-w', '-S', '-emit-llvm', '-o', '-', path]
        r = subprocess.run(cmd, capture_output=True, text=True)
    finally:
        os.unlink(path)
    out = {}
    if r.returncode != 0:
        return out
    for m in re.finditer(r'@(qv_sz_\d+) = .*global i64 (\d+)', r.stdout):
        out[names[m.group(1)]] = int(m.group(2))
    return out


def _sizeof_texts(e):
    """source-level sizeof(...) sub-expressions of e, as C text"""
    out = []
    for x in walk(e):
        if x.get('kind') == 'UnaryExprOrTypeTraitExpr' and x.get('name') == 'sizeof':
            at = (x.get('argType') or {}).get('qualType')
            if at:
                out.append((x, 'sizeof(%s)' % at))
    return out


INF = None


def expr_bound(e, state, sizes):
    """Upper bound of integer expression e given variable bounds in `state` (name -> int or absent)."""
    s = strip(e)
    v = int_value(s)
    if v is not None and not isinstance(v, str):
        return v
    k = s.get('kind')
    if k == 'UnaryExprOrTypeTraitExpr':
        at = (s.get('argType') or {}).get('qualType')
        if at and ('sizeof(%s)' % at) in sizes:
            return sizes['sizeof(%s)' % at]
        if children(s):
            t = qtype(strip_parens(children(s)[0]))
            n = array_len(t)
            if n is not None and ('char' in t or 'uint8_t' in t):
                return n
        return INF
    if k == 'ConditionalOperator':
        c, a, b = children(s)
        cs = strip_parens(c)
        ua, ub = expr_bound(a, state, sizes), expr_bound(b, state, sizes)
        if cs.get('kind') == 'BinaryOperator' and cs.get('opcode') in ('<', '<=', '>', '>='):
            l, r = children(cs)
            op = cs.get('opcode')
            kb = expr_bound(r, state, sizes)
            if op in ('<', '<=') and canon(l) == canon(a) and kb is not None and ub is not None:
                return max(kb, ub)          # (x < K) ? x : K
            if op in ('>', '>=') and canon(l) == canon(b) and kb is not None and ua is not None:
                return max(kb, ua)          # (x > K) ? K : x
        if ua is not None and ub is not None:
            return max(ua, ub)
        return INF
    if k == 'BinaryOperator' and s.get('opcode') in ('*', '+'):
        a, b = [expr_bound(c, state, sizes) for c in children(s)]
        if a is None or b is None:
            return INF
        return a * b if s.get('opcode') == '*' else a + b
    if k == 'BinaryOperator' and s.get('opcode') == '%':
        b = expr_bound(children(s)[1], state, sizes)
        return b - 1 if b is not None else INF
    if k == 'BinaryOperator' and s.get('opcode') == '&':
        bs = [expr_bound(c, state, sizes) for c in children(s)]
        bs = [b for b in bs if b is not None]
        return min(bs) if bs else INF
    if k == 'DeclRefExpr' and (s.get('_ref') or ('',))[0] in ('local', 'param'):
        return state.get(s['_ref'][2], INF)
    if k == 'CallExpr' and _PROG.get('prog') is not None:
        # a pure helper whose body is a single `return <expr over its parameters>` (e.g. an inline min()): the bound of the
        # return expression with the parameters bound to the bounds of the arguments
        f0 = strip(children(s)[0])
        nm = (f0.get('referencedDecl') or {}).get('name') if f0.get('kind') == 'DeclRefExpr' else None
        g = _PROG['prog'].resolve_name(_PROG.get('unit'), nm) if nm else None
        if g is not None and getattr(g, 'body', None) is not None:
            stmts = [c for c in children(g.body)]
            if len(stmts) == 1 and stmts[0].get('kind') == 'ReturnStmt' and children(stmts[0]):
                st2 = {}
                for p_, a in zip(g.params, children(s)[1:]):
                    b = expr_bound(a, state, sizes)
                    if b is not None:
                        st2[p_.get('name')] = b
                return expr_bound(children(stmts[0])[0], st2, sizes)
            # a static helper with a body of its own (`static size_t store_chunk(slot, data, size)` clamping and returning the
            # amount): the largest bound over its value returns, its parameters bound by the bounds of the arguments
            if getattr(g, 'static', False) and len(_PROG.setdefault('stack', [])) < 3 and g.name not in _PROG['stack']:
                st2 = {}
                for p_, a in zip(g.params, children(s)[1:]):
                    b = expr_bound(a, state, sizes)
                    if b is not None:
                        st2[p_.get('name')] = b
                _PROG['stack'].append(g.name)
                try:
                    bf = BoundFlow(g, sizes, init=st2)
                    best = 0
                    rets = [r for r in g.cfg.returns() if r.id in g.cfg.reachable and children(r.ast)]
                    if not rets:
                        return INF
                    for r in rets:
                        b = bf.bound_at(r, children(r.ast)[0], sizes)
                        if b is None:
                            return INF
                        best = max(best, b)
                    return best
                finally:
                    _PROG['stack'].pop()
    return INF


_PROG = {}


class BoundFlow:
    """Forward dataflow of upper bounds of integer locals/params (join = max, guards refine)."""

    def __init__(self, f, sizes, init=None):
        from .dataflow import node_defs
        self.f = f
        cfg = f.cfg
        names = {}
        for x in walk(f.decl):
            if x.get('kind') in ('VarDecl', 'ParmVarDecl'):
                names[x.get('id')] = x.get('name')
        self.IN = {cfg.entry.id: dict(init or {})}
        visits = {}
        work = [cfg.entry]
        while work:
            n = work.pop()
            st = dict(self.IN[n.id])
            for (var, rhs, kind, _line) in node_defs(n):
                nm = names.get(var)
                if nm is None:
                    continue
                if kind in ('init', 'assign') and rhs is not None:
                    b = expr_bound(rhs, st, sizes)
                    if b is None:
                        st.pop(nm, None)
                    else:
                        st[nm] = b
                else:
                    st.pop(nm, None)
            for (s, lab) in n.succs:
                st2 = st
                if n.kind == 'cond' and lab in ('T', 'F') and isinstance(n.ast, dict):
                    st2 = self._refine(n.ast, lab, st, sizes)
                old = self.IN.get(s.id)
                if old is None:
                    self.IN[s.id] = dict(st2)
                    work.append(s)
                    continue
                new = {}
                for k, v in old.items():
                    if k in st2:
                        new[k] = max(v, st2[k])
                if new != old:
                    visits[s.id] = visits.get(s.id, 0) + 1
                    if visits[s.id] > 6:       # widening: a bound that keeps growing is dropped
                        new = {k: v for k, v in new.items() if old.get(k) == v}
                    self.IN[s.id] = new
                    work.append(s)

    @staticmethod
    def _refine(cond, lab, st, sizes):
        c = strip_parens(cond)
        if c.get('kind') != 'BinaryOperator' or c.get('opcode') not in ('<', '<=', '>', '>='):
            return st
        l, r = children(c)
        op = c.get('opcode')
        ls = strip(l)
        if ls.get('kind') != 'DeclRefExpr' or (ls.get('_ref') or ('',))[0] not in ('local', 'param'):
            return st
        nm = ls['_ref'][2]
        kb = expr_bound(r, st, sizes)
        if kb is None:
            return st
        b = None
        if lab == 'T' and op == '<':
            b = kb - 1
        elif lab == 'T' and op == '<=':
            b = kb
        elif lab == 'F' and op == '>':
            b = kb
        elif lab == 'F' and op == '>=':
            b = kb - 1
        if b is None:
            return st
        st2 = dict(st)
        st2[nm] = min(b, st[nm]) if nm in st else b
        return st2

    def bound_at(self, node, e, sizes):
        return expr_bound(e, self.IN.get(node.id, {}), sizes)


def rule_c07(prog, rep):
    u = prog.unit(UNIT)
    _PROG.update(prog=prog, unit=u)
    rep.rule('I1', 'image records (header, slot and everything nested by value) contain no pointer / function pointer / pointer-sized integer member')
    rep.rule('I2', 'no pointer value is converted to an integer in qhasharr.c and image fields are accessed in qhasharr.c only')
    rep.rule('I3', 'attach mode (memsize == 0) writes nothing to the region: every store/memset to it in the constructor is under memsize > 0')
    rep.rule('I4', 'every memcpy/memset into a slot field is bounded by that field; stored lengths fit their integer field')
    rep.rule('I5', 'the header counters are written only by put_data (++), remove_data (--), clear and the constructor (= 0)')
    rep.rule('I6', 'each slot move copy_slot(d, s) is followed on every path by remove_slot(s) and the back-link repair')
    # ---- I1
    recs = image_record_closure(u)
    rep.broken_if(not all(r in recs for r in IMAGE_RECORDS), 'image records not found: %s' % (recs,))
    rep.notes['image_records'] = recs
    for r in recs:
        for fl in u.record_fields[r]:
            rep.instance('I1')
            t = fl['type']
            d = fl['dtype']
            bad = ('*' in t) or ('(*)' in t) or re.search(r'\b(u?intptr_t|ptrdiff_t|size_t|ssize_t|off_t)\b', t) or \
                  ('*' in d)
            rep.oblige('I1', not bad, {'record': r, 'field': fl['name'], 'type': t})
            if bad:
                rep.violation('I1', ('include/qlibc/containers/qhasharr.h', r), fl.get('line'), '%s.%s' % (r, fl['name']),
                              'image member %s.%s has type %s: process addresses (or address-sized values) inside the '
                              'region make it non-relocatable' % (r, fl['name'], t))
    # ---- I2
    imgset = set(recs)
    for f in prog.funcs.values():
        for x in walk(f.body):
            k = x.get('kind')
            if f.unit.rel == UNIT and k in ('CStyleCastExpr', 'ImplicitCastExpr') and x.get('castKind') == 'PointerToIntegral':
                rep.instance('I2')
                rep.oblige('I2', False)
                rep.violation('I2', f, x.get('_line'), 'ptr2int:%s' % canon(x)[:40],
                              'a pointer is converted to an integer (%s): it could be stored in the image' % canon(x)[:60])
            if k == 'MemberExpr' and x.get('_field') and x['_field'][0] in imgset:
                if f.unit.rel != UNIT:
                    rep.instance('I2')
                    rep.oblige('I2', False)
                    rep.violation('I2', f, x.get('_line'), 'access:%s.%s' % (x['_field'][0], x['_field'][1]),
                                  'image field %s.%s is accessed outside qhasharr.c' % (x['_field'][0], x['_field'][1]))
    nacc = sum(1 for f in prog.funcs_in(UNIT) for x in walk(f.body)
               if x.get('kind') == 'MemberExpr' and x.get('_field') and x['_field'][0] in imgset)
    rep.instance('I2', nacc)
    for _ in range(nacc):
        rep.oblige('I2', True)
    # pointer-typed values stored into image fields
    for f in prog.funcs_in(UNIT):
        for x in walk(f.body):
            if x.get('kind') == 'BinaryOperator' and x.get('opcode') == '=':
                l = strip(children(x)[0])
                if l.get('kind') == 'MemberExpr' and l.get('_field') and l['_field'][0] in imgset:
                    rep.instance('I2')
                    rt = qtype(strip_parens(children(x)[1]))
                    ok = not rt.rstrip().endswith('*')
                    rep.oblige('I2', ok, {'function': f.name, 'store': canon(x)[:60]})
                    if not ok:
                        rep.violation('I2', f, x.get('_line'), 'store:%s' % canon(l), 'a pointer value is stored into the image: %s' % canon(x)[:80])
    # ---- I3
    ctor = prog.need_func('qhasharr')
    memparam = [p for p in ctor.params if qtype(p).rstrip().endswith('*')]
    sizeparam = [p for p in ctor.params if 'size_t' in qtype(p)]
    rep.broken_if(not memparam or not sizeparam, 'qhasharr(memory, memsize) signature not recognised')
    if memparam and sizeparam:
        rd = ReachingDefs(ctor)
        mname, sname = memparam[0].get('name'), sizeparam[0].get('name')
        guards = [n for n in ctor.cfg.nodes if n.kind == 'cond' and isinstance(n.ast, dict)
                  and canon(n.ast) in ('(%s > 0)' % sname, '(0 != %s)' % sname, '(0 < %s)' % sname, sname)]
        for n in ctor.cfg.nodes:
            if n.id not in ctor.cfg.reachable or not isinstance(n.ast, dict) or n.kind == 'macro':
                continue
            writes = []
            for x in walk(n.ast):
                if x.get('kind') == 'BinaryOperator' and x.get('opcode') == '=':
                    l = strip(children(x)[0])
                    if l.get('kind') in ('MemberExpr', 'ArraySubscriptExpr', 'UnaryOperator') and l.get('kind') != 'DeclRefExpr':
                        base = children(l)[0] if l.get('kind') != 'MemberExpr' or l.get('isArrow') else None
                        if base is not None and 'param:%s' % mname in origins(rd, n.id, base):
                            writes.append(x)
                elif x.get('kind') == 'CallExpr' and prog.callee_name(x) in ('memset', 'memcpy', 'memmove', 'strcpy'):
                    a = children(x)[1]
                    if 'param:%s' % mname in origins(rd, n.id, a):
                        writes.append(x)
            if writes:
                _i9_check(prog, rep, ctor, n, writes, sname)
            for w in writes:
                rep.instance('I3')
                ok = any(_dominating_true(ctor.cfg, g, n) and g.id in ctor.cfg.dominators()[n.id] for g in guards)
                rep.oblige('I3', ok, {'write': canon(w)[:70], 'line': w.get('_line')})
                if not ok:
                    rep.violation('I3', ctor, w.get('_line'), 'write:%s' % canon(w)[:40],
                                  'the constructor writes to the caller\'s region (%s) also when memsize == 0: attaching a '
                                  'second handle would modify/destroy the existing image' % canon(w)[:70])
    # ---- I4
    size_texts = set()
    for f in prog.funcs_in(UNIT):
        for (_x, t) in _sizeof_texts(f.body):
            size_texts.add(t)
    sizes = clang_sizeof(prog, size_texts)
    rep.notes['sizeof_values'] = sizes
    for f in sorted(prog.funcs_in(UNIT), key=lambda x: x.line or 0):
        rd = None
        for n in f.cfg.nodes:
            if n.id not in f.cfg.reachable or not isinstance(n.ast, dict) or n.kind == 'macro':
                continue
            for x in walk(n.ast):
                if x.get('kind') == 'CallExpr' and prog.callee_name(x) in ('memcpy', 'memset', 'memmove'):
                    args = children(x)[1:]
                    d = strip(args[0])
                    # destination is an array member of an image record
                    m = d
                    while m.get('kind') in ('UnaryOperator',) and m.get('opcode') == '&':
                        m = strip(children(m)[0])
                    if m.get('kind') == 'MemberExpr' and m.get('_field') and m['_field'][0] in imgset:
                        cap = array_len(qtype(m))
                        if cap is None:
                            continue
                        if rd is None:
                            rd = BoundFlow(f, sizes)
                        rep.instance('I4')
                        ub = rd.bound_at(n, args[2], sizes)
                        ok = ub is not None and ub <= cap
                        rep.oblige('I4', ok, {'function': f.name, 'dest': canon(m), 'capacity': cap,
                                              'length': canon(args[2])[:50], 'bound': ub})
                        if not ok:
                            rep.violation('I4', f, x.get('_line'), 'copy:%s' % canon(m),
                                          '%s() into %s (capacity %d bytes) with length %s whose upper bound is %s'
                                          % (prog.callee_name(x), canon(m), cap, canon(args[2])[:50],
                                             'unknown' if ub is None else ub))
                elif x.get('kind') == 'BinaryOperator' and x.get('opcode') == '=':
                    l = strip(children(x)[0])
                    if l.get('kind') == 'MemberExpr' and l.get('_field') and l['_field'][0] in imgset and \
                            l['_field'][1] in ('datasize', 'namesize'):
                        width = {'unsigned char': 255, 'unsigned short': 65535}.get(dtype(l) or qtype(l))
                        if width is None:
                            width = {'uint8_t': 255, 'uint16_t': 65535}.get(qtype(l))
                        if width is None:
                            continue
                        if l['_field'][1] == 'namesize':
                            continue   # documented: keys up to 65535 bytes; caller contract
                        if rd is None:
                            rd = BoundFlow(f, sizes)
                        rep.instance('I4')
                        ub = rd.bound_at(n, children(x)[1], sizes)
                        ok = ub is not None and ub <= width
                        rep.oblige('I4', ok, {'function': f.name, 'field': canon(l), 'max': width, 'bound': ub})
                        if not ok:
                            rep.violation('I4', f, x.get('_line'), 'trunc:%s' % l['_field'][1],
                                          '%s (max %d) is assigned %s whose upper bound is %s: the stored length truncates'
                                          % (canon(l), width, canon(children(x)[1])[:40], 'unknown' if ub is None else ub))
    # ---- I5
    allowed = {'put_data': ('++',), 'remove_data': ('--',), 'qhasharr_clear': ('=0',), 'qhasharr': ('=0',)}
    # a static helper all of whose call sites lie in one permitted writer (or in another such helper of it) is part of that
    # writer: it inherits the writer's permission (`account_slot()` split out of put_data)
    unit_funcs = [g for g in prog.funcs_in(UNIT) if g.body is not None]
    callers = {}
    for g in unit_funcs:
        for y in walk(g.body):
            if y.get('kind') == 'CallExpr':
                nm = prog.callee_name(y)
                if nm:
                    callers.setdefault(nm, set()).add(g.name)
    # a function whose address is taken can be called from anywhere
    addr_taken = set()
    for g in unit_funcs:
        par_ = {}
        for y in walk(g.body):
            for c_ in children(y):
                par_[id(c_)] = y
        for y in walk(g.body):
            if y.get('kind') == 'DeclRefExpr' and (y.get('_ref') or ('',))[0] == 'fn':
                p_ = par_.get(id(y))
                while p_ is not None and p_.get('kind') in ('ImplicitCastExpr', 'ParenExpr'):
                    q_ = par_.get(id(p_))
                    if q_ is not None and q_.get('kind') == 'CallExpr' and children(q_)[0] is p_:
                        break
                    p_ = q_
                else:
                    if p_ is None or p_.get('kind') != 'CallExpr':
                        addr_taken.add(y['_ref'][1])
    owner = {k: {k} for k in allowed}
    changed_ = True
    while changed_:
        changed_ = False
        for g in unit_funcs:
            if g.name in owner or not g.static or g.name in addr_taken:
                continue
            cs = callers.get(g.name)
            if cs and all(c in owner for c in cs):
                own = set().union(*[owner[c] for c in cs])
                if len(own) == 1:
                    owner[g.name] = own
                    changed_ = True
    for hname, own in owner.items():
        if hname not in allowed:
            allowed[hname] = allowed[next(iter(own))]
    rep.notes['counter_writer_helpers'] = sorted(h for h in owner if h not in ('put_data', 'remove_data', 'qhasharr_clear', 'qhasharr'))
    for f in prog.funcs.values():
        for x in walk(f.body):
            tgt = None
            how = None
            k = x.get('kind')
            if k == 'UnaryOperator' and x.get('opcode') in ('++', '--'):
                tgt, how = strip(children(x)[0]), x.get('opcode')
            elif k == 'CompoundAssignOperator':
                tgt, how = strip(children(x)[0]), x.get('opcode')
            elif k == 'BinaryOperator' and x.get('opcode') == '=':
                tgt = strip(children(x)[0])
                how = '=0' if int_value(children(x)[1]) == 0 else '=?'
            if tgt is not None and tgt.get('kind') == 'MemberExpr' and tgt.get('_field') \
                    and tgt['_field'][0] == 'qhasharr_data_s' and tgt['_field'][1] in ('num', 'usedslots'):
                rep.instance('I5')
                ok = how in allowed.get(f.name, ())
                rep.oblige('I5', ok, {'function': f.name, 'counter': tgt['_field'][1], 'op': how})
                if not ok:
                    rep.violation('I5', f, x.get('_line'), '%s:%s' % (tgt['_field'][1], how),
                                  'header counter %s is written (%s) in %s; only put_data (++), remove_data (--), clear and the '
                                  'constructor (= 0) may, so that counters move with slots' % (tgt['_field'][1], how, f.name))
    # ---- I6
    for f in prog.funcs_in(UNIT):
        rd = None
        for n in f.cfg.nodes:
            if n.id not in f.cfg.reachable or not isinstance(n.ast, dict) or n.kind == 'macro':
                continue
            for x in walk(n.ast):
                if x.get('kind') == 'CallExpr' and prog.callee_name(x) == 'copy_slot':
                    args = children(x)[1:]
                    if len(args) < 3:
                        continue
                    dd, ss = canon(args[1]), canon(args[2])
                    rep.instance('I6')

                    def is_remove(m):
                        return any(c.get('kind') == 'CallExpr' and prog.callee_name(c) == 'remove_slot'
                                   and len(children(c)) > 2 and canon(children(c)[2]) == ss for c in walk(m.ast)) \
                            if isinstance(m.ast, dict) and m.kind != 'macro' else False

                    def is_repair(m):
                        if not isinstance(m.ast, dict) or m.kind == 'macro':
                            return False
                        for c in walk(m.ast):
                            if c.get('kind') == 'BinaryOperator' and c.get('opcode') == '=':
                                l = canon(children(c)[0])
                                r = canon(children(c)[1])
                                if r == dd and re.search(r'\[\w+\[%s\]\.link\]\.hash$' % re.escape(dd), l):
                                    return True
                        return False
                    miss = []
                    if _path_avoiding(f.cfg, n, is_remove):
                        miss.append('remove_slot(%s)' % ss)
                    # the repair is conditional on link != -1: require that the guard exists on every path
                    if _path_avoiding(f.cfg, n, is_repair, lambda m, lab: _skip_link_edge(m, lab, dd)):
                        miss.append('back-link repair slots[slots[%s].link].hash = %s' % (dd, dd))
                    rep.oblige('I6', not miss, {'function': f.name, 'move': 'copy_slot(%s <- %s)' % (dd, ss)})
                    if miss:
                        rep.violation('I6', f, x.get('_line'), 'move:%s<-%s' % (dd, ss),
                                      'after copy_slot(%s, %s) some path reaches the function exit without %s'
                                      % (dd, ss, ' and without '.join(miss)))


def rule_i7(prog, rep, rid='I7'):
    """Payload/length pairing in the static hash table: a memcpy into a slot's value bytes is followed on
    every path by `slot.datasize = <that length>`."""
    rep.rule(rid, 'every copy into a slot\'s value bytes is followed on all paths by storing that length in the slot\'s datasize')
    prog.unit(UNIT)
    for f in sorted(prog.funcs_in(UNIT), key=lambda x: x.line or 0):
        for n in f.cfg.nodes:
            if n.id not in f.cfg.reachable or not isinstance(n.ast, dict) or n.kind == 'macro':
                continue
            for x in walk(n.ast):
                if x.get('kind') == 'CallExpr' and prog.callee_name(x) in ('memcpy', 'memmove'):
                    args = children(x)[1:]
                    d = strip(args[0])
                    if d.get('kind') == 'MemberExpr' and d.get('name') == 'data' and d.get('_field') and \
                            d['_field'][0] != 'qhasharr_slot_s' and 'SLOT' in d['_field'][0].upper():
                        # d = S.data.pair.data / S.data.ext.data ; the slot expression is three levels up
                        slot = d
                        for _ in range(3):
                            slot = strip(children(slot)[0])
                        sc = canon(slot)
                        ln = canon(args[2])
                        rep.instance(rid)

                        def sets_len(m):
                            if not isinstance(m.ast, dict) or m.kind == 'macro':
                                return False
                            return any(y.get('kind') == 'BinaryOperator' and y.get('opcode') == '=' and
                                       canon(children(y)[0]) in (sc + '.datasize', sc + '->datasize') and canon(children(y)[1]) == ln
                                       for y in walk(m.ast))
                        ok = not _path_avoiding(f.cfg, n, sets_len)
                        if not ok:
                            ok = _i7_by_callers(prog, f, n, slot, sc, ln, sets_len)
                        rep.oblige(rid, ok, {'function': f.name, 'copy': canon(x)[:70], 'requires': '%s.datasize = %s' % (sc, ln)})
                        if not ok:
                            rep.violation(rid, f, x.get('_line'), 'len:%s' % sc,
                                          '%s bytes are copied into %s but some path returns without %s.datasize = %s: get() '
                                          'reports a stale length' % (ln, canon(d), sc, ln))


def rule_i8(prog, rep, rid='I8'):
    """A function that zeroes the header counters releases every slot: a memset over maxslots * sizeof(slot), or a
    loop over the whole slot array whose only exit is the index bound."""
    rep.rule(rid, 'whoever zeroes the header counters (clear) releases every slot: whole-array memset or a full scan bounded only by maxslots')
    prog.unit(UNIT)
    for f in sorted(prog.funcs_in(UNIT), key=lambda x: x.line or 0):
        zero = [x for x in walk(f.body) if x.get('kind') == 'BinaryOperator' and x.get('opcode') == '=' and int_value(children(x)[1]) == 0
                and strip(children(x)[0]).get('kind') == 'MemberExpr' and (strip(children(x)[0]).get('_field') or ('', ''))[:2] == ('qhasharr_data_s', 'usedslots')]
        if not zero or f.name == 'qhasharr':
            continue
        rep.instance(rid)
        ok = False
        how = 'no whole-array release found'
        for x in walk(f.body):
            if x.get('kind') == 'CallExpr' and prog.callee_name(x) == 'memset' and len(children(x)) > 3:
                sz = canon(children(x)[3])
                if 'maxslots' in sz and 'sizeof(qhasharr_slot_t)' in sz and ' * ' in sz and ' - ' not in sz and ' / ' not in sz:
                    ok, how = True, 'memset of %s bytes' % sz
        if not ok:
            for x in walk(f.body):
                if x.get('kind') in ('ForStmt', 'WhileStmt'):
                    cond = x['inner'][2] if x.get('kind') == 'ForStmt' else x['inner'][0]
                    releases = any(y.get('kind') == 'CallExpr' and prog.callee_name(y) in ('remove_slot', 'remove_data') for y in walk(x)) or \
                        any(y.get('kind') == 'BinaryOperator' and y.get('opcode') == '=' and canon(children(y)[0]).endswith('.count')
                            and int_value(children(y)[1]) == 0 for y in walk(x))
                    if not releases or not cond:
                        continue
                    c = strip_parens(cond)
                    simple = c.get('kind') == 'BinaryOperator' and c.get('opcode') in ('<', '!=') and canon(children(c)[1]).endswith('->maxslots')
                    has_break = any(y.get('kind') in ('BreakStmt', 'ReturnStmt', 'GotoStmt') for y in walk(x))
                    if simple and not has_break:
                        ok, how = True, 'full scan %s' % canon(c)
                    else:
                        how = 'the releasing loop can stop early (condition %s%s)' % (canon(c)[:60], ', break/return inside' if has_break else '')
        rep.oblige(rid, ok, {'function': f.name, 'release': how})
        if not ok:
            rep.violation(rid, f, zero[0].get('_line'), 'clear:%s' % f.name,
                          '%s zeroes the header counters but %s: slots (e.g. extension blocks of multi-slot values) can stay '
                          'occupied while the header says the table is empty' % (f.name, how))


def _skip_link_edge(m, lab, dd):
    """The branch of `slots[dd].link != -1` on which the link is -1 needs no repair."""
    if m.kind != 'cond' or not isinstance(m.ast, dict) or lab not in ('T', 'F'):
        return False
    e = strip_parens(m.ast)
    if e.get('kind') != 'BinaryOperator' or e.get('opcode') not in ('!=', '=='):
        return False
    a, b = children(e)
    ca, cb = canon(a), canon(b)
    if not ((('[%s].link' % dd) in ca and int_value(b) == -1) or (('[%s].link' % dd) in cb and int_value(a) == -1)):
        return False
    return (lab == 'F') if e.get('opcode') == '!=' else (lab == 'T')


def _flag_consts(cfg):
    """int/bool locals that are only ever assigned literal constants (flags), by decl id -> name"""
    from .expr import var_init
    cand, bad = {}, set()
    f = cfg.func
    for n in walk(f.body):
        k = n.get('kind')
        if k == 'VarDecl' and qtype(n) in ('int', 'bool', '_Bool'):
            init = var_init(n)
            if init is not None and (int_value(init) is None or isinstance(int_value(init), str)):
                bad.add(n.get('name'))
            cand[n.get('name')] = n
        elif k == 'BinaryOperator' and n.get('opcode') == '=':
            p = access_path(children(n)[0])
            v = int_value(children(n)[1])
            if p in cand or p is not None:
                if v is None or isinstance(v, str):
                    bad.add(p)
        elif k == 'CompoundAssignOperator' or (k == 'UnaryOperator' and n.get('opcode') in ('++', '--', '&')):
            p = access_path(children(n)[0])
            if p:
                bad.add(p)
    return {k for k in cand if k not in bad}


def _i7_by_callers(prog, f, n, slot, sc, ln, sets_len):
    """The copying function is a static helper working on a slot it was handed (`store_chunk(slot, data, size)`) and returns
    the copied length on every path that leaves without storing it: the pairing obligation moves to its call sites - after
    each call the returned amount is stored into the datasize of the slot that was passed, on every path."""
    if not f.static or slot.get('kind') != 'DeclRefExpr' or (slot.get('_ref') or ('',))[0] != 'param':
        return False
    pnames = [p.get('name') for p in f.params]
    if sc not in pnames:
        return False
    # every return reachable from the copy without the store returns the copied length
    seen, work = set(), [s for (s, _l) in n.succs]
    while work:
        m = work.pop()
        if m.id in seen or m is f.cfg.exit:
            continue
        seen.add(m.id)
        if sets_len(m):
            continue
        if m.kind == 'act' and isinstance(m.ast, dict) and m.ast.get('kind') == 'ReturnStmt':
            if not children(m.ast) or canon(children(m.ast)[0]) != ln:
                return False
            continue
        # the length variable must not change between the copy and the return
        if isinstance(m.ast, dict) and m.kind != 'macro' and any(
                y.get('kind') in ('BinaryOperator', 'CompoundAssignOperator') and (y.get('opcode') or '').endswith('=') and
                y.get('opcode') not in ('==', '!=', '<=', '>=') and canon(children(y)[0]) == ln for y in walk(m.ast)):
            return False
        for (s2, _l) in m.succs:
            work.append(s2)
    sites = 0
    for g in prog.funcs_in(UNIT):
        if g.body is None or g is f:
            continue
        for m in g.cfg.nodes:
            if m.id not in g.cfg.reachable or not isinstance(m.ast, dict) or m.kind == 'macro':
                continue
            for y in walk(m.ast):
                if y.get('kind') == 'CallExpr' and prog.callee_name(y) == f.name:
                    sites += 1
                    actual = canon(children(y)[1:][pnames.index(sc)])
                    if actual.startswith('(&') and actual.endswith(')'):
                        actual = actual[2:-1]
                    # the variable receiving the result
                    res = None
                    if m.ast.get('kind') == 'VarDecl' and strip(var_init(m.ast) or {}) is y:
                        res = m.ast.get('name')
                    else:
                        for z in walk(m.ast):
                            if z.get('kind') == 'BinaryOperator' and z.get('opcode') == '=' and strip(children(z)[1]) is y:
                                res = canon(children(z)[0])
                    if res is None:
                        return False

                    def stores(k, actual=actual, res=res):
                        if not isinstance(k.ast, dict) or k.kind == 'macro':
                            return False
                        return any(z.get('kind') == 'BinaryOperator' and z.get('opcode') == '=' and
                                   canon(children(z)[0]) in (actual + '.datasize', actual + '->datasize') and
                                   canon(children(z)[1]) == res for z in walk(k.ast))
                    if _path_avoiding(g.cfg, m, stores):
                        return False
    return sites > 0


def _path_avoiding(cfg, start, pred, skip_edge=None, target=None):
    """Is there a FEASIBLE path from `start` to the function exit that never passes a node satisfying pred?
    Feasibility: flag locals (only ever assigned literals) are tracked as constants along the path and branches
    on them are pruned."""
    from .expr import var_init
    flags = _flag_consts(cfg)

    def step_env(n, env):
        if not isinstance(n.ast, dict) or n.kind == 'macro':
            return env
        e = dict(env)
        a = n.ast
        if a.get('kind') == 'VarDecl' and a.get('name') in flags:
            init = var_init(a)
            if init is not None:
                e[a.get('name')] = int_value(init)
            return e
        for x in walk(a):
            if x.get('kind') == 'BinaryOperator' and x.get('opcode') == '=':
                p = access_path(children(x)[0])
                if p in flags:
                    e[p] = int_value(children(x)[1])
        return e

    def cond_value(n, env):
        c = strip_parens(n.ast)
        if c.get('kind') == 'BinaryOperator' and c.get('opcode') in ('==', '!='):
            a, b = children(c)
            p, v = access_path(a), int_value(b)
            if p is None:
                p, v = access_path(b), int_value(a)
            if p in env and v is not None and env[p] is not None:
                r = (env[p] == v)
                return r if c.get('opcode') == '==' else (not r)
            return None
        p = access_path(c)
        if p in env and env[p] is not None:
            return bool(env[p])
        return None

    # flag constants valid at `start` on every path from the entry (must-constant propagation, join = agreement)
    IN = {cfg.entry.id: {}}
    wl = [cfg.entry]
    while wl:
        n = wl.pop()
        out = step_env(n, IN[n.id])
        for (s2, lab) in n.succs:
            if s2 is cfg.exit:
                continue
            old = IN.get(s2.id)
            if old is None:
                IN[s2.id] = dict(out)
                wl.append(s2)
            else:
                new = {k: v for k, v in old.items() if k in out and out[k] == v}
                if new != old:
                    IN[s2.id] = new
                    wl.append(s2)
    seen = set()
    env0 = step_env(start, IN.get(start.id, {}))
    work = [(s, env0) for (s, _l) in start.succs if skip_edge is None or not skip_edge(start, _l)]
    while work:
        n, env = work.pop()
        if n is (target if target is not None else cfg.exit):
            return True
        if n is cfg.exit:
            continue
        key = (n.id, tuple(sorted(env.items())))
        if key in seen:
            continue
        seen.add(key)
        if pred(n):
            continue
        env2 = step_env(n, env)
        cv = cond_value(n, env2) if n.kind == 'cond' and isinstance(n.ast, dict) else None
        for (s, lab) in n.succs:
            if skip_edge is not None and skip_edge(n, lab):
                continue
            if cv is not None and lab in ('T', 'F') and (lab == 'T') != cv:
                continue
            work.append((s, env2))
    return False


def _i9_check(prog, rep, ctor, n, writes, sname, rid='I9'):
    """the region is written only when it is known to hold at least the image header (the slot count is obtained from the
    unsigned difference memsize - sizeof(header), which wraps for smaller regions)"""
    from .index import Facts
    facts9 = Facts(ctor).at(n)
    hdr = clang_sizeof(prog, ['sizeof(qhasharr_data_t)']).get('sizeof(qhasharr_data_t)')
    lb = None
    for (a, op, b, dom) in facts9:
        if a != sname:
            continue
        K = None
        if re.match(r'^\d+$', b):
            K = int(b)
        elif b.startswith('sizeof('):
            K = clang_sizeof(prog, [b]).get(b)
        if K is None:
            continue
        v = K + 1 if op == '>' else (K if op in ('>=', '==') else None)
        if v is not None and (lb is None or v > lb):
            lb = v
    # the validation may live in a helper:  v = g(memsize); if (v == 0) refuse;  - what does a non-zero result of g say
    # about its argument?  (must-facts about the parameter at every return of g that is not a literal 0)
    from .expr import var_init
    for y in walk(ctor.body):
        call = None
        vname = None
        if y.get('kind') == 'VarDecl' and var_init(y) is not None and strip(var_init(y)).get('kind') == 'CallExpr':
            call, vname = strip(var_init(y)), y.get('name')
        elif y.get('kind') == 'BinaryOperator' and y.get('opcode') == '=' and strip(children(y)[1]).get('kind') == 'CallExpr' \
                and strip(children(y)[0]).get('kind') == 'DeclRefExpr':
            call, vname = strip(children(y)[1]), canon(children(y)[0])
        if call is None or len(children(call)) != 2 or canon(children(call)[1]) != sname:
            continue
        nonzero = any(a == vname and ((op == '!=' and b == '0') or (op == '>' and b == '0') or (op == '>=' and b == '1'))
                      for (a, op, b, dom) in facts9)
        if not nonzero:
            continue
        for g in prog.callees(ctor.unit, call):
            if getattr(g, 'body', None) is None or not g.params:
                continue
            pn = g.params[0].get('name')
            gf = Facts(g)
            glb = None
            for r in g.cfg.returns():
                if not children(r.ast) or int_value(children(r.ast)[0]) == 0:
                    continue
                best = None
                for (a, op, b, dom) in gf.at(r):
                    if a != pn:
                        continue
                    K = int(b) if re.match(r'^\d+$', b) else (clang_sizeof(prog, [b]).get(b) if b.startswith('sizeof(') else None)
                    if K is None:
                        continue
                    v = K + 1 if op == '>' else (K if op in ('>=', '==') else None)
                    if v is not None and (best is None or v > best):
                        best = v
                glb = best if glb is None else (min(glb, best) if best is not None else None)
                if best is None:
                    glb = None
                    break
            if glb is not None and (lb is None or glb > lb):
                lb = glb
    rep.rule(rid, 'the constructor writes the image header only when memsize >= sizeof(header) is known (the slot count comes '
                  'from the unsigned difference memsize - sizeof(header), which wraps for smaller regions)')
    rep.instance(rid)
    ok9 = hdr is not None and lb is not None and lb >= hdr
    rep.oblige(rid, ok9, {'line': writes[0].get('_line'), 'memsize_lower_bound': lb, 'sizeof_header': hdr})
    if not ok9:
        rep.violation(rid, ctor, writes[0].get('_line'), 'hdr-bound:%s' % canon(writes[0])[:30],
                      'the region is written (%s) with only %s >= %s known, the header alone needs %s bytes: for a smaller '
                      'region the slot count memsize - sizeof(header) wraps around and the write leaves the region'
                      % (canon(writes[0])[:50], sname, lb if lb is not None else 1, hdr))


def _region_writes(prog, ctor, rd, n, mname):
    writes = []
    for x in walk(n.ast):
        if x.get('kind') == 'BinaryOperator' and x.get('opcode') == '=':
            l = strip(children(x)[0])
            if l.get('kind') in ('MemberExpr', 'ArraySubscriptExpr', 'UnaryOperator') and l.get('kind') != 'DeclRefExpr':
                base = children(l)[0] if l.get('kind') != 'MemberExpr' or l.get('isArrow') else None
                if base is not None and 'param:%s' % mname in origins(rd, n.id, base):
                    writes.append(x)
        elif x.get('kind') == 'CallExpr' and prog.callee_name(x) in ('memset', 'memcpy', 'memmove', 'strcpy'):
            a = children(x)[1]
            if 'param:%s' % mname in origins(rd, n.id, a):
                writes.append(x)
    return writes


def rule_i9(prog, rep, rid='I9'):
    """stand-alone form of I9 (used by C11: the static hash table never touches a byte outside the supplied region)"""
    ctor = prog.need_func('qhasharr')
    memparam = [p for p in ctor.params if qtype(p).rstrip().endswith('*')]
    sizeparam = [p for p in ctor.params if 'size_t' in qtype(p)]
    if not memparam or not sizeparam:
        raise AnalysisBroken('qhasharr(memory, memsize) signature not recognised')
    rd = ReachingDefs(ctor)
    found = 0
    for n in ctor.cfg.nodes:
        if n.id not in ctor.cfg.reachable or not isinstance(n.ast, dict) or n.kind == 'macro':
            continue
        w = _region_writes(prog, ctor, rd, n, memparam[0].get('name'))
        if w:
            found += 1
            _i9_check(prog, rep, ctor, n, w, sizeparam[0].get('name'), rid)
    if not found:
        raise AnalysisBroken('qhasharr: no write into the region found in the constructor')


# --------------------------------------------------------------------------------------
# I10: the key digest is consulted only for key sizes for which it was computed

def _concrete_reach(cfg, param, v, target, avoid=None):
    """Is `target` (a node predicate) reachable from the entry when the integer parameter `param` has the value v (conditions
    comparing it with constants are decided, every other condition may go both ways), on a path avoiding `avoid` nodes?"""
    import operator
    ops = {'<': operator.lt, '<=': operator.le, '>': operator.gt, '>=': operator.ge, '==': operator.eq, '!=': operator.ne}
    seen = set()
    work = [cfg.entry]
    while work:
        n = work.pop()
        if n.id in seen:
            continue
        seen.add(n.id)
        if target(n):
            return n
        if avoid is not None and avoid(n):
            continue
        decided = None
        if n.kind == 'cond' and isinstance(n.ast, dict):
            c = strip_parens(n.ast)
            if c.get('kind') == 'BinaryOperator' and c.get('opcode') in ops:
                l, r = children(c)
                if access_path(l) == param and int_value(r) is not None:
                    decided = ops[c['opcode']](v, int_value(r))
                elif access_path(r) == param and int_value(l) is not None:
                    decided = ops[c['opcode']](int_value(l), v)
        for (s, lab) in n.succs:
            if decided is not None and lab in ('T', 'F') and (lab == 'T') != decided:
                continue
            work.append(s)
    return None


def rule_i10(prog, rep, rid='I10'):
    """Writer/reader agreement on the key digest.  The slot's digest field is filled by the writer from a local buffer; the
    reader compares the lookup key's digest with it.  For every key size the reader can consult the field for, the writer
    must have computed the digest into that buffer (not stored a placeholder): decided per key size, the sizes taken from
    the constants the two functions compare the size with (the behaviour is constant between them)."""
    rep.rule(rid, 'for every key size at which the lookup consults the stored key digest, the writer computed that digest before storing it '
                  '(writer and reader agree on which keys carry a digest)')
    prog.unit(UNIT)
    writers, readers = [], []
    for f in prog.funcs_in(UNIT):
        if f.body is None:
            continue
        for n in f.cfg.nodes:
            if n.id not in f.cfg.reachable or not isinstance(n.ast, dict) or n.kind == 'macro':
                continue
            for x in walk(n.ast):
                if x.get('kind') != 'CallExpr':
                    continue
                nm = prog.callee_name(x)
                args = [strip(a) for a in children(x)[1:]]
                if nm in ('memcpy', 'memmove') and len(args) >= 2 and args[0].get('kind') == 'MemberExpr' and args[0].get('name') == 'namemd5':
                    writers.append((f, n, x, canon(args[1])))
                elif nm == 'memcmp' and any(a.get('kind') == 'MemberExpr' and a.get('name') == 'namemd5' for a in args[:2]):
                    readers.append((f, n, x))
    if not writers or not readers:
        return

    def size_param(f, buf=None):
        """the size argument of the digest call in f (must be a parameter)"""
        for x in walk(f.body):
            if x.get('kind') == 'CallExpr' and prog.callee_name(x) == 'qhashmd5' and len(children(x)) >= 4:
                if buf is None or canon(children(x)[3]) == buf:
                    p = access_path(children(x)[2])
                    if p in [q.get('name') for q in f.params]:
                        return p
        return None

    def constants(f, p):
        out = set()
        for x in walk(f.body):
            if x.get('kind') == 'BinaryOperator' and x.get('opcode') in ('<', '<=', '>', '>=', '==', '!='):
                l, r = children(x)
                if access_path(l) == p and int_value(r) is not None:
                    out.add(int_value(r))
                if access_path(r) == p and int_value(l) is not None:
                    out.add(int_value(l))
        return out
    for (wf, wn, wx, buf) in writers:
        wp = size_param(wf, buf)
        if wp is None:
            continue
        for (rf, rn, rx) in readers:
            rp = size_param(rf)
            if rp is None:
                continue
            rep.instance(rid)
            cs = constants(wf, wp) | constants(rf, rp)
            vals = sorted({0, 1, 1 << 20} | {c + d for c in cs for d in (-1, 0, 1) if c + d >= 0})

            def computes(m):
                return isinstance(m.ast, dict) and m.kind != 'macro' and any(
                    y.get('kind') == 'CallExpr' and prog.callee_name(y) == 'qhashmd5' and len(children(y)) >= 4
                    and canon(children(y)[3]) == buf for y in walk(m.ast))
            bad = None
            for v in vals:
                uncomputed = _concrete_reach(wf.cfg, wp, v, lambda m: m is wn, computes)
                consulted = _concrete_reach(rf.cfg, rp, v, lambda m: m is rn)
                if uncomputed is not None and consulted is not None:
                    bad = v
                    break
            rep.oblige(rid, bad is None, {'writer': wf.name, 'reader': rf.name, 'key_sizes_examined': vals})
            if bad is not None:
                rep.violation(rid, rf, rx.get('_line'), 'digest:%s' % bad,
                              'for a key of %d bytes %s compares the stored digest (line %s) but %s stores the digest buffer %s at line %s '
                              'on a path on which qhashmd5() did not fill it: such a key is stored but never found again (duplicates, '
                              'ENOENT on get/remove)' % (bad, rf.name, rx.get('_line'), wf.name, buf, wx.get('_line')))


# --------------------------------------------------------------------------------------
# I11: releasing an entry's slots goes with the chain bookkeeping

def rule_i11(prog, rep, rid='I11'):
    """remove_data() only releases slots.  The chain counter kept in the leading slot of the hash (count = 1 + number of
    collision entries) must follow: every call of the release primitive lies on paths that either (a) adjust a slot's count
    field (decrement / re-assignment from a saved count), directly or in a pure bookkeeping helper, (b) are dominated by the
    entry being a sole leading entry (count == 1), or (c) is the writer's own roll-back of the entry it has just created
    (the slot index is the writer's parameter and the store of its count dominates the call)."""
    rep.rule(rid, 'every release of an entry (remove_data) lies on paths that adjust the chain counter, unless the entry is a sole '
                  'leading entry or the writer rolls back the entry it just created')
    prog.unit(UNIT)
    prims = {'remove_data', 'remove_slot', 'put_data', 'copy_slot'}

    def adjusts(y):
        k = y.get('kind')
        if k == 'UnaryOperator' and y.get('opcode') in ('--', '++'):
            t = strip(children(y)[0])
            return t.get('kind') == 'MemberExpr' and t.get('name') == 'count'
        if k == 'CompoundAssignOperator':
            t = strip(children(y)[0])
            return t.get('kind') == 'MemberExpr' and t.get('name') == 'count'
        if k == 'BinaryOperator' and y.get('opcode') == '=':
            t = strip(children(y)[0])
            return t.get('kind') == 'MemberExpr' and t.get('name') == 'count' and int_value(children(y)[1]) is None
        return False
    helpers = set()
    for g in prog.funcs_in(UNIT):
        if g.body is not None and g.static and g.name not in prims and any(adjusts(y) for y in walk(g.body)) and not any(
                y.get('kind') == 'CallExpr' and prog.callee_name(y) in prims for y in walk(g.body)):
            helpers.add(g.name)

    def node_adjusts(m):
        return isinstance(m.ast, dict) and m.kind != 'macro' and any(
            adjusts(y) or (y.get('kind') == 'CallExpr' and prog.callee_name(y) in helpers) for y in walk(m.ast))
    for f in sorted(prog.funcs_in(UNIT), key=lambda x: x.line or 0):
        if f.body is None or f.name == 'remove_data':
            continue
        cfg = f.cfg
        for n in cfg.nodes:
            if n.id not in cfg.reachable or not isinstance(n.ast, dict) or n.kind == 'macro':
                continue
            for x in walk(n.ast):
                if x.get('kind') != 'CallExpr' or prog.callee_name(x) != 'remove_data' or len(children(x)) < 3:
                    continue
                rep.instance(rid)
                idx = canon(children(x)[2])
                # (c) roll-back of the entry the function created itself
                created = [m for m in cfg.nodes if m.id in cfg.reachable and isinstance(m.ast, dict) and m.kind != 'macro' and any(
                    y.get('kind') == 'BinaryOperator' and y.get('opcode') == '=' and canon(children(y)[0]).endswith('[%s].count' % idx)
                    and access_path(children(y)[1]) in [p.get('name') for p in f.params] for y in walk(m.ast))]
                if idx in [p.get('name') for p in f.params] and created and \
                        _path_to_node(cfg, n, lambda m: any(m is c for c in created)) is None:
                    rep.oblige(rid, True, {'function': f.name, 'release': canon(x), 'how': 'roll-back of the entry created in this call'})
                    continue
                # paths entry -> call -> exit without an adjustment; the count == 1 branch is exempt

                def sole(m, lab):
                    if m.kind == 'cond' and isinstance(m.ast, dict):
                        c = strip_parens(m.ast)
                        if c.get('kind') == 'BinaryOperator' and c.get('opcode') in ('==', '!='):
                            l, r = children(c)
                            if canon(l).endswith('[%s].count' % idx) and int_value(r) == 1:
                                return (lab == 'T') == (c['opcode'] == '==')
                    return False
                before = _path_to_node(cfg, n, node_adjusts, sole)
                after = _path_avoiding(cfg, n, node_adjusts) if before is not None else False
                ok = before is None or not after
                rep.oblige(rid, ok, {'function': f.name, 'release': canon(x)})
                if not ok:
                    rep.violation(rid, f, x.get('_line'), 'release:%s' % idx,
                                  '%s releases the slots of entry %s at line %s on a path that never adjusts a chain counter (and the entry '
                                  'is not known to be a sole leading entry): if it was a collision entry - or the re-insert that follows '
                                  'fails - the leading slot keeps counting it' % (f.name, idx, x.get('_line')))


def _path_to_node(cfg, target, avoid, skip_edge=None):
    """a path entry -> target avoiding `avoid` nodes (None if none)"""
    seen = set()
    work = [(cfg.entry, [cfg.entry])]
    while work:
        n, path = work.pop()
        if n.id in seen:
            continue
        seen.add(n.id)
        if n is target:
            return path
        if avoid(n):
            continue
        for (s, lab) in n.succs:
            if skip_edge is not None and skip_edge(n, lab):
                continue
            work.append((s, path + [s]))
    return None


# --------------------------------------------------------------------------------------
# I12: a slot index produced by arithmetic is range-checked before it is used as a subscript

def rule_i12(prog, rep, rid='I12'):
    """Ring walks over the slot array: an index variable that was advanced or computed (`i + 1`, `++i`, `i += n`) may equal
    maxslots; before it subscripts the slot array it must have been compared with the table's maxslots on every path (the
    wrap `if (i >= maxslots) i = 0`, the loop bound `i < maxslots`, or a `% maxslots`).  Indexes that come from
    parameters, stored link/hash fields or helper results are in range by the image invariant / API contract."""
    rep.rule(rid, 'a slot-array subscript by an index that was advanced or computed since its last range check is preceded on every '
                  'path by a comparison with maxslots (wrap or bound) - the first slot looked at after `idx + 1` included')
    prog.unit(UNIT)

    def is_slot_array(b):
        t = (qtype(strip(b)) or '') + ' ' + (dtype(strip(b)) or '')
        return 'qhasharr_slot' in t and t.replace('const', '').strip().endswith('*') or 'qhasharr_slot_t *' in t or 'qhasharr_slot_s *' in t

    def arithmetic(rhs):
        r = strip(rhs)
        k = r.get('kind')
        if k == 'BinaryOperator' and r.get('opcode') in ('+', '*'):      # upward arithmetic: the result may reach maxslots
            return True
        if k == 'ConditionalOperator':
            return any(arithmetic(c) for c in children(r)[1:])
        return False
    for f in sorted(prog.funcs_in(UNIT), key=lambda x: x.line or 0):
        if f.body is None:
            continue
        cfg = f.cfg
        uses = {}

        def events(n):
            """('def', varid, tainted) / ('use', varid, subscript) / ('useexpr', subscript) in evaluation order"""
            out = []
            if not isinstance(n.ast, dict) or n.kind == 'macro':
                return out

            def rec(x):
                k = x.get('kind')
                if k == 'VarDecl':
                    init = var_init(x)
                    if init is not None:
                        rec(init)
                        out.append(('def', x.get('id'), arithmetic(init)))
                    return
                if k == 'UnaryExprOrTypeTraitExpr':
                    return
                for c in children(x):
                    rec(c)
                if k == 'BinaryOperator' and x.get('opcode') == '=':
                    l = strip_parens(children(x)[0])
                    if l.get('kind') == 'DeclRefExpr' and (l.get('_ref') or ('',))[0] in ('local', 'param'):
                        out.append(('def', l['_ref'][1], arithmetic(children(x)[1])))
                elif k == 'CompoundAssignOperator' or (k == 'UnaryOperator' and x.get('opcode') in ('++', '--')):
                    l = strip_parens(children(x)[0])
                    if l.get('kind') == 'DeclRefExpr' and (l.get('_ref') or ('',))[0] in ('local', 'param'):
                        up = x.get('opcode') in ('++', '+=', '*=', '<<=')
                        if up:
                            out.append(('def', l['_ref'][1], True))
                        elif x.get('opcode') == '%=':
                            out.append(('def', l['_ref'][1], False))
                elif k == 'ArraySubscriptExpr':
                    b, i = children(x)
                    if is_slot_array(b):
                        si = strip(i)
                        if si.get('kind') == 'DeclRefExpr' and (si.get('_ref') or ('',))[0] in ('local', 'param'):
                            out.append(('use', si['_ref'][1], x))
                        elif arithmetic(si):
                            out.append(('useexpr', None, x))
            rec(n.ast)
            return out

        def refine(n, lab, st):
            if n.kind != 'cond' or not isinstance(n.ast, dict) or lab not in ('T', 'F'):
                return st
            c = strip_parens(n.ast)
            if c.get('kind') != 'BinaryOperator' or c.get('opcode') not in ('<', '>=', '>', '<=', '==', '!='):
                return st
            l, r = [strip(y) for y in children(c)]
            op = c['opcode']
            if canon(l).endswith('maxslots'):
                l, r = r, l
                op = {'<': '>', '>': '<', '<=': '>=', '>=': '<=', '==': '==', '!=': '!='}[op]
            if not canon(r).endswith('maxslots'):
                return st
            # the variable being compared: v, ++v, v++ (pre-increment form compares the new value)
            v = l
            if v.get('kind') == 'UnaryOperator' and v.get('opcode') in ('++', '--') and not v.get('isPostfix'):
                v = strip(children(v)[0])
            if v.get('kind') != 'DeclRefExpr' or (v.get('_ref') or ('',))[0] not in ('local', 'param'):
                return st
            inrange = (op == '<' and lab == 'T') or (op == '>=' and lab == 'F') or (op == '==' and lab == 'F') or (op == '!=' and lab == 'T')
            if inrange:
                return st - {v['_ref'][1]}
            return st
        # ring cursors: variables wrapped to 0 under a comparison with maxslots (`if (++i >= maxslots) i = 0;`)
        ring_cursors = set()
        for y in walk(f.body):
            if y.get('kind') == 'IfStmt':
                ch = children(y)
                cc = strip_parens(ch[0])
                if cc.get('kind') == 'BinaryOperator' and cc.get('opcode') in ('>=', '==', '>') and canon(children(cc)[1]).endswith('maxslots'):
                    for z in walk(ch[1]):
                        if z.get('kind') == 'BinaryOperator' and z.get('opcode') == '=' and int_value(children(z)[1]) == 0:
                            lz = strip(children(z)[0])
                            if lz.get('kind') == 'DeclRefExpr' and (lz.get('_ref') or ('',))[0] in ('local', 'param'):
                                v0 = strip(children(cc)[0])
                                if v0.get('kind') == 'UnaryOperator':
                                    v0 = strip(children(v0)[0])
                                if canon(v0) == canon(lz):
                                    ring_cursors.add(lz['_ref'][1])
        # parameters that some caller passes an upward arithmetic expression for (`find_avail(tbl, idx + 1)`) may equal maxslots
        tainted_params = set()
        for g in prog.funcs_in(UNIT):
            if g.body is None:
                continue
            for y in walk(g.body):
                if y.get('kind') == 'CallExpr' and prog.callee_name(y) == f.name:
                    for p_, a_ in zip(f.params, children(y)[1:]):
                        if arithmetic(a_):
                            tainted_params.add(p_.get('id'))
        IN = {cfg.entry.id: frozenset(tainted_params)}
        work = [cfg.entry]
        bad = {}
        nuses = 0
        stops = {}
        while work:
            n = work.pop()
            st = set(IN[n.id])
            for (kind, vid, x) in events(n):
                if kind == 'def':
                    if x:
                        st.add(vid)
                    else:
                        st.discard(vid)
                elif kind == 'use':
                    uses[id(x)] = x
                    if vid in st:
                        bad[id(x)] = (x, 'is advanced/computed and not compared with maxslots since')
                elif kind == 'useexpr':
                    uses[id(x)] = x
                    bad[id(x)] = (x, 'is an arithmetic expression that was never compared with maxslots')
            st = frozenset(st)
            if n.kind == 'cond' and isinstance(n.ast, dict):
                c_ = strip_parens(n.ast)
                if c_.get('kind') == 'BinaryOperator' and c_.get('opcode') in ('==', '!='):
                    l_, r_ = [strip(z) for z in children(c_)]
                    if l_.get('kind') == 'DeclRefExpr' and r_.get('kind') == 'DeclRefExpr' and \
                            (l_.get('_ref') or ('',))[0] in ('local', 'param') and (r_.get('_ref') or ('',))[0] in ('local', 'param'):
                        for (cur, stop) in ((l_, r_), (r_, l_)):
                            if cur['_ref'][1] in ring_cursors and stop['_ref'][1] not in ring_cursors:
                                ent = stops.setdefault(n.id, [n, canon(cur), canon(stop), False])
                                if stop['_ref'][1] in st:
                                    ent[3] = True
            for (s, lab) in n.succs:
                st2 = refine(n, lab, st)
                old = IN.get(s.id)
                if old is None:
                    IN[s.id] = st2
                    work.append(s)
                elif not st2 <= old:
                    IN[s.id] = old | st2
                    work.append(s)
        for (n_, cur_, stop_, tainted_) in stops.values():
            rep.instance(rid)
            rep.oblige(rid, not tainted_, {'function': f.name, 'ring_stop': '%s vs %s' % (cur_, stop_), 'line': n_.line})
            if tainted_:
                rep.violation(rid, f, n_.line, 'ring-stop:%s' % stop_,
                              '%s: the ring walk stops when the wrapped cursor %s meets %s, but %s may equal maxslots here (a caller '
                              'passes index + 1 and it was not normalised): the cursor is wrapped to 0 and never meets it - the walk '
                              'does not terminate on a full table' % (f.name, cur_, stop_, stop_))
        for k_, x in uses.items():
            rep.instance(rid)
            ok = k_ not in bad
            rep.oblige(rid, ok, {'function': f.name, 'subscript': canon(x)[:50], 'line': x.get('_line')} if not ok or f.name else None)
            if not ok:
                rep.violation(rid, f, x.get('_line'), 'index:%s' % canon(children(x)[1])[:20],
                              '%s: the slot subscript %s at line %s uses an index that %s: when the index equals maxslots (walk '
                              'started at the last slot) the access is one slot behind the table\'s memory'
                              % (f.name, canon(x)[:40], x.get('_line'), bad[k_][1]))
