"""Value graphs by forward substitution (global-value-numbering style) for straight-line integer code.

A code fragment (loop body, post-loop tail for one residue class, a helper) is turned into hash-consed expression
DAGs for the variables it defines: assignments are substituted forward, calls to small repository helpers are inlined
(parameters are by-value), conditions that become constant after constant propagation select a branch, anything
else makes the fragment `not straight-line` (NotStraight).  Expressions are normalised: constants folded modulo the
operation width, sums as linear combinations (x<<k counts as x*2^k), xor/and/or chains flattened and sorted, pure
bitwise functions of up to three operands by truth table, (x<<a)|(x>>(w-a)) as a rotate.  Two fragments computing the
same normal form are equal for all inputs; different normal forms are reported as `cannot establish equality`.
Nothing is executed: no input values, no paths enumerated, no solver.
"""
from .frontend import walk, children, strip, strip_parens, qtype, Ext
from .expr import canon, access_path, var_init


class NotStraight(Exception):
    pass


class NeedChoice(Exception):
    """an address-dependent condition (alignment test of the input pointer) was met: the caller re-runs with both outcomes"""

    def __init__(self, key):
        Exception.__init__(self, key)
        self.key = key


_SIZEOF = {'char': 1, 'unsigned char': 1, 'uint8_t': 1, 'int8_t': 1, 'short': 2, 'uint16_t': 2, 'int': 4, 'unsigned int': 4,
           'uint32_t': 4, 'int32_t': 4, 'long': 8, 'unsigned long': 8, 'uint64_t': 8, 'int64_t': 8, 'size_t': 8, 'uintptr_t': 8}


def width_of(e):
    t = (e.get('type') or {}).get('desugaredQualType') or qtype(e)
    t = t.replace('const ', '').strip()
    if t in ('unsigned long', 'long', 'unsigned long long', 'long long', 'size_t', 'uint64_t', 'int64_t', 'ssize_t'):
        return 64
    if t in ('unsigned char', 'char', 'signed char', 'uint8_t'):
        return 8
    if t in ('unsigned short', 'short', 'uint16_t'):
        return 16
    if t.endswith('*'):
        return 64
    if t in ('unsigned int', 'uint32_t', 'u_int32_t'):
        return 32
    # plain int arithmetic (indexes, byte shifts) is treated as ideal integer arithmetic
    return 64


def pointee_size(e):
    """size in bytes of what a pointer/array-typed expression points at (1 for void/char/unknown)"""
    t = ((e.get('type') or {}).get('desugaredQualType') or qtype(e) or '').replace('const ', '').replace('volatile ', '').strip()
    if t.endswith('*'):
        t = t[:-1].strip()
    elif '[' in t:
        t = t[:t.index('[')].strip()
    else:
        return None
    return {'unsigned long': 8, 'long': 8, 'unsigned long long': 8, 'long long': 8, 'size_t': 8, 'uint64_t': 8, 'int64_t': 8,
            'unsigned int': 4, 'int': 4, 'uint32_t': 4, 'u_int32_t': 4, 'int32_t': 4, 'unsigned short': 2, 'short': 2, 'uint16_t': 2,
            'unsigned char': 1, 'char': 1, 'signed char': 1, 'uint8_t': 1, 'void': 1}.get(t, None)


def is_pointer_typed(e):
    t = ((e.get('type') or {}).get('desugaredQualType') or qtype(e) or '').strip()
    return t.endswith('*')


class VG:
    def __init__(self):
        self.tab = {}
        self.nodes = []

    def mk(self, *key):
        i = self.tab.get(key)
        if i is None:
            i = len(self.nodes)
            self.tab[key] = i
            self.nodes.append(key)
        return i

    def const(self, v, w=64):
        return self.mk('c', v & ((1 << w) - 1) if w else v)

    def is_const(self, n):
        return self.nodes[n][0] == 'c'

    def cval(self, n):
        return self.nodes[n][1]

    def sym(self, name):
        return self.mk('s', name)

    # ---- arithmetic
    def _lin(self, n, w):
        """node -> (dict term->coef, const) as a linear form modulo 2^w"""
        k = self.nodes[n]
        m = (1 << w) - 1
        if k[0] == 'c':
            return {}, k[1] & m
        if k[0] == 'lin' and k[1] == w:
            return dict(k[2]), k[3]
        if k[0] == 'shl' and self.is_const(k[2]) and k[3] == w:
            t, c = self._lin(k[1], w)
            f = 1 << self.cval(k[2])
            return {a: (b * f) & m for a, b in t.items()}, (c * f) & m
        return {n: 1}, 0

    def _mklin(self, terms, c, w):
        m = (1 << w) - 1
        terms = {a: b & m for a, b in terms.items() if b & m}
        c &= m
        if not terms:
            return self.const(c, w)
        if len(terms) == 1 and c == 0:
            (a, b), = terms.items()
            if b == 1:
                return a
        return self.mk('lin', w, tuple(sorted(terms.items())), c)

    # ---- byte packs: zero-extended bytes placed at disjoint byte positions.  `a | b`, `a ^ b` and `a + b` coincide on them,
    # and (pack << 8k) is a pack again, so "fold from the last byte to the first" and "xor each shifted byte in" normalise
    # to the same node.
    def as_pack(self, n):
        k = self.nodes[n]
        if k[0] == 'load' and k[2] == 8:
            return {0: n}
        if k[0] == 'c' and k[1] == 0:
            return {}
        if k[0] == 'pack':
            return dict(k[1])
        return None

    def mkpack(self, d):
        if not d:
            return self.const(0)
        if len(d) == 1 and 0 in d:
            return d[0]
        return self.mk('pack', tuple(sorted(d.items())))

    def _pack_merge(self, a, b, w):
        pa, pb = self.as_pack(a), self.as_pack(b)
        if pa is None or pb is None or (not pa and not pb):
            return None
        if set(pa) & set(pb):
            return None
        d = dict(pa)
        d.update(pb)
        if max(d) * 8 + 8 > max(w, 8):
            return None
        return self.mkpack(d)

    def add(self, a, b, w, sign=1):
        if sign == 1:
            r = self._pack_merge(a, b, w)
            if r is not None and (self.nodes[a][0] in ('pack', 'load') or self.nodes[b][0] in ('pack', 'load')) \
                    and self.nodes[a][0] != 'lin' and self.nodes[b][0] != 'lin':
                return r
        ta, ca = self._lin(a, w)
        tb, cb = self._lin(b, w)
        for k, v in tb.items():
            ta[k] = ta.get(k, 0) + sign * v
        return self._mklin(ta, ca + sign * cb, w)

    def mul(self, a, b, w):
        if self.is_const(a):
            a, b = b, a
        if self.is_const(b):
            t, c = self._lin(a, w)
            f = self.cval(b)
            return self._mklin({k: v * f for k, v in t.items()}, c * f, w)
        x, y = sorted((a, b))
        return self.mk('mul', x, y, w)

    def shl(self, a, b, w):
        if self.is_const(b):
            if self.cval(b) == 0:
                return a
            if self.is_const(a):
                return self.const(self.cval(a) << self.cval(b), w)
            # a loaded byte shifted into place cannot overflow: the node does not depend on the arithmetic width
            if self.nodes[a][0] == 'idx' and self.cval(b) + 8 <= w:
                return self.mk('shl', a, b, 0)
            pa = self.as_pack(a)
            if pa and self.cval(b) % 8 == 0 and (max(pa) * 8 + 8 + self.cval(b)) <= w:
                return self.mkpack({pos + self.cval(b) // 8: bn for pos, bn in pa.items()})
            if self.nodes[a][0] == 'load' and self.cval(b) + self.nodes[a][2] <= w:
                return self.mk('shl', a, b, 0)
        return self.mk('shl', a, b, w)

    def shr(self, a, b, w):
        if self.is_const(b):
            if self.cval(b) == 0:
                return a
            if self.is_const(a):
                return self.const(self.cval(a) >> self.cval(b), w)
        return self.mk('shr', a, b, w)

    def div(self, a, b, w):
        if self.is_const(a) and self.is_const(b) and self.cval(b):
            return self.const(self.cval(a) // self.cval(b), w)
        return self.mk('div', a, b, w)

    def mod(self, a, b, w):
        if self.is_const(a) and self.is_const(b) and self.cval(b):
            return self.const(self.cval(a) % self.cval(b), w)
        return self.mk('mod', a, b, w)

    # ---- bitwise
    def _bf(self, n):
        """(leaves tuple, truth table) if n is a pure bitwise function of <= 3 leaves"""
        k = self.nodes[n]
        if k[0] == 'bf':
            return k[1], k[2]
        if k[0] == 'c':
            return None
        return (n,), 0b10

    def _combine(self, op, a, b, w):
        fa, fb = self._bf(a), self._bf(b) if b is not None else None
        if fa is None or (b is not None and fb is None):
            return None
        leaves = sorted(set(fa[0]) | (set(fb[0]) if fb else set()))
        if len(leaves) > 3:
            return None
        n = len(leaves)
        tt = 0
        for bits in range(1 << n):
            val = {leaves[i]: (bits >> i) & 1 for i in range(n)}

            def evalbf(f):
                idx = 0
                for i, l in enumerate(f[0]):
                    idx |= val[l] << i
                return (f[1] >> idx) & 1
            x = evalbf(fa)
            if op == 'not':
                r = 1 - x
            else:
                y = evalbf(fb)
                r = {'and': x & y, 'or': x | y, 'xor': x ^ y}[op]
            tt |= r << bits
        # drop leaves the function does not depend on
        keep = []
        for i in range(n):
            dep = any(((tt >> b) & 1) != ((tt >> (b ^ (1 << i))) & 1) for b in range(1 << n))
            if dep:
                keep.append(i)
        if len(keep) != n:
            tt2 = 0
            for bits2 in range(1 << len(keep)):
                full = 0
                for j, i in enumerate(keep):
                    full |= ((bits2 >> j) & 1) << i
                tt2 |= ((tt >> full) & 1) << bits2
            leaves = [leaves[i] for i in keep]
            tt = tt2
        if not leaves:
            return self.const(((1 << w) - 1) if tt & 1 else 0, w)
        if len(leaves) == 1 and tt == 0b10:
            return leaves[0]
        return self.mk('bf', tuple(leaves), tt, w)

    def bor(self, a, b, w):
        # rotate: (x << s) | (x >> (w - s))
        for (l, r) in ((a, b), (b, a)):
            kl, kr = self.nodes[l], self.nodes[r]
            if kl[0] == 'shl' and kr[0] == 'shr' and kl[1] == kr[1] and self.is_const(kl[2]) and self.is_const(kr[2]) \
                    and kl[3] == kr[3] and self.cval(kl[2]) + self.cval(kr[2]) == kl[3]:
                return self.mk('rotl', kl[1], self.cval(kl[2]), kl[3])
        if self.is_const(a) and self.is_const(b):
            return self.const(self.cval(a) | self.cval(b), w)
        r = self._pack_merge(a, b, w)
        if r is not None:
            return r
        r = self._combine('or', a, b, w)
        if r is not None:
            return r
        x, y = sorted((a, b))
        return self.mk('or', x, y, w)

    def band(self, a, b, w):
        if self.is_const(a) and self.is_const(b):
            return self.const(self.cval(a) & self.cval(b), w)
        r = self._combine('and', a, b, w)
        if r is not None:
            return r
        x, y = sorted((a, b))
        return self.mk('and', x, y, w)

    def bxor(self, a, b, w):
        if self.is_const(a) and self.is_const(b):
            return self.const(self.cval(a) ^ self.cval(b), w)
        if self.is_const(a) and self.cval(a) == 0:
            return b
        if self.is_const(b) and self.cval(b) == 0:
            return a
        r = self._pack_merge(a, b, w)
        if r is not None:
            return r
        r = self._combine('xor', a, b, w)
        if r is not None:
            return r
        # flatten n-ary xor
        terms = []
        for n in (a, b):
            k = self.nodes[n]
            terms += list(k[1]) if k[0] == 'xorn' else [n]
        out = []
        for t in sorted(terms):
            if out and out[-1] == t:
                out.pop()
            else:
                out.append(t)
        if not out:
            return self.const(0, w)
        if len(out) == 1:
            return out[0]
        return self.mk('xorn', tuple(out), w)

    def bnot(self, a, w):
        if self.is_const(a):
            return self.const(~self.cval(a), w)
        r = self._combine('not', a, None, w)
        if r is not None:
            return r
        return self.mk('not', a, w)

    def idx(self, base, i):
        # index arithmetic is ideal: normalise the index to a 64-bit linear form
        t, c = self._lin(i, self.nodes[i][1] if self.nodes[i][0] == 'lin' else 64)
        i = self._mklin(t, c, 64)
        k = self.nodes[base]
        if k[0] == 'lin' and k[1] != 64:
            base = self._mklin(dict(k[2]), k[3], 64)
        return self.mk('idx', base, i)

    def load(self, addr, width):
        """a `width`-bit load from byte address `addr` (addresses are ideal 64-bit linear forms over the buffer symbols)"""
        t, c = self._lin(addr, self.nodes[addr][1] if self.nodes[addr][0] == 'lin' else 64)
        a = self._mklin(t, c, 64)
        return self.mk('load', a, width)

    def show(self, n, depth=0):
        k = self.nodes[n]
        if depth > 6:
            return '...'
        if k[0] == 'c':
            return hex(k[1]) if k[1] > 9 else str(k[1])
        if k[0] == 's':
            return k[1]
        if k[0] == 'lin':
            parts = ['%s%s' % ('' if c == 1 else hex(c) + '*', self.show(t, depth + 1)) for t, c in k[2]]
            if k[3]:
                parts.append(hex(k[3]))
            return '(' + ' + '.join(parts) + ')'
        if k[0] == 'rotl':
            return 'rotl%d(%s, %d)' % (k[3], self.show(k[1], depth + 1), k[2])
        if k[0] == 'bf':
            return 'bf%s(%s)' % (bin(k[2]), ', '.join(self.show(l, depth + 1) for l in k[1]))
        if k[0] == 'xorn':
            return '(' + ' ^ '.join(self.show(t, depth + 1) for t in k[1]) + ')'
        if k[0] == 'idx':
            return '%s[%s]' % (self.show(k[1], depth + 1), self.show(k[2], depth + 1))
        if k[0] == 'load':
            return 'load%d@%s' % (k[2], self.show(k[1], depth + 1))
        if k[0] == 'pack':
            return 'bytes{' + ', '.join('%d:%s' % (pos, self.show(bn, depth + 1)) for pos, bn in k[1]) + '}'
        return '%s(%s)' % (k[0], ', '.join(self.show(a, depth + 1) if isinstance(a, int) and i < 2 else str(a) for i, a in enumerate(k[1:])))

    def constants(self, n, seen=None):
        """multiset (as sorted list) of constants >= 16 and rotate amounts reachable from n"""
        if seen is None:
            seen = set()
        out = []
        stack = [n]
        while stack:
            x = stack.pop()
            if x in seen:
                continue
            seen.add(x)
            k = self.nodes[x]
            if k[0] == 'c':
                if k[1] >= 16:
                    out.append(k[1])
            elif k[0] == 'lin':
                for t, c in k[2]:
                    stack.append(t)
                    if c >= 16 or c in (5,):
                        out.append(c)
                if k[3] >= 16:
                    out.append(k[3])
            elif k[0] == 'rotl':
                out.append(('rot', k[2], k[3]))
                stack.append(k[1])
            elif k[0] in ('shl', 'shr'):
                stack.append(k[1])
                if self.is_const(k[2]):
                    out.append((k[0], self.cval(k[2])))
                else:
                    stack.append(k[2])
            elif k[0] == 'bf':
                stack += list(k[1])
            elif k[0] == 'xorn':
                stack += list(k[1])
            elif k[0] == 'idx':
                stack.append(k[2])
            else:
                stack += [a for a in k[1:] if isinstance(a, int) and a < len(self.nodes) and k[0] in ('mul', 'or', 'and', 'not', 'div', 'mod')][:2]
        return sorted(map(repr, out))


class Forward:
    """Forward substitution of C statements into a VG."""

    def __init__(self, prog, f, vg, residue=None):
        self.prog = prog
        self.f = f
        self.vg = vg
        self.residue = residue      # (symbol name, modulus B, value r): n & (B-1) and n % B evaluate to r
        self.depth = 0
        self.choices = {}           # outcome chosen for address-dependent conditions (see NeedChoice)

    # ---- expressions
    def ev(self, e, env):
        vg = self.vg
        s = strip(e)
        k = s.get('kind')
        if k == 'IntegerLiteral':
            return vg.const(int(s.get('value')), 64)
        if k == 'CharacterLiteral':
            return vg.const(int(s.get('value')), 64)
        if k == 'DeclRefExpr':
            r = s.get('_ref') or ('',)
            if r[0] in ('local', 'param', 'global'):
                nm = r[2]
                if nm in env:
                    return env[nm]
                return vg.sym(nm)
            if r[0] == 'enum':
                ed = self.f.unit.enums.get(r[1])
                if ed is not None:
                    from .expr import int_value
                    for c in children(ed):
                        v = int_value(c)
                        if v is not None and not isinstance(v, str):
                            return vg.const(v, 64)
                return vg.sym(r[1])
            return vg.sym(canon(s))
        if k == 'MemberExpr':
            key = canon(s)
            return env.get(key, vg.sym(key))
        if k == 'ArraySubscriptExpr':
            a, b = children(s)
            i = self.ev(b, env)
            base = access_path(a) or canon(a)
            if vg.is_const(i):
                key = '%s[%d]' % (base, vg.cval(i))
                if key in env:
                    return env[key]
            if is_pointer_typed(strip(a)):
                # element of a buffer reached through a pointer: a load of the element width from base + index * size
                sz = pointee_size(strip(a)) or 1
                addr = vg.add(self.ev(a, env), vg.mul(i, vg.const(sz), 64), 64)
                return vg.load(addr, 8 * sz)
            # a local array (message words, staging bytes): symbolic element
            bnode = env.get(base, vg.sym(base))
            return vg.idx(bnode, i)
        if k == 'UnaryOperator':
            op = s.get('opcode')
            if op == '*':
                a = children(s)[0]
                sz = pointee_size(strip(a)) or pointee_size(a) or 1
                return vg.load(self.ev(a, env), 8 * sz)
            if op in ('++', '--'):
                # side effect inside an expression: the environment is updated, the value is the old (postfix) or new one
                l = children(s)[0]
                key = self.lvalue_key(l, env)
                cur = env.get(key)
                if cur is None:
                    cur = self.ev(l, env)
                step = vg.const(pointee_size(strip(l)) or 1) if is_pointer_typed(strip(l)) else vg.const(1)
                new = vg.add(cur, step, max(width_of(l), 32), 1 if op == '++' else -1)
                env[key] = new
                return cur if s.get('isPostfix') else new
            v = self.ev(children(s)[0], env)
            w = width_of(s)
            if op == '~':
                return vg.bnot(v, max(w, 32))
            if op == '-':
                return vg.add(vg.const(0, w), v, max(w, 32), -1)
            if op == '!':
                if vg.is_const(v):
                    return vg.const(int(not vg.cval(v)))
                raise NotStraight('logical not of a non-constant')
            if op == '+':
                return v
            raise NotStraight('unary %s' % op)
        if k == 'BinaryOperator':
            op = s.get('opcode')
            a, b = children(s)
            if op == ',':
                self.ev(a, env)
                return self.ev(b, env)
            if op == '=':
                raise NotStraight('assignment inside an expression')
            va, vb = self.ev(a, env), self.ev(b, env)
            w = max(width_of(s), 32)
            if op == '<<' and vg.is_const(vb):
                # C semantics of a shift carried out in (signed 32-bit) int: a byte moved into bits 24..31 can set the sign
                # bit, and the later conversion to a wider unsigned type then sign-extends.  Such a value is NOT the clean
                # byte placement the published algorithms use - it is kept as a distinct node.
                t = ((s.get('type') or {}).get('desugaredQualType') or qtype(s) or '').replace('const ', '').strip()
                pa = vg.as_pack(va)
                if t == 'int' and pa and (max(pa) * 8 + 8 + vg.cval(vb)) > 31:
                    return vg.mk('sx32', vg.mk('shl', va, vb, 32))
            if op in ('+', '-') and (is_pointer_typed(strip(a)) != is_pointer_typed(strip(b))):
                # pointer +/- integer: the integer counts elements
                if is_pointer_typed(strip(a)):
                    sz = pointee_size(strip(a)) or 1
                    vb = vg.mul(vb, vg.const(sz), 64) if sz != 1 else vb
                else:
                    sz = pointee_size(strip(b)) or 1
                    va = vg.mul(va, vg.const(sz), 64) if sz != 1 else va
                return vg.add(va, vb, 64, 1 if op == '+' else -1)
            if op == '&':
                r = self._residue(va, vb, 'and')
                return r if r is not None else vg.band(va, vb, w)
            if op == '%':
                r = self._residue(va, vb, 'mod')
                return r if r is not None else vg.mod(va, vb, w)
            if op in ('<', '>', '<=', '>=', '==', '!=', '&&', '||'):
                if vg.is_const(va) and vg.is_const(vb):
                    x, y = vg.cval(va), vg.cval(vb)
                    return vg.const(int({'<': x < y, '>': x > y, '<=': x <= y, '>=': x >= y, '==': x == y, '!=': x != y,
                                         '&&': bool(x) and bool(y), '||': bool(x) or bool(y)}[op]))
                if op == '&&' and ((vg.is_const(va) and not vg.cval(va)) or (vg.is_const(vb) and not vg.cval(vb))):
                    return vg.const(0)
                if op == '||' and ((vg.is_const(va) and vg.cval(va)) or (vg.is_const(vb) and vg.cval(vb))):
                    return vg.const(1)
                if self._addr_dependent(s):
                    return self._choose(s)
                raise NotStraight('comparison of non-constants: %s' % canon(s)[:50])
            return self.binop(op, va, vb, w)
        if k == 'ConditionalOperator':
            c, a, b = children(s)
            vc = self.ev(c, env)
            if vg.is_const(vc):
                return self.ev(a if vg.cval(vc) else b, env)
            raise NotStraight('conditional on a non-constant')
        if k == 'CallExpr':
            return self.call(s, env)
        if k == 'UnaryExprOrTypeTraitExpr':
            at = ((s.get('argType') or {}).get('qualType') or '').replace('const ', '').strip()
            if s.get('name') == 'sizeof' and at in _SIZEOF:
                return vg.const(_SIZEOF[at])
            if s.get('name') == 'sizeof' and children(s):
                at = (qtype(strip_parens(children(s)[0])) or '').replace('const ', '').strip()
                if at in _SIZEOF:
                    return vg.const(_SIZEOF[at])
            raise NotStraight('sizeof')
        raise NotStraight('expression kind %s' % k)

    def _addr_dependent(self, s):
        """the expression tests the ADDRESS held by a pointer (a cast of a pointer variable to an integer type): its outcome does not
        depend on the data, the algorithm must give the same result either way"""
        for x in walk(s):
            if x.get('kind') == 'CStyleCastExpr':
                t = (qtype(x) or '').replace('const ', '').strip()
                if t in ('uintptr_t', 'intptr_t', 'size_t', 'unsigned long', 'long', 'uint64_t'):
                    o = strip(children(x)[0])
                    if (qtype(o) or '').rstrip().endswith('*'):
                        return True
        return False

    def _choose(self, s):
        key = canon(s)
        if key not in self.choices:
            raise NeedChoice(key)
        return self.vg.const(1 if self.choices[key] else 0)

    def _residue(self, va, vb, how):
        vg = self.vg
        if not self.residue:
            return None
        name, B, r = self.residue
        for (x, y) in ((va, vb), (vb, va)):
            if vg.nodes[x] == ('s', name) and vg.is_const(y):
                if how == 'and' and vg.cval(y) == B - 1:
                    return vg.const(r)
                if how == 'mod' and vg.cval(y) == B and x == va:
                    return vg.const(r)
        return None

    def binop(self, op, va, vb, w):
        vg = self.vg
        if op == '+':
            return vg.add(va, vb, w)
        if op == '-':
            return vg.add(va, vb, w, -1)
        if op == '*':
            return vg.mul(va, vb, w)
        if op == '/':
            return vg.div(va, vb, w)
        if op == '<<':
            return vg.shl(va, vb, w)
        if op == '>>':
            return vg.shr(va, vb, w)
        if op == '|':
            return vg.bor(va, vb, w)
        if op == '&':
            return vg.band(va, vb, w)
        if op == '^':
            return vg.bxor(va, vb, w)
        raise NotStraight('operator %s' % op)

    def call(self, s, env):
        nm = self.prog.callee_name(s)
        tgt = self.prog.resolve_name(self.f.unit, nm) if nm else None
        if tgt is None:
            raise NotStraight('call to %s' % (nm or 'a function pointer'))
        if self.depth > 6:
            raise NotStraight('helper nesting too deep')
        args = [self.ev(a, env) for a in children(s)[1:]]
        sub = Forward(self.prog, tgt, self.vg, self.residue)
        sub.depth = self.depth + 1
        env2 = {}
        for p, a in zip(tgt.params, args):
            env2[p.get('name')] = a
        ret = sub.run(children(tgt.body), env2)
        if ret is None:
            raise NotStraight('helper %s returns no value' % nm)
        return ret

    # ---- statements; returns the returned node if a return statement was executed, else None
    def run(self, stmts, env):
        for st in stmts:
            r = self.stmt(st, env)
            if r is not None:
                return r
        return None

    def lvalue_key(self, l, env):
        l = strip(l)
        if l.get('kind') == 'DeclRefExpr':
            return (l.get('_ref') or ('', '', None))[2]
        if l.get('kind') == 'MemberExpr':
            return canon(l)
        if l.get('kind') == 'ArraySubscriptExpr':
            a, b = children(l)
            i = self.ev(b, env)
            if self.vg.is_const(i):
                return '%s[%d]' % (access_path(a) or canon(a), self.vg.cval(i))
        if l.get('kind') == 'UnaryOperator' and l.get('opcode') == '*':
            return '*' + canon(children(l)[0])
        raise NotStraight('store through %s' % canon(l)[:40])

    BREAK = object()

    def stmt(self, st, env):
        k = st.get('kind')
        vg = self.vg
        if k == 'CompoundStmt':
            return self.run(children(st), env)
        if k == 'DeclStmt':
            for d in children(st):
                if d.get('kind') == 'VarDecl':
                    init = var_init(d)
                    if init is not None and strip(init).get('kind') != 'InitListExpr':
                        env[d.get('name')] = self._narrow(self.ev(init, env), d)
                    elif init is not None:
                        il = strip(init)
                        for i, c in enumerate(children(il)):
                            env['%s[%d]' % (d.get('name'), i)] = self.ev(c, env)
            return None
        if k == 'NullStmt':
            return None
        if k == 'ReturnStmt':
            ch = children(st)
            return self.ev(ch[0], env) if ch else vg.const(0)
        if k == 'BinaryOperator' and st.get('opcode') == '=':
            l, r = children(st)
            rs = strip(r)
            if rs.get('kind') == 'BinaryOperator' and rs.get('opcode') == '=':
                self.stmt(rs, env)
                v = env[self.lvalue_key(children(rs)[0], env)]
            else:
                v = self.ev(r, env)
            env[self.lvalue_key(l, env)] = self._narrow(v, l)
            return None
        if k == 'BinaryOperator' and st.get('opcode') == ',':
            for c in children(st):
                self.stmt(c, env)
            return None
        if k == 'CompoundAssignOperator':
            l, r = children(st)
            key = self.lvalue_key(l, env)
            cur = env.get(key)
            if cur is None:
                cur = self.ev(l, env)
            v = self.ev(r, env)
            w = max(width_of(l), 32)
            op = st.get('opcode')[:-1]
            if op in ('+', '-') and is_pointer_typed(strip(l)):
                sz = pointee_size(strip(l)) or 1
                v = vg.mul(v, vg.const(sz), 64) if sz != 1 else v
            env[key] = self._narrow(self.binop(op, cur, v, w), l)
            return None
        if k == 'UnaryOperator' and st.get('opcode') in ('++', '--'):
            l = children(st)[0]
            key = self.lvalue_key(l, env)
            cur = env.get(key, self.ev(l, env))
            step = vg.const(pointee_size(strip(l)) or 1) if is_pointer_typed(strip(l)) else vg.const(1)
            env[key] = vg.add(cur, step, max(width_of(l), 32), 1 if st.get('opcode') == '++' else -1)
            return None
        if k == 'IfStmt':
            ch = st['inner']
            c = self.ev(ch[0], env)
            if not vg.is_const(c):
                raise NotStraight('branch on a non-constant condition %s' % canon(ch[0])[:50])
            if vg.cval(c):
                return self.stmt(ch[1], env)
            if len(ch) > 2 and ch[2]:
                return self.stmt(ch[2], env)
            return None
        if k == 'SwitchStmt':
            ch = children(st)
            c = self.ev(ch[0], env)
            if not vg.is_const(c):
                raise NotStraight('switch on a non-constant')
            return self._switch(ch[-1], vg.cval(c), env)
        if k == 'CallExpr':
            nm = self.prog.callee_name(st)
            if nm == 'memcpy' and len(children(st)) >= 4:
                d = strip(children(st)[1])
                if d.get('kind') == 'UnaryOperator' and d.get('opcode') == '&' and strip(children(d)[0]).get('kind') == 'DeclRefExpr':
                    tgt = strip(children(d)[0])
                    ln = self.ev(children(st)[3], env)
                    if vg.is_const(ln) and vg.cval(ln) * 8 == width_of(tgt):
                        env[self.lvalue_key(tgt, env)] = vg.load(self.ev(children(st)[2], env), width_of(tgt))   # an unaligned load
                        return None
            if nm in ('memset', 'Decode', 'MD5_memset', 'memcpy'):
                return None           # no effect on the tracked scalars (Decode fills the message words: symbols x[k])
            self.call(st, env)
            return None
        if k in ('WhileStmt', 'ForStmt', 'DoStmt'):
            # a loop whose condition folds to a constant in every iteration (e.g. the tail loop once the length residue is
            # known) is unrolled; anything else is not straight-line code
            if k == 'ForStmt':
                init, _cv, cond, inc, body = st['inner']
                if init:
                    self.stmt(init, env)
            elif k == 'WhileStmt':
                cond, body = st['inner'][0], st['inner'][1]
                inc = None
            else:
                body, cond = st['inner'][0], st['inner'][1]
                inc = None
            first = k == 'DoStmt'
            for _ in range(130):
                if not first:
                    c = self.ev(cond, env) if cond else vg.const(1)
                    if not vg.is_const(c):
                        raise NotStraight('loop on a non-constant condition %s' % canon(cond)[:50])
                    if not vg.cval(c):
                        return None
                first = False
                r = self.stmt(body, env)
                if r is Forward.BREAK:
                    return None
                if r is not None:
                    return r
                if inc:
                    self.stmt(inc, env) if inc.get('kind') in ('BinaryOperator', 'CompoundAssignOperator', 'UnaryOperator', 'CallExpr') else self.ev(inc, env)
            raise NotStraight('loop does not finish within 130 iterations')
        if k == 'BreakStmt':
            return Forward.BREAK
        if k in ('ImplicitCastExpr', 'ParenExpr', 'CStyleCastExpr'):
            return self.stmt(children(st)[0], env)
        raise NotStraight('statement kind %s' % k)

    def _narrow(self, v, lhs):
        """assignment to a narrower unsigned variable truncates; constants are masked, other nodes kept"""
        w = width_of(lhs)
        if self.vg.is_const(v) and w < 64:
            return self.vg.const(self.vg.cval(v), w)
        return v

    def _switch(self, body, val, env):
        # flatten case labels in order
        seq = []

        def collect(st):
            k = st.get('kind')
            if k == 'CaseStmt':
                ch = children(st)
                from .expr import int_value
                seq.append(('case', int_value(ch[0])))
                collect(ch[-1])
            elif k == 'DefaultStmt':
                seq.append(('default', None))
                collect(children(st)[-1])
            elif k == 'CompoundStmt' and not seq:
                for c in children(st):
                    collect(c)
            else:
                seq.append(('stmt', st))
        if body.get('kind') == 'CompoundStmt':
            for c in children(body):
                collect(c)
        else:
            collect(body)
        start = None
        for i, (kind, v) in enumerate(seq):
            if kind == 'case' and v == val:
                start = i
                break
        if start is None:
            for i, (kind, v) in enumerate(seq):
                if kind == 'default':
                    start = i
                    break
        if start is None:
            return None
        for (kind, v) in seq[start:]:
            if kind == 'stmt':
                r = self.stmt(v, env)
                if r is Forward.BREAK:
                    return None
                if r is not None:
                    return r
        return None
