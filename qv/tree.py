"""Engine T: LLRB tree-table structural rules (C01: T1-T3, C04: T5, C15: A4) and the generic
count-pairing rule T4 (C01/C05/C08/C09/C10)."""
import collections
from .frontend import walk, children, strip, strip_parens, qtype, dtype, Ext
from .frontend import AnalysisBroken
from .expr import canon, access_path, int_value, is_null, var_init
from .own import propagate, node_events, cond_null_test, ALLOCATORS

UNIT = 'src/containers/qtreetbl.c'
NODE = 'qtreetbl_obj_s'


def _parents(root):
    par = {}
    stack = [root]
    while stack:
        x = stack.pop()
        for c in children(x):
            par[id(c)] = x
            stack.append(c)
    return par


def _is_node_ptr(f, e):
    r, d = f.unit.resolve_typedef(qtype(strip_parens(e)))
    return r == NODE and d == 1


def _direct_compare(x):
    if x.get('kind') == 'CallExpr':
        c = strip(children(x)[0])
        return c.get('kind') == 'MemberExpr' and c.get('name') == 'compare'
    return False


def comparator_wrappers(prog):
    """Thin static wrappers of the comparator: the body is a single `return X->compare(...)` whose arguments are the
    wrapper's parameters or fields of them.  name -> (function, inner argument list)."""
    cache = getattr(prog, '_cmp_wrappers', None)
    if cache is not None:
        return cache
    out = {}
    for f in prog.funcs_in(UNIT):
        if not f.static or f.body is None:
            continue
        stmts = [c for c in children(f.body) if c.get('kind') not in ('NullStmt',)]
        if len(stmts) != 1 or stmts[0].get('kind') != 'ReturnStmt' or not children(stmts[0]):
            continue
        e = strip(children(stmts[0])[0])
        if _direct_compare(e):
            out[f.name] = (f, children(e)[1:])
    prog._cmp_wrappers = out
    return out


def comparator_calls(prog, f):
    """Calls through the `compare` method field, directly or through a thin wrapper (comparator_wrappers): list of
    (call, args) where args are the comparator's arguments (a wrapper's parameters replaced by the actuals)."""
    out = []
    wr = comparator_wrappers(prog)
    for x in walk(f.body):
        if x.get('kind') == 'CallExpr':
            if _direct_compare(x):
                out.append((x, children(x)[1:]))
                continue
            nm = prog.callee_name(x)
            if nm in wr and nm != f.name:
                wf, inner = wr[nm]
                actual = dict(zip([p.get('name') for p in wf.params], children(x)[1:]))
                args = []
                for a in inner:
                    sa = strip(a)
                    if sa.get('kind') == 'DeclRefExpr' and canon(sa) in actual:
                        args.append(actual[canon(sa)])
                    else:
                        args.append(a)
                out.append((x, args))
    return out


# --------------------------------------------------------------------------------------
# T1: keys are touched only through the comparator

DEBUG_FUNCS = ('print_node', 'qtreetbl_debug', 'print_branch')


def rule_t1(prog, rep, rid='T1'):
    rep.rule(rid, 'a node\'s key bytes are only compared through tbl->compare (one orientation), copied, freed or moved - never '
                  'inspected directly (works for binary keys and user orderings)')
    orient = collections.Counter()
    for f in sorted(prog.funcs_in(UNIT), key=lambda x: x.line or 0):
        par = _parents(f.body)
        for (call, args) in comparator_calls(prog, f):
            if len(args) >= 4:
                a0, a2 = strip(args[0]), strip(args[2])
                node_first = a0.get('kind') == 'MemberExpr' and a0.get('name') == 'name'
                node_third = a2.get('kind') == 'MemberExpr' and a2.get('name') == 'name'
                o = 'node-first' if node_first and not node_third else ('probe-first' if node_third and not node_first else 'other')
                orient[o] += 1
                rep.instance(rid)
                rep.oblige(rid, o != 'other', {'function': f.name, 'comparator_call': canon(call)[:80], 'orientation': o})
                if o == 'other':
                    rep.violation(rid, f, call.get('_line'), 'compare:%s' % canon(call)[:30],
                                  'comparator call does not compare the probe key with a node key: %s' % canon(call)[:90])
        for x in walk(f.body):
            if x.get('kind') == 'MemberExpr' and x.get('_field') and x['_field'][:2] == (NODE, 'name'):
                rep.instance(rid)
                p = par.get(id(x))
                while p is not None and p.get('kind') in ('ImplicitCastExpr', 'ParenExpr', 'CStyleCastExpr'):
                    x2 = p
                    p = par.get(id(p))
                ok = True
                why = ''
                k = p.get('kind') if p else None
                if k == 'CallExpr':
                    c0 = strip(children(p)[0])
                    nm = prog.callee_name(p)
                    if c0.get('kind') == 'MemberExpr' and c0.get('name') == 'compare':
                        pass
                    elif nm in ('qmemdup', 'free', '_q_textout') or f.name in DEBUG_FUNCS:
                        pass
                    else:
                        ok, why = False, 'passed to %s()' % (nm or canon(c0))
                elif k in ('UnaryOperator',) and p.get('opcode') == '*' and f.name not in DEBUG_FUNCS:
                    ok, why = False, 'dereferenced'
                elif k == 'ArraySubscriptExpr' and f.name not in DEBUG_FUNCS:
                    ok, why = False, 'indexed'
                elif k == 'BinaryOperator' and p.get('opcode') in ('<', '>', '<=', '>=', '-', '+'):
                    ok, why = False, 'used in pointer comparison/arithmetic'
                rep.oblige(rid, ok)
                if not ok:
                    rep.violation(rid, f, x.get('_line'), 'key:%s' % why,
                                  'the key bytes of a node are %s outside the comparator (%s): ordering is no longer '
                                  'the table\'s compare function' % (why, canon(p)[:70]))
    if len([o for o in orient if o != 'other']) > 1:
        rep.violation(rid, (UNIT, 'compare'), 0, 'orientation-mixed',
                      'comparator calls use both orientations %s: descents disagree about the sign' % dict(orient))
    rep.notes['comparator_orientation'] = dict(orient)
    return 'node-first' if orient.get('node-first') else 'probe-first'


# --------------------------------------------------------------------------------------
# T2: descent direction agrees with the comparator sign

ALL = frozenset('-0+')


def _refine(signs, op, val, lab):
    """signs of v given branch `v op val` (val == 0) taken with label lab."""
    if val != 0:
        return signs
    sat = {'<': '-', '>': '+', '<=': '-0', '>=': '0+', '==': '0', '!=': '-+'}[op]
    keep = set(sat) if lab == 'T' else set('-0+') - set(sat)
    return frozenset(signs & keep)


def rule_t2(prog, rep, orientation, rid='T2'):
    rep.rule(rid, 'every descent takes the left child only where the comparator result can be negative and the right child only '
                  'where it can be positive; an equal key never descends')
    for f in sorted(prog.funcs_in(UNIT), key=lambda x: x.line or 0):
        calls = comparator_calls(prog, f)
        if not calls:
            continue
        # the variable(s) receiving a comparator result
        cmpvars = set()
        for x in walk(f.body):
            if x.get('kind') == 'VarDecl':
                init = var_init(x)
                if init is not None and any(c[0] is strip(init) for c in calls):
                    cmpvars.add(x.get('name'))
            elif x.get('kind') == 'BinaryOperator' and x.get('opcode') == '=':
                if any(c[0] is strip(children(x)[1]) for c in calls):
                    p = access_path(children(x)[0])
                    if p:
                        cmpvars.add(p)
        if not cmpvars:
            continue
        results = []

        def cond_on_cmp(e):
            s = strip_parens(e)
            if s.get('kind') == 'BinaryOperator' and s.get('opcode') in ('<', '>', '<=', '>=', '==', '!='):
                a, b = children(s)
                pa, pb = access_path(a), access_path(b)
                va, vb = int_value(a), int_value(b)
                if pa in cmpvars and vb is not None:
                    return pa, s.get('opcode'), vb
                if pb in cmpvars and va is not None:
                    flip = {'<': '>', '>': '<', '<=': '>=', '>=': '<=', '==': '==', '!=': '!='}[s.get('opcode')]
                    return pb, flip, va
            return None

        def descents(e, signs_of):
            """(side, line) for child selections used as descent targets inside expression e"""
            out = []

            def rec(x, env):
                k = x.get('kind')
                if k == 'ConditionalOperator':
                    c, a, b = children(x)
                    t = cond_on_cmp(c)
                    if t and t[0] in env:
                        ea = dict(env)
                        ea[t[0]] = _refine(env[t[0]], t[1], t[2], 'T')
                        eb = dict(env)
                        eb[t[0]] = _refine(env[t[0]], t[1], t[2], 'F')
                        rec(c, env)
                        rec(a, ea)
                        rec(b, eb)
                        return
                if k == 'MemberExpr' and x.get('_field') and x['_field'][0] == NODE and x.get('name') in ('left', 'right'):
                    out.append((x.get('name'), x, dict(env)))
                for c in children(x):
                    rec(c, env)
            rec(e, signs_of)
            return out

        def is_descent_use(n, m, par):
            """m (X->left|right) is a descent target: assigned to the cursor variable, passed as the node argument of a
            recursive restructuring call, or selected by a ?: that is assigned to the cursor"""
            p = par.get(id(m))
            while p is not None and p.get('kind') in ('ImplicitCastExpr', 'ParenExpr', 'CStyleCastExpr', 'ConditionalOperator'):
                m2 = p
                p = par.get(id(p))
            if p is None:
                return False
            k = p.get('kind')
            if k == 'BinaryOperator' and p.get('opcode') == '=':
                lhs = strip(children(p)[0])
                return lhs.get('kind') == 'DeclRefExpr' and _is_node_ptr(f, lhs) and m is not strip(children(p)[0])
            if k == 'VarDecl':
                return False
            if k == 'CallExpr':
                nm = prog.callee_name(p)
                return nm in ('put_obj', 'remove_obj', f.name)
            return False

        def transfer(n, st):
            d = dict(st)
            if isinstance(n.ast, dict) and n.kind != 'macro':
                par = _parents(n.ast)
                env = {v: d.get(v, ALL) for v in cmpvars}
                for (side, m, e2) in descents(n.ast, env):
                    if is_descent_use(n, m, par):
                        # which comparator variable governs? the one most recently tested: use all
                        for v in cmpvars:
                            results.append((side, m.get('_line'), frozenset(e2[v]), canon(m)))
                for ev in node_events(n):
                    if ev[0] == 'assign':
                        p = access_path(ev[1])
                        if p in cmpvars:
                            d[p] = ALL
                    elif ev[0] == 'decl' and ev[1].get('name') in cmpvars:
                        d[ev[1].get('name')] = ALL
            return frozenset(d.items())

        def transfer_wrap(n, st):
            return transfer(n, dict(st))

        def branch(n, st, lab):
            t = cond_on_cmp(n.ast) if isinstance(n.ast, dict) else None
            if not t:
                return st
            d = dict(st)
            cur = d.get(t[0], ALL)
            new = _refine(cur, t[1], t[2], lab)
            if not new:
                return None
            d[t[0]] = new
            return frozenset(d.items())

        propagate(f, frozenset(), transfer_wrap, branch)
        seen = {}
        for (side, line, signs, what) in results:
            key = (side, line, what)
            seen[key] = seen.get(key, frozenset()) | signs
        for (side, line, what), signs in sorted(seen.items(), key=lambda kv: kv[0][1] or 0):
            rep.instance(rid)
            want = '-' if side == 'left' else '+'
            if orientation == 'node-first':
                want = '+' if side == 'left' else '-'
            ok = (want in signs) and ('0' not in signs) and not (signs == frozenset('+' if want == '-' else '-'))
            rep.oblige(rid, ok, {'function': f.name, 'descent': what, 'line': line, 'possible_signs': ''.join(sorted(signs))})
            if not ok:
                rep.violation(rid, f, line, 'descent:%s' % side,
                              'descent into %s at line %s happens where the comparator result can be {%s}; %s requires it to be '
                              '%s and never 0' % (what, line, ','.join(sorted(signs)), side,
                                                  'negative' if want == '-' else 'positive'))


# --------------------------------------------------------------------------------------
# T3: restructuring results are written back to the link they came from

def restructurers(prog):
    fs = [f for f in prog.funcs_in(UNIT) if f.static and f.rettype.rstrip().endswith('*')
          and f.unit.resolve_typedef(f.rettype)[0] == NODE and any(_is_node_ptr(f, p) for p in f.params)]
    identity = set()
    for f in fs:
        pn = [p.get('name') for p in f.params if _is_node_ptr(f, p)]
        rets = [r for r in f.cfg.returns() if children(r.ast)]
        assigned = any(x.get('kind') == 'BinaryOperator' and x.get('opcode') == '=' and access_path(children(x)[0]) in pn
                       for x in walk(f.body))
        if rets and not assigned and all(access_path(children(r.ast)[0]) in pn for r in rets):
            identity.add(f.name)
    res = set()
    changed = True
    while changed:
        changed = False
        for f in fs:
            if f.name in res or f.name in identity:
                continue
            writes = any(x.get('kind') == 'BinaryOperator' and x.get('opcode') == '='
                         and strip(children(x)[0]).get('kind') == 'MemberExpr'
                         and strip(children(x)[0]).get('name') in ('left', 'right')
                         and (strip(children(x)[0]).get('_field') or ('',))[0] == NODE for x in walk(f.body))
            callsres = any(x.get('kind') == 'CallExpr' and prog.callee_name(x) in res for x in walk(f.body))
            if writes or callsres:
                res.add(f.name)
                changed = True
    return res, identity


def _local_alias(f, arg, call):
    """`arg` is a single-assignment local initialised from a link (`T *right = obj->right;`) and neither that link nor its
    base variable is assigned between the declaration and the call: the link's spelling, else None."""
    a = strip(arg)
    if a.get('kind') != 'DeclRefExpr':
        return None
    if (a.get('_ref') or ('',))[0] != 'local':
        return None
    nm = canon(a)
    if nm in [p.get('name') for p in f.params]:
        return None
    decl = None
    for x in walk(f.body):
        if x.get('kind') == 'VarDecl' and x.get('name') == nm:
            if decl is not None:
                return None
            decl = x
    if decl is None or var_init(decl) is None:
        return None
    init = strip(var_init(decl))
    if init.get('kind') != 'MemberExpr' or init.get('name') not in ('left', 'right'):
        return None
    link = canon(init)
    base = canon(children(init)[0]) if children(init) else None
    l0, l1 = decl.get('_line') or 0, call.get('_line') or 0
    for x in walk(f.body):
        if x.get('kind') == 'BinaryOperator' and x.get('opcode') == '=':
            lhs = canon(children(x)[0])
            if lhs == nm:
                return None
            if lhs in (link, base) and l0 <= (x.get('_line') or 0) <= l1 and strip(children(x)[1]) is not call:
                return None
        elif x.get('kind') == 'UnaryOperator' and x.get('opcode') == '&' and canon(children(x)[0]) == nm:
            return None
    return link


def rule_t3(prog, rep, rid='T3'):
    rep.rule(rid, 'the subtree root returned by a rotation/fix-up/recursive insert or delete is stored back into the link (or '
                  'variable) that supplied the argument, or returned')
    res, identity = restructurers(prog)
    rep.notes['restructuring_functions'] = sorted(res)
    rep.notes['identity_returning'] = sorted(identity)
    for f in sorted(prog.funcs_in(UNIT), key=lambda x: x.line or 0):
        par = _parents(f.body)
        for x in walk(f.body):
            if x.get('kind') != 'CallExpr' or prog.callee_name(x) not in res:
                continue
            args = children(x)[1:]
            node_args = [a for a in args if _is_node_ptr(f, a)]
            if not node_args:
                continue
            src = canon(node_args[0])
            src = _local_alias(f, node_args[0], x) or src
            rep.instance(rid)
            p = par.get(id(x))
            while p is not None and p.get('kind') in ('ImplicitCastExpr', 'ParenExpr', 'CStyleCastExpr'):
                p = par.get(id(p))
            ok, how = False, 'result discarded'
            k = p.get('kind') if p else None
            if k == 'BinaryOperator' and p.get('opcode') == '=':
                dst = canon(children(p)[0])
                if dst == src:
                    ok, how = True, 'stored back to %s' % dst
                elif not f.static and (src.endswith('->root')):
                    ok, how = True, 'public mutator: checked by A4 (%s)' % dst
                else:
                    how = 'stored to %s, but the argument came from %s' % (dst, src)
            elif k == 'VarDecl':
                if not f.static and src.endswith('->root'):
                    ok, how = True, 'public mutator: checked by A4'
                else:
                    how = 'kept in local %s only' % p.get('name')
            elif k == 'ReturnStmt':
                ok, how = True, 'returned to the caller'
            rep.oblige(rid, ok, {'function': f.name, 'call': canon(x)[:60], 'result': how})
            if not ok:
                rep.violation(rid, f, x.get('_line'), 'call:%s(%s)' % (prog.callee_name(x), src),
                              '%s(%s) may return a new subtree root but the result is %s: the parent link keeps pointing '
                              'at the old root' % (prog.callee_name(x), src, how))
    return res


# --------------------------------------------------------------------------------------
# A4: public mutators store (and blacken) the returned root on every path

def rule_a4(prog, rep, res, rid='A4'):
    rep.rule(rid, 'in the public tree mutators the root returned by the recursive helper reaches tbl->root and is blackened on '
                  'every path on which it is non-NULL (allocation-failure exits included)')
    for f in sorted(prog.funcs_in(UNIT), key=lambda x: x.line or 0):
        if f.static:
            continue
        sites = []
        for n in f.cfg.nodes:
            if n.id not in f.cfg.reachable or not isinstance(n.ast, dict) or n.kind == 'macro':
                continue
            for x in walk(n.ast):
                if x.get('kind') == 'CallExpr' and prog.callee_name(x) in res:
                    args = children(x)[1:]
                    if any(canon(a).endswith('->root') for a in args):
                        sites.append((n, x))
        for (n0, call) in sites:
            rep.instance(rid)
            rootpath = [canon(a) for a in children(call)[1:] if canon(a).endswith('->root')][0]
            bad = []

            def transfer(n, st):
                s = set(st)
                if not isinstance(n.ast, dict) or n.kind == 'macro':
                    return st
                for ev in node_events(n):
                    if ev[0] == 'decl' and ev[2] is not None and strip(ev[2]) is call:
                        s = {('pend', ev[1].get('name'))}
                    elif ev[0] == 'assign':
                        lp = canon(ev[1])
                        if strip(ev[2]) is call:
                            if lp == rootpath:
                                s = {('stored', rootpath)}
                            else:
                                s = {('pend', access_path(ev[1]) or lp)}
                        elif lp == rootpath:
                            src = access_path(ev[2])
                            if ('pend', src) in s:
                                s.discard(('pend', src))
                                s.add(('stored', src))
                        else:
                            l = strip(ev[1])
                            if l.get('kind') == 'MemberExpr' and l.get('name') == 'red' and int_value(ev[2]) == 0:
                                s.add(('black',))
                if n.kind == 'act' and n.ast.get('kind') == 'ReturnStmt':
                    pend = [x for x in s if x[0] == 'pend']
                    if pend:
                        bad.append((n.line, 'root kept in `%s` is not stored to %s' % (pend[0][1], rootpath)))
                    elif any(x[0] == 'stored' for x in s) and ('black',) not in s and ('null',) not in s:
                        bad.append((n.line, 'stored root is not blackened'))
                return frozenset(s)

            def branch(n, st, lab):
                t = cond_null_test(n.ast) if isinstance(n.ast, dict) else None
                if not t:
                    return st
                path, null_on_true = t
                isnull = (lab == 'T') == null_on_true
                s = set(st)
                if isnull:
                    if ('pend', path) in s:
                        s.discard(('pend', path))
                        s.add(('null',))
                    elif path == rootpath and any(x[0] == 'stored' for x in s):
                        s.add(('null',))
                return frozenset(s)

            propagate(f, frozenset(), transfer, branch)
            rep.oblige(rid, not bad, {'function': f.name, 'helper_call': canon(call)[:60]})
            if bad:
                line, why = bad[0]
                rep.violation(rid, f, line, 'root:%s' % prog.callee_name(call),
                              'on the path returning at line %s the %s: the helper may already have flipped colours / rotated on '
                              'the way down, so the tree is left with a stale or red root' % (line, why))


# --------------------------------------------------------------------------------------
# T5: climbs along the parent link are anchored (C04)

def rule_t5(prog, rep, rid='T5'):
    rep.rule(rid, 'every loop that climbs through the per-node parent link (x = x->next) is preceded on all paths by a reset of the '
                  'root\'s parent link in the same call, and every descent step rewrites the child\'s parent link')
    # functions whose summary resets root->next
    resetters = set()
    for f in prog.funcs_in(UNIT):
        for x in walk(f.body):
            if x.get('kind') == 'BinaryOperator' and x.get('opcode') == '=':
                l = strip(children(x)[0])
                if l.get('kind') == 'MemberExpr' and l.get('name') == 'next' and canon(l).endswith('->root->next') \
                        and is_null(children(x)[1]):
                    resetters.add(f.name)
    # ... transitively: a static helper every path of which calls a resetter is a resetter too
    changed = True
    while changed:
        changed = False
        for f in prog.funcs_in(UNIT):
            if f.name in resetters or f.body is None or not f.static:
                continue
            if not any(y.get('kind') == 'CallExpr' and prog.callee_name(y) in resetters for y in walk(f.body)):
                continue

            def calls_resetter(m):
                return isinstance(m.ast, dict) and m.kind != 'macro' and any(
                    y.get('kind') == 'CallExpr' and prog.callee_name(y) in resetters for y in walk(m.ast))
            if all(_path_to(f.cfg, r, calls_resetter) is None or calls_resetter(r) for r in f.cfg.returns() + [p_ for (p_, _l) in f.cfg.exit.preds]):
                resetters.add(f.name)
                changed = True
    rep.notes['root_parent_link_resetters'] = sorted(resetters)
    for f in sorted(prog.funcs_in(UNIT), key=lambda x: x.line or 0):
        climbs = []
        for n in f.cfg.nodes:
            if n.id not in f.cfg.reachable or not isinstance(n.ast, dict) or n.kind == 'macro':
                continue
            for x in walk(n.ast):
                if x.get('kind') == 'BinaryOperator' and x.get('opcode') == '=':
                    l, r = children(x)
                    lp = access_path(l)
                    rs = strip(r)
                    if lp and rs.get('kind') == 'MemberExpr' and rs.get('name') == 'next' and \
                            (rs.get('_field') or ('',))[0] == NODE and access_path(children(rs)[0]) == lp and '->' not in lp:
                        climbs.append((n, x, lp))
        if not climbs:
            continue
        for (n, x, var) in climbs:
            rep.instance(rid)
            # (b) reset on every path from entry to the climb (for a static helper: on every path to each of its call sites)
            path = _unreset_path(prog, f, n, resetters)
            ok = path is None
            rep.oblige(rid, ok, {'function': f.name, 'climb': canon(x), 'line': x.get('_line')})
            if not ok:
                rep.violation(rid, f, x.get('_line'), 'climb:%s' % var,
                              'the climb %s at line %s can be reached without the root\'s parent link having been cleared in this '
                              'call: a link left by an earlier walk/search/rotation is followed (wrong answer, endless loop or '
                              'freed node)' % (canon(x), x.get('_line')),
                              path=['%s:%s' % (f.relfile, p.line) for p in path if p.kind in ('cond', 'act')][:20])
        # (a) descent steps rewrite the child's parent link
        for n in f.cfg.nodes:
            if n.id not in f.cfg.reachable or not isinstance(n.ast, dict) or n.kind == 'macro':
                continue
            for x in walk(n.ast):
                if x.get('kind') == 'BinaryOperator' and x.get('opcode') == '=':
                    l, r = children(x)
                    lp = access_path(l)
                    rs = strip(r)
                    if lp and '->' not in lp and rs.get('kind') == 'MemberExpr' and rs.get('name') in ('left', 'right') \
                            and access_path(children(rs)[0]) == lp:
                        rep.instance(rid)
                        want = '%s->%s->next' % (lp, rs.get('name'))

                        def sets_link(m):
                            if not isinstance(m.ast, dict) or m.kind == 'macro':
                                return False
                            return any(y.get('kind') == 'BinaryOperator' and y.get('opcode') == '=' and
                                       canon(children(y)[0]) == want and canon(children(y)[1]) == lp for y in walk(m.ast))

                        def skipnull(m, lab):
                            if m.kind == 'cond' and isinstance(m.ast, dict):
                                t = cond_null_test(m.ast)
                                if t and t[0] == '%s->%s' % (lp, rs.get('name')) and ((lab == 'T') == t[1]):
                                    return True     # no child: nothing to link
                            return False
                        # search backwards: is there a path from entry to this node that avoids the link store
                        # *since the last assignment of the cursor*?  approximate: the store must dominate within
                        # the same loop iteration -> look for a path from the loop head / entry avoiding it
                        path = _path_to(f.cfg, n, sets_link, skipnull, restart_at_loopheads=True)
                        ok = path is None
                        rep.oblige(rid, ok, {'function': f.name, 'descent': canon(x), 'requires': '%s = %s' % (want, lp)})
                        if not ok:
                            rep.violation(rid, f, x.get('_line'), 'descent:%s' % rs.get('name'),
                                          'the descent %s does not record the parent in %s first: the later climb follows '
                                          'a stale link' % (canon(x), want))


_RD_CACHE = {}


def _unreset_path(prog, f, n, resetters, depth=0):
    """A path from f's entry to node n on which the root's parent link is not cleared (None if there is none).  Paths on
    which the caller's cursor already carries a parent link (continuation of a walk) or the tree is empty are exempt.  For
    a static helper the obligation moves to its call sites: cleared on every path to each of them."""
    from .dataflow import ReachingDefs, canon_subst
    rd = _RD_CACHE.get(id(f))
    if rd is None:
        rd = _RD_CACHE[id(f)] = ReachingDefs(f)

    def is_reset(m):
        if not isinstance(m.ast, dict) or m.kind == 'macro':
            return False
        for y in walk(m.ast):
            if y.get('kind') == 'BinaryOperator' and y.get('opcode') == '=':
                l = strip(children(y)[0])
                if l.get('kind') == 'MemberExpr' and l.get('name') == 'next' and canon(l).endswith('->root->next') \
                        and is_null(children(y)[1]):
                    return True
            if y.get('kind') == 'CallExpr' and prog.callee_name(y) in resetters:
                return True
        return False

    def skip(m, lab):
        if m.kind == 'cond' and isinstance(m.ast, dict):
            t = cond_null_test(m.ast)
            if t:
                tp = t[0]
                if '->' not in tp:
                    # a local holding the caller's cursor link (`T *cursor = obj->next; if (cursor == NULL)`)
                    for y in walk(m.ast):
                        if y.get('kind') == 'DeclRefExpr' and canon(y) == tp and (y.get('_ref') or ('',))[0] == 'local':
                            tp = canon_subst(rd, m.id, y)
                            break
                if tp.endswith('->next') and not tp.endswith('root->next'):
                    r0 = tp.split('->')[0]
                    if any(p.get('name') == r0 for p in f.params):
                        # non-NULL branch = continuation path (exempt by contract)
                        return (lab == 'T') != t[1]
                # an empty tree has nothing to climb
                if tp.endswith('->root') and ((lab == 'T') == t[1]):
                    return True
        return False
    path = _path_to(f.cfg, n, is_reset, skip)
    if path is None:
        return None
    if f.static and depth < 3:
        sites = []
        for g in prog.funcs_in(UNIT):
            if g.body is None or g is f:
                continue
            for m in g.cfg.nodes:
                if m.id in g.cfg.reachable and isinstance(m.ast, dict) and m.kind != 'macro' and any(
                        y.get('kind') == 'CallExpr' and prog.callee_name(y) == f.name for y in walk(m.ast)):
                    sites.append((g, m))
        if sites:
            for (g, m) in sites:
                p2 = _unreset_path(prog, g, m, resetters, depth + 1)
                if p2 is not None:
                    return p2 + path
            return None
    return path


def _path_to(cfg, target, pred, skip_edge=None, restart_at_loopheads=False):
    """A path from the function entry (or, optionally, from any loop head) to `target` that
    avoids every node satisfying pred; None if there is none."""
    starts = [cfg.entry]
    if restart_at_loopheads:
        starts += [h for (h, _s) in cfg.loops if h.id in cfg.reachable]
    for st in starts:
        seen = set()
        work = [(st, [st])]
        while work:
            n, path = work.pop()
            if n.id in seen:
                continue
            seen.add(n.id)
            if n is target and (n is not st or not restart_at_loopheads):
                return path
            if pred(n) and n is not target:
                continue
            for (s, lab) in n.succs:
                if skip_edge is not None and skip_edge(n, lab):
                    continue
                if s is cfg.exit:
                    continue
                work.append((s, path + [s]))
    return None


# --------------------------------------------------------------------------------------
# T6: the default comparator orders by the common prefix first, then by length

def rule_t6(prog, rep, rid='T6'):
    from .interp import run_function
    rep.rule(rid, 'the default key comparator returns the sign of the byte comparison of the common prefix, and for an equal prefix '
                  'the sign of the length difference (decision table evaluated for all 9 sign/length-order cases)')
    f = None
    for x in prog.funcs_in(UNIT):
        if not x.static and len(x.params) == 4 and x.rettype == 'int' and any(
                y.get('kind') == 'CallExpr' and prog.callee_name(y) == 'memcmp' for y in walk(x.body)):
            f = x
            break
    rep.broken_if(f is None, 'default comparator (4 parameters, calls memcmp) not found in qtreetbl.c')
    if f is None:
        return
    # key bytes the comparator looks at itself are unsigned: ordering them through plain (signed) char disagrees with
    # memcmp() for bytes >= 0x80, and a comparator that mixes both is not even transitive
    signed_cmp = None
    for x in walk(f.body):
        if x.get('kind') == 'BinaryOperator' and x.get('opcode') in ('<', '>', '<=', '>=', '-'):
            ops = [strip(c) for c in children(x)]
            if all(o.get('kind') in ('ArraySubscriptExpr', 'UnaryOperator') and
                   (qtype(o) or '').replace('const ', '').strip() in ('char', 'signed char') for o in ops):
                signed_cmp = x
                break
    # ... and a result formed by squeezing a difference of unsigned (or wider-than-int) operands into int has the sign of
    # the wrapped value, not of the order (`return (int)(w1 - w2)` for words that differ by 2^31 or more)
    if signed_cmp is None:
        for x in walk(f.body):
            if x.get('kind') == 'ReturnStmt' and children(x):
                e = strip(children(x)[0])
                if e.get('kind') == 'BinaryOperator' and e.get('opcode') == '-':
                    t = (dtype(e) or '')
                    if 'unsigned' in t or t in ('long', 'long long', 'size_t', 'ssize_t'):
                        signed_cmp = e
                        break
    rep.instance(rid)
    rep.oblige(rid, signed_cmp is None, {'function': f.name, 'clause': 'key bytes are ordered as unsigned char'})
    if signed_cmp is not None:
        if signed_cmp.get('opcode') == '-' and 'unsigned' in (dtype(signed_cmp) or '') or (dtype(signed_cmp) or '') in ('long', 'long long', 'size_t', 'ssize_t'):
            rep.violation(rid, f, signed_cmp.get('_line'), 'wrapped-difference',
                          '%s returns the difference %s (type %s) converted to int: for operands that differ by 2^31 or more the sign is '
                          'that of the wrapped value, not of the order' % (f.name, canon(signed_cmp)[:60], dtype(signed_cmp)))
        else:
            rep.violation(rid, f, signed_cmp.get('_line'), 'signed-bytes',
                          '%s orders key bytes through plain char (%s): bytes >= 0x80 sort before ASCII, unlike memcmp() - keys that differ '
                          'at such a byte are ordered inconsistently' % (f.name, canon(signed_cmp)[:60]))
        return
    pn = [p.get('name') for p in f.params]
    for (n1, n2) in ((1, 2), (2, 2), (3, 2)):
        for m in (-1, 0, 1):
            rep.instance(rid)
            seen_len = []

            def memcmp_stub(vals, texts):
                seen_len.append(vals[2] if len(vals) > 2 else None)
                return m
            r = run_function(prog, f, [1000, n1, 2000, n2], {'memcmp': memcmp_stub})
            if r is None:
                # a comparator the loop-free evaluator cannot tabulate (it inspects the bytes itself, loops, ...): no verdict
                raise AnalysisBroken('%s: the default comparator cannot be tabulated over the 9 sign/length cases (it does not reduce '
                                     'to memcmp() of the common prefix plus a length comparison)' % f.name)
            want = m if m != 0 else ((n1 > n2) - (n1 < n2))
            ok = r is not None and ((r > 0) - (r < 0)) == want and (not seen_len or seen_len[0] == min(n1, n2))
            rep.oblige(rid, ok, {'len1': n1, 'len2': n2, 'prefix_cmp': m, 'result': r, 'expected_sign': want})
            if not ok:
                rep.violation(rid, f, f.line, 'case:%d,%d,%d' % (n1, n2, m),
                              '%s(len %d, len %d) with the common prefix comparing %s returns %s (memcmp length %s); expected sign %d: '
                              'keys that are prefixes of one another are mis-ordered' % (
                                  f.name, n1, n2, {-1: 'less', 0: 'equal', 1: 'greater'}[m], r, seen_len[:1], want))


# --------------------------------------------------------------------------------------
# T5c / T7 / T8 (added after seeded changes C04-1..3 were missed)

def rule_t5c(prog, rep, rid='T5c'):
    """A function that records parent links while descending (x->child->next = x) hands out - directly or via the
    caller's cursor - a position from which getnext() climbs up to the root; the root's parent link must therefore have
    been cleared on EVERY path before the first such store, not only before a climb inside the same function."""
    rep.rule(rid, 'before the first parent-link store of a descent the root\'s parent link is cleared on every path (the cursor handed '
                  'out is later climbed by getnext)')
    resetters = set(rep.notes.get('root_parent_link_resetters') or [])
    for f in sorted(prog.funcs_in(UNIT), key=lambda x: x.line or 0):
        stores = []
        for n in f.cfg.nodes:
            if n.id not in f.cfg.reachable or not isinstance(n.ast, dict) or n.kind == 'macro':
                continue
            for x in walk(n.ast):
                if x.get('kind') == 'BinaryOperator' and x.get('opcode') == '=':
                    l = canon(children(x)[0])
                    r = access_path(children(x)[1])
                    if r and (l == '%s->left->next' % r or l == '%s->right->next' % r):
                        stores.append((n, x))
        if not stores:
            continue

        rep.instance(rid)
        bad = None
        for (n, x) in stores:
            path = _unreset_path(prog, f, n, resetters)
            if path is not None:
                bad = (n, x)
                break
        rep.oblige(rid, bad is None, {'function': f.name, 'parent_link_stores': len(stores)})
        if bad:
            rep.violation(rid, f, bad[1].get('_line'), 'descent-without-reset',
                          '%s records parent links (%s at line %s) on a path on which the root\'s parent link was not cleared first: the '
                          'position it hands out is later climbed by getnext(), which then follows a stale link above the root'
                          % (f.name, canon(bad[1]), bad[1].get('_line')))


def rule_t7(prog, rep, rid='T7'):
    """End of a walk advances the traversal epoch: every path of the walker that leaves its traversal loop at the end and
    reports `no more elements` passes the epoch-advancing helper."""
    rep.rule(rid, 'the walker advances the traversal id when a walk ends (every end-of-walk exit passes reset_iterator / ++tid)')
    f = prog.need_func('qtreetbl_getnext')
    bumpers = set()
    for g in prog.funcs_in(UNIT):
        if any(x.get('kind') == 'UnaryOperator' and x.get('opcode') == '++' and canon(children(x)[0]).endswith('->tid') for x in walk(g.body)):
            bumpers.add(g.name)
    # ... and static helpers every path of which calls one (`reset_iterator()` -> `next_tid()`)
    changed = True
    while changed:
        changed = False
        for g in prog.funcs_in(UNIT):
            if g.name in bumpers or g.body is None or not g.static:
                continue

            def calls_b(m):
                return isinstance(m.ast, dict) and m.kind != 'macro' and any(
                    y.get('kind') == 'CallExpr' and prog.callee_name(y) in bumpers for y in walk(m.ast))
            if not any(calls_b(m) for m in g.cfg.nodes):
                continue
            if all(_path_to(g.cfg, r, calls_b) is None or calls_b(r) for r in g.cfg.returns() + [p_ for (p_, _l) in g.cfg.exit.preds]):
                bumpers.add(g.name)
                changed = True
    rep.notes['epoch_advancing_functions'] = sorted(bumpers)

    def bumps(m):
        if not isinstance(m.ast, dict) or m.kind == 'macro':
            return False
        return any((y.get('kind') == 'CallExpr' and prog.callee_name(y) in bumpers) or
                   (y.get('kind') == 'UnaryOperator' and y.get('opcode') == '++' and canon(children(y)[0]).endswith('->tid'))
                   for y in walk(m.ast))
    # the traversal loop: the loop whose body steps through ->left / ->right / ->next of a cursor
    from .hashrules import _loop_nodes
    rep.instance(rid)
    bad = None
    for (head, loop) in f.cfg.loops:
        body = _loop_nodes(f.cfg, head)
        # exits of the loop through its condition being false
        exits = [s for i in body for (s, lab) in f.cfg.nodes[i].succs if s.id not in body and f.cfg.nodes[i].kind == 'cond' and lab == 'F'
                 and f.cfg.nodes[i].line == head.line]
        # what leaving the loop through its condition says about the cursor (`while (cursor != NULL)` left: cursor is NULL)
        from .own import cond_null_test as _cnt
        hfact = None
        for i in body:
            hn = f.cfg.nodes[i]
            if hn.kind == 'cond' and hn.line == head.line and isinstance(hn.ast, dict) and any(s.id not in body and lab == 'F' for (s, lab) in hn.succs):
                t_ = _cnt(hn.ast)
                if t_:
                    hfact = (t_[0], not t_[1])         # (path, is NULL on the F edge)
        for e in exits:
            # from e to the function exit without a bump?  (the loop-exit fact about the cursor decides later tests of it,
            # as long as it is not re-assigned)
            seen = set()
            work = [(e, hfact)]
            while work:
                m, fact = work.pop()
                if m is f.cfg.exit:
                    bad = e
                    break
                if (m.id, fact) in seen or bumps(m):
                    continue
                seen.add((m.id, fact))
                if fact is not None and isinstance(m.ast, dict) and m.kind != 'macro':
                    for y in walk(m.ast):
                        if (y.get('kind') == 'BinaryOperator' and y.get('opcode') == '=' and access_path(children(y)[0]) == fact[0]) or \
                                (y.get('kind') == 'VarDecl' and y.get('name') == fact[0]):
                            fact = None
                            break
                for (s, _l) in m.succs:
                    if fact is not None and m.kind == 'cond' and _l in ('T', 'F') and isinstance(m.ast, dict):
                        t_ = _cnt(m.ast)
                        if t_ and t_[0] == fact[0]:
                            isnull_on_edge = (_l == 'T') == t_[1]
                            if isnull_on_edge != fact[1]:
                                continue
                    work.append((s, fact))
            if bad:
                break
    rep.oblige(rid, bad is None, {'function': f.name})
    if bad is not None:
        rep.violation(rid, f, bad.line, 'end-of-walk', 'qtreetbl_getnext can finish a walk without advancing the traversal id: every node then '
                      'still carries the id the next search/continuation is given, so that continuation visits nothing')


def rule_t7b(prog, rep, rid='T7'):
    """The traversal id is advanced only by the walker and by (re)initialisation: no function that advances it is reachable
    from any other public operation.  A search that bumps the 8-bit id makes it meet the stamps of the last completed walk
    again after 256 searches - the continuation then takes every node for visited."""
    bumpers = set()
    for g in prog.funcs_in(UNIT):
        if g.body is not None and any(x.get('kind') == 'UnaryOperator' and x.get('opcode') in ('++', '--') and canon(children(x)[0]).endswith('->tid')
                                      or (x.get('kind') in ('BinaryOperator', 'CompoundAssignOperator') and (x.get('opcode') or '').endswith('=')
                                          and x.get('opcode') not in ('==', '!=', '<=', '>=') and canon(children(x)[0]).endswith('tbl->tid'))
                                      for x in walk(g.body)):
            bumpers.add(g.key)
    if not bumpers:
        return
    allowed = {'qtreetbl_getnext', 'qtreetbl', 'qtreetbl_clear', 'qtreetbl_free'}
    for f in sorted(prog.funcs_in(UNIT), key=lambda x: x.line or 0):
        if f.static or f.body is None or f.name in allowed:
            continue
        seen, work, par = {f.key}, [f], {}
        hit = None
        while work and hit is None:
            g = work.pop()
            for x in walk(g.body):
                if x.get('kind') != 'CallExpr':
                    continue
                for c in prog.callees(g.unit, x):
                    if getattr(c, 'body', None) is None or c.key in seen:
                        continue
                    seen.add(c.key)
                    par[c.key] = g
                    if c.key in bumpers:
                        hit = (c, x.get('_line'), g)
                        break
                    if c.name in allowed:
                        continue          # another public operation's own business
                    work.append(c)
                if hit:
                    break
        if f.key in bumpers:
            hit = (f, f.line, f)
        rep.instance(rid)
        rep.oblige(rid, hit is None, {'function': f.name, 'advances_traversal_id': bool(hit)})
        if hit:
            rep.violation(rid, hit[2], hit[1], 'tid-bump:%s' % f.name,
                          '%s reaches %s, which advances the 8-bit traversal id: only the walker and (re)initialisation may do that - '
                          'after 256 such calls the id equals the stamps left by the last completed walk and a continued walk '
                          'takes every node for visited' % (f.name, hit[0].name))


def rule_t8(prog, rep, rid='T8', units=None, any_size=False):
    """A value copy may legitimately be NULL (empty value): a NULL copy counts as an allocation failure only together with a
    non-empty source."""
    rep.rule(rid, 'a NULL value copy is treated as an allocation failure only when the source value is non-empty')
    fs = []
    for u in (units or [UNIT]):
        prog.unit(u)
        fs += list(prog.funcs_in(u))
    for f in sorted(fs, key=lambda x: (x.relfile, x.line or 0)):
        if f.body is None:
            continue
        copies = {}
        for x in walk(f.body):
            if x.get('kind') == 'BinaryOperator' and x.get('opcode') == '=':
                r = strip(children(x)[1])
                if r.get('kind') == 'CallExpr' and prog.callee_name(r) == 'qmemdup':
                    a = children(r)[1:]
                    if len(a) >= 2 and (any_size or canon(a[1]).endswith('datasize')):
                        copies[canon(children(x)[0])] = (canon(a[0]), canon(a[1]))
            elif x.get('kind') == 'VarDecl':
                from .expr import var_init
                init = var_init(x)
                if init is not None and strip(init).get('kind') == 'CallExpr' and prog.callee_name(strip(init)) == 'qmemdup':
                    a = children(strip(init))[1:]
                    if len(a) >= 2 and (any_size or canon(a[1]).endswith('datasize')):
                        copies[x.get('name')] = (canon(a[0]), canon(a[1]))
        for dst, (src, size) in sorted(copies.items()):
            # conditions null-testing dst whose null branch reaches `errno = ENOMEM` without testing the source
            for n in f.cfg.nodes:
                if n.kind != 'cond' or not isinstance(n.ast, dict) or n.id not in f.cfg.reachable:
                    continue
                t = cond_null_test(n.ast)
                if not t or canon_path(t[0]) != dst:
                    continue
                rep.instance(rid)
                nulllab = 'T' if t[1] else 'F'
                start = [s for (s, lab) in n.succs if lab == nulllab]
                bad = False
                seen = set()
                work = list(start)
                while work and not bad:
                    m = work.pop()
                    if m.id in seen or m is f.cfg.exit:
                        continue
                    seen.add(m.id)
                    if m.kind == 'cond' and isinstance(m.ast, dict):
                        c = canon(m.ast)
                        if size in c or src in c:
                            continue        # the source is consulted before deciding
                    if isinstance(m.ast, dict) and m.kind == 'act' and any(
                            y.get('kind') == 'BinaryOperator' and y.get('opcode') == '=' and
                            ('errno' in canon(children(y)[0])) and int_value(children(y)[1]) not in (0, None)
                            for y in walk(m.ast)):
                        bad = True
                        break
                    for (s, _l) in m.succs:
                        work.append(s)
                rep.oblige(rid, not bad, {'function': f.name, 'copy': '%s = qmemdup(%s, %s)' % (dst, src, size)})
                if bad:
                    rep.violation(rid, f, n.line, 'nullcopy:%s' % dst,
                                  '%s: `%s == NULL` alone leads to the ENOMEM failure exit, but qmemdup(%s, %s) also returns NULL for an '
                                  'empty value: entries with empty values are reported as not available' % (f.name, dst, src, size))


def canon_path(p):
    return p


def rule_fixup_bypass(prog, rep, rid='A5'):
    """In a recursive restructuring function, every path from a recursive descent to a return evaluates each of the
    fix-up conditions that follow the descent (the `if`s whose body calls a rotation / colour flip): nothing returns
    between the descent and the way-up repairs - in particular not on an error status such as a failed allocation,
    because the way down may already have split nodes."""
    res, identity = restructurers(prog)
    rep.rule(rid, 'no return between a recursive descent and the way-up fix-ups: every path from the recursive call to a '
                  'return evaluates every fix-up condition that follows it (error statuses included)')
    for f in sorted(prog.funcs_in(UNIT), key=lambda x: x.line or 0):
        if f.body is None or f.name not in res:
            continue
        cfg = f.cfg
        rec_nodes = [n for n in cfg.nodes if isinstance(n.ast, dict) and n.kind != 'macro' and any(
            x.get('kind') == 'CallExpr' and prog.callee_name(x) == f.name for x in walk(n.ast))]
        if not rec_nodes:
            continue
        # fix-up ifs: then-branch calls a restructurer (or a colour flip)
        guards = []
        for x in walk(f.body):
            if x.get('kind') == 'IfStmt':
                ch = children(x)
                if len(ch) >= 2 and any(y.get('kind') == 'CallExpr' and prog.callee_name(y) in (res | identity) and prog.callee_name(y) != f.name
                                        for y in walk(ch[1])):
                    ids = {id(y) for y in walk(ch[0])}
                    cn = [n for n in cfg.nodes if n.kind == 'cond' and isinstance(n.ast, dict) and id(n.ast) in ids]
                    if cn:
                        guards.append((x, min(cn, key=lambda n: n.id)))
        # reachability from the recursive calls
        def reach(starts, avoid=None):
            seen = set()
            work = list(starts)
            while work:
                n = work.pop()
                if n.id in seen or (avoid is not None and n.id == avoid):
                    continue
                seen.add(n.id)
                for (s, _l) in n.succs:
                    work.append(s)
            return seen
        after = reach(rec_nodes)
        post = [(x, g) for (x, g) in guards if g.id in after and not any(g.id == r.id for r in rec_nodes)]
        # only guards that come after the descent in every execution order: not those that can reach a recursive call
        post = [(x, g) for (x, g) in post if not (reach([g]) & {r.id for r in rec_nodes})]
        for (x, g) in post:
            rep.instance(rid)
            # successors of the recursive-call nodes, avoiding the guard: can the exit be reached?
            starts = [s for r in rec_nodes for (s, _l) in r.succs]
            seen = reach(starts, avoid=g.id)
            ok = cfg.exit.id not in seen
            rep.oblige(rid, ok, {'function': f.name, 'fixup_line': x.get('_line'), 'condition': canon(children(x)[0])[:60]})
            if not ok:
                # name the bypassing return
                rets = [r for r in cfg.returns() if r.id in seen]
                line = min((r.line or 0) for r in rets) if rets else x.get('_line')
                rep.violation(rid, f, line, 'bypass:%s' % x.get('_line'),
                              '%s can return at line %s after a recursive descent without evaluating the way-up fix-up at line %s (%s): '
                              'the way down may already have restructured the subtree, so the tree is left invalid on that path'
                              % (f.name, line, x.get('_line'), canon(children(x)[0])[:50]))


def rule_t10(prog, rep, rid='T10'):
    """The walker's visited mark.  A node is stamped with the traversal id (`X->tid = <id>`) only when it is delivered: from
    the stamp no failing return (`return false`, e.g. the allocation-failure exit of the copying mode) is reachable before
    the walker returns success or goes round its loop again.  A node stamped and then not delivered is skipped by the
    caller's retry and by every continuation of the same walk."""
    rep.rule(rid, 'a node is stamped as visited only on paths that deliver it: no failing return is reachable from the stamp')
    for f in sorted(prog.funcs_in(UNIT), key=lambda x: x.line or 0):
        if f.body is None:
            continue
        cfg = f.cfg
        heads = {h.id for (h, _s) in cfg.loops}
        for n in cfg.nodes:
            if n.id not in cfg.reachable or not isinstance(n.ast, dict) or n.kind == 'macro':
                continue
            for x in walk(n.ast):
                if not (x.get('kind') == 'BinaryOperator' and x.get('opcode') == '='):
                    continue
                l = strip(children(x)[0])
                if not (l.get('kind') == 'MemberExpr' and l.get('name') == 'tid' and l.get('isArrow') and (l.get('_field') or ('',))[0] == NODE):
                    continue
                b = strip(children(l)[0])
                if b.get('kind') != 'DeclRefExpr' or (b.get('_ref') or ('',))[0] != 'local':
                    continue        # the caller's cursor object (a parameter) is not a node of the tree
                rep.instance(rid)
                bad = None
                seen, work = set(), [s for (s, _l) in n.succs]
                while work and bad is None:
                    m = work.pop()
                    if m.id in seen or m.id in heads or m is cfg.exit:
                        continue
                    seen.add(m.id)
                    if m.kind == 'act' and isinstance(m.ast, dict) and m.ast.get('kind') == 'ReturnStmt' and children(m.ast) \
                            and int_value(children(m.ast)[0]) == 0:
                        bad = m
                        break
                    work += [s for (s, _l) in m.succs]
                rep.oblige(rid, bad is None, {'function': f.name, 'stamp': canon(x), 'line': x.get('_line')})
                if bad is not None:
                    rep.violation(rid, f, x.get('_line'), 'stamp:%s' % canon(l),
                                  '%s stamps a node as visited (%s, line %s) and can then still fail (return at line %s): the node is '
                                  'never delivered - the caller\'s retry and every continuation of the walk skip that key'
                                  % (f.name, canon(x), x.get('_line'), bad.line))


def rule_t11(prog, rep, rid='T11'):
    """Wrap of the traversal id.  Visited marks are compared for equality with the table's traversal id; new nodes carry the
    mark 0 and marks of abandoned walks stay in the nodes.  With an id narrower than 32 bits the id comes round again after
    2^width walk starts, so the function that advances it must detect the wrap (a test of the id against 0 after the
    increment) and, on the wrap, clear the marks of every node (a call of a function that writes the mark field and visits
    both subtrees) before the id is used; the id in use is then never 0."""
    rep.rule(rid, 'the function that advances a traversal id narrower than 32 bits detects the wrap and clears every node\'s mark before '
                  'the id is used again (marks of earlier walks and the zero mark of new nodes must not equal a live id)')
    prog.unit(UNIT)
    funcs = [f for f in prog.funcs_in(UNIT) if f.body is not None]

    def is_bump(y):
        return y.get('kind') == 'UnaryOperator' and y.get('opcode') == '++' and canon(children(y)[0]).endswith('->tid') and \
            (strip(children(y)[0]).get('_field') or ('',))[0] != NODE
    # purgers: functions that assign the node mark and reach both children (recursion or loop), transitively
    def writes_mark(g):
        return any(y.get('kind') == 'BinaryOperator' and y.get('opcode') == '=' and strip(children(y)[0]).get('kind') == 'MemberExpr'
                   and strip(children(y)[0]).get('name') == 'tid' and (strip(children(y)[0]).get('_field') or ('',))[0] == NODE
                   and strip(children(y)[0]).get('isArrow') and int_value(children(y)[1]) == 0
                   for y in walk(g.body))
    purgers = set()
    for g in funcs:
        if writes_mark(g):
            fields = {x.get('name') for x in walk(g.body) if x.get('kind') == 'MemberExpr' and (x.get('_field') or ('',))[0] == NODE}
            if {'left', 'right'} <= fields and _purges_every_node(prog, g):
                purgers.add(g.name)
    rep.notes['mark_purging_functions'] = sorted(purgers)
    for f in sorted(funcs, key=lambda x: x.line or 0):
        cfg = f.cfg
        bumps = [n for n in cfg.nodes if n.id in cfg.reachable and isinstance(n.ast, dict) and n.kind != 'macro' and any(is_bump(y) for y in walk(n.ast))]
        for n in bumps:
            rep.instance(rid)
            fld = [strip(children(y)[0]) for y in walk(n.ast) if is_bump(y)][0]
            t = (qtype(fld) or '') + ' ' + (dtype(fld) or '')
            width = 8 if ('uint8_t' in t or 'unsigned char' in t) else (16 if ('uint16_t' in t or 'unsigned short' in t) else 32)
            if width >= 32:
                rep.oblige(rid, True, {'function': f.name, 'id_width': width})
                continue
            # wrap test: a condition comparing the id with 0 in the bump node itself or after it; on the wrap edge a purger is called
            ok, why = False, 'no test of the id against 0 follows the increment'
            cands = [n] + [m for m in cfg.nodes if m.id in cfg.reachable and m.kind == 'cond']
            for m in cands:
                if m.kind != 'cond' or not isinstance(m.ast, dict):
                    continue
                c = strip_parens(m.ast)
                if c.get('kind') != 'BinaryOperator' or c.get('opcode') not in ('==', '!='):
                    continue
                a, b = children(c)
                if not ((canon(a).endswith('->tid') or '->tid' in canon(a)) and int_value(b) == 0 or
                        (canon(b).endswith('->tid') or '->tid' in canon(b)) and int_value(a) == 0):
                    continue
                if m is not n and not _reach_node(cfg, n, m):
                    continue
                wraplab = 'T' if c['opcode'] == '==' else 'F'
                starts = [s for (s, lab) in m.succs if lab == wraplab]
                # every path from the wrap edge to the exit passes a purger call
                def purges(k):
                    return isinstance(k.ast, dict) and k.kind != 'macro' and any(
                        y.get('kind') == 'CallExpr' and prog.callee_name(y) in purgers for y in walk(k.ast))
                seen, work, leak = set(), list(starts), False
                while work and not leak:
                    k = work.pop()
                    if k.id in seen or purges(k):
                        continue
                    seen.add(k.id)
                    if k is cfg.exit:
                        leak = True
                        break
                    work += [s for (s, _l) in k.succs]
                if leak:
                    why = 'the wrap is detected (line %s) but a path from there returns without clearing the marks of all nodes' % m.line
                else:
                    ok = True
                    break
            rep.oblige(rid, ok, {'function': f.name, 'id_width': width})
            if not ok:
                rep.violation(rid, f, n.line, 'wrap:%s' % canon(fld),
                              '%s advances the %d-bit traversal id %s, but %s: after %d walk starts the id equals marks left in the nodes '
                              '(new nodes carry 0, abandoned walks leave theirs) and those nodes are skipped by the walk'
                              % (f.name, width, canon(fld), why, 2 ** width))


def rule_t11_reserved(prog, rep, rid='T11'):
    """0 is the mark of a node that no walk has visited (new nodes are zero-initialised, the purge writes 0): the table's own
    traversal id must never be 0 while it can be handed out.  No function other than the constructor assigns the constant 0 to it."""
    prog.unit(UNIT)
    for f in sorted(prog.funcs_in(UNIT), key=lambda x: x.line or 0):
        if f.body is None:
            continue
        if f.unit.resolve_typedef(f.rettype)[0] == 'qtreetbl_s':
            continue                      # the constructor: the object is built from zeroes anyway
        for y in walk(f.body):
            if y.get('kind') == 'BinaryOperator' and y.get('opcode') == '=' and int_value(children(y)[1]) == 0:
                l = strip(children(y)[0])
                if l.get('kind') == 'MemberExpr' and l.get('name') == 'tid' and l.get('isArrow') and (l.get('_field') or ('',))[0] != NODE \
                        and 'qtreetbl_s' in str((l.get('_field') or ('',))[0]):
                    rep.instance(rid)
                    rep.oblige(rid, False, {'function': f.name, 'line': y.get('_line')})
                    rep.violation(rid, f, y.get('_line'), 'reserved-id',
                                  '%s sets the table\'s traversal id to 0, the mark every node carries that no walk has visited yet: a search '
                                  'cursor stamped with it makes the continued walk take every node for visited' % f.name)


def _purges_every_node(prog, g):
    """For every node the purger visits it clears the mark and goes on into BOTH subtrees - by a recursive call with the child
    or by stepping its node variable to the child inside a loop - on every path; the only way out without that is the
    NULL test of the node variable (no "already unmarked, skip the subtree" short-cut)."""
    cfg = g.cfg
    pn = g.params[0].get('name') if g.params else None
    if pn is None:
        return False
    ALLF = frozenset(('mark', 'left', 'right'))

    def events(m):
        out = []
        if not isinstance(m.ast, dict) or m.kind == 'macro':
            return out
        for ev in node_events(m):
            if ev[0] == 'assign':
                l = strip(ev[1])
                if l.get('kind') == 'MemberExpr' and l.get('name') == 'tid' and access_path(children(l)[0]) == pn and int_value(ev[2]) == 0:
                    out.append(('mark', None))
                elif access_path(ev[1]) == pn:
                    r = canon(ev[2])
                    for c in ('left', 'right'):
                        if r == '%s->%s' % (pn, c):
                            out.append(('step', c))
                            break
                    else:
                        out.append(('other', None))
            elif ev[0] == 'call' and prog.callee_name(ev[1]) == g.name:
                for a in children(ev[1])[1:]:
                    for c in ('left', 'right'):
                        if canon(a) == '%s->%s' % (pn, c):
                            out.append(('rec', c))
        return out
    seen, work = set(), [(cfg.entry, frozenset())]
    while work:
        m, done = work.pop()
        if (m.id, done) in seen:
            continue
        seen.add((m.id, done))
        d2 = set(done)
        for (k, c) in events(m):
            if k == 'mark':
                d2.add('mark')
            elif k == 'rec':
                d2.add(c)
            elif k == 'step':
                if not (ALLF - {c}) <= d2:
                    return False                 # moves on to a child before this node was cleared / the other child handled
                d2 = set()
            elif k == 'other':
                return False
        d2 = frozenset(d2)
        for (s2, lab) in m.succs:
            if m.kind == 'cond' and isinstance(m.ast, dict):
                t = cond_null_test(m.ast)
                if t and t[0] == pn and ((lab == 'T') == t[1]):
                    if d2 - {'live'}:
                        return False
                    continue                      # node pointer NULL: nothing to purge here
                if t and t[0] == pn:
                    work.append((s2, d2 | {'live'}))      # a node is in hand from here on
                    continue
            if s2 is cfg.exit:
                if d2 and not ALLF <= d2:
                    return False
                continue
            work.append((s2, d2))
    # the function must contain the three ingredients at all
    allev = {(k, c) for m in cfg.nodes for (k, c) in events(m)}
    return ('mark', None) in allev and all(('rec', c) in allev or ('step', c) in allev for c in ('left', 'right'))


def _reach_node(cfg, a, b):
    seen, work = set(), [s for (s, _l) in a.succs]
    while work:
        m = work.pop()
        if m is b:
            return True
        if m.id in seen:
            continue
        seen.add(m.id)
        work += [s for (s, _l) in m.succs]
    return False


def rule_t13(prog, rep, rid='T13', unit=None, node=None, primary=('root',)):
    """A remembered node (a node-pointer field of the table record other than the root, assigned by a function that neither
    frees nodes nor moves payloads - a lookup remembering what it found) is derived state.  Freeing a node, calling a
    function that may free nodes, or moving a key from one node to another invalidates it: on every path after such an
    event the field must be reset (NULL) or re-established before the function returns - unless the freed node is known
    not to be the remembered one (the F edge of `field == node`)."""
    rep.rule(rid, 'a remembered node of the tree table is reset or re-established after every event that frees a node or moves a key between '
                  'nodes (unless the freed node is known to be a different one)')
    UNIT_ = unit or UNIT
    NODE_ = node or NODE
    prog.unit(UNIT_)
    funcs = [f for f in prog.funcs_in(UNIT_) if f.body is not None]
    u = prog.unit(UNIT_)

    def node_typed(e):
        t = (qtype(strip(e)) or '')
        if not t.rstrip().endswith('*') or t.count('*') != 1:
            return False                 # a node pointer, not an array of them
        return u.resolve_typedef(t.replace('*', '').replace('const', '').replace('struct', '').strip())[0] == NODE_
    # functions that may free a node
    def fresh_locals(f):
        """locals that hold a node allocated in this very function (never visible to a lookup yet)"""
        out = set()
        for y in walk(f.body):
            init = None
            nm = None
            if y.get('kind') == 'VarDecl' and var_init(y) is not None:
                init, nm = strip(var_init(y)), y.get('name')
            elif y.get('kind') == 'BinaryOperator' and y.get('opcode') == '=' and strip(children(y)[0]).get('kind') == 'DeclRefExpr':
                init, nm = strip(children(y)[1]), canon(children(y)[0])
            if init is not None and init.get('kind') == 'CallExpr' and prog.callee_name(init) in ('malloc', 'calloc'):
                out.add(nm)
        return out

    def frees_old_node(f, y):
        return y.get('kind') == 'CallExpr' and prog.callee_name(y) == 'free' and len(children(y)) > 1 and node_typed(children(y)[1]) \
            and access_path(children(y)[1]) not in fresh_locals(f)
    freers = set()
    for f in funcs:
        if any(frees_old_node(f, y) for y in walk(f.body)):
            freers.add(f.name)
    changed = True
    while changed:
        changed = False
        for f in funcs:
            if f.name not in freers and any(y.get('kind') == 'CallExpr' and prog.callee_name(y) in freers for y in walk(f.body)):
                freers.add(f.name)
                changed = True

    def moves_key(y):
        if y.get('kind') == 'BinaryOperator' and y.get('opcode') == '=':
            l, r = strip(children(y)[0]), strip(children(y)[1])
            return l.get('kind') == 'MemberExpr' and l.get('name') == 'name' and (l.get('_field') or ('',))[0] == NODE_ and \
                r.get('kind') == 'MemberExpr' and r.get('name') == 'name'
        return False
    # cache fields
    assigned = {}
    for f in funcs:
        for y in walk(f.body):
            if y.get('kind') == 'BinaryOperator' and y.get('opcode') == '=':
                l = strip(children(y)[0])
                if l.get('kind') == 'MemberExpr' and l.get('_field') and l['_field'][0] != NODE_ and l.get('name') not in primary \
                        and node_typed(l) and not is_null(children(y)[1]):
                    assigned.setdefault((l['_field'][0], l.get('name')), set()).add(f.name)
    mutators = {f.name for f in funcs if f.name in freers or any(moves_key(y) for y in walk(f.body))}
    caches = {k for k, fs in assigned.items() if fs - mutators}
    rep.notes['remembered_node_fields'] = sorted('%s.%s' % k for k in caches)
    for (rec, fld) in sorted(caches):
        def is_field(e):
            e = strip(e)
            return e.get('kind') == 'MemberExpr' and e.get('name') == fld and (e.get('_field') or ('',))[0] == rec

        def _destroys(f):
            for y in walk(f.body):
                if y.get('kind') == 'CallExpr' and prog.callee_name(y) == 'free' and len(children(y)) > 1:
                    a_ = strip(children(y)[1])
                    if a_.get('kind') == 'DeclRefExpr' and (a_.get('_ref') or ('',))[0] == 'param':
                        t_ = (qtype(a_) or '')
                        if u.resolve_typedef(t_.replace('*', '').replace('const', '').replace('struct', '').strip())[0] == rec:
                            return True
            return False
        destroyers = {f.name for f in funcs if _destroys(f)}

        def analyse(f, dirty):
            """does f return with the remembered node possibly stale?  -> (bool, line of the first invalidating event)"""
            cfg = f.cfg
            IN = {cfg.entry.id: frozenset([('st', 'V')])}
            work = [cfg.entry]
            first = {}
            while work:
                m = work.pop()
                st = set(IN[m.id])
                if isinstance(m.ast, dict) and m.kind != 'macro':
                    for ev in node_events(m):
                        if ev[0] == 'assign' and is_field(ev[1]):
                            st = {x for x in st if x[0] != 'st'} | {('st', 'I' if is_null(ev[2]) else 'V')}
                        elif ev[0] == 'assign' and moves_key(ev[3]) and f.name in freers:
                            if ('st', 'V') in st:
                                st.discard(('st', 'V'))
                                st.add(('st', 'S'))
                                first.setdefault('line', m.line)
                        elif ev[0] == 'call':
                            nm = prog.callee_name(ev[1])
                            inval = False
                            if nm in destroyers:
                                st = {x for x in st if x[0] != 'st'} | {('st', 'I')}       # the table itself is gone
                                continue
                            if frees_old_node(f, ev[1]):
                                inval = ('ne', access_path(children(ev[1])[1])) not in st
                            elif nm in dirty:
                                inval = True
                            if inval and ('st', 'V') in st:
                                st.discard(('st', 'V'))
                                st.add(('st', 'S'))
                                first.setdefault('line', m.line)
                st = frozenset(st)
                for (s2, lab) in m.succs:
                    st2 = st
                    if m.kind == 'cond' and isinstance(m.ast, dict) and lab in ('T', 'F'):
                        c = strip_parens(m.ast)
                        if c.get('kind') == 'BinaryOperator' and c.get('opcode') in ('==', '!='):
                            a, b = children(c)
                            for (x1, x2) in ((a, b), (b, a)):
                                if is_field(x1) and access_path(x2):
                                    if (lab == 'F') == (c['opcode'] == '=='):
                                        st2 = st | {('ne', access_path(x2))}
                    old_ = IN.get(s2.id)
                    if old_ is None:
                        IN[s2.id] = st2
                        work.append(s2)
                    elif not st2 <= old_:
                        IN[s2.id] = old_ | st2
                        work.append(s2)
            return ('st', 'S') in IN.get(cfg.exit.id, frozenset()), first.get('line')
        # which functions can return with a stale remembered node (optimistic fixpoint over the call graph)
        dirty, lines = set(), {}
        changed = True
        while changed:
            changed = False
            for f in funcs:
                if f.name in dirty:
                    continue
                bad, line = analyse(f, dirty)
                if bad:
                    dirty.add(f.name)
                    lines[f.name] = line
                    changed = True
        def destroys_container(f):
            # free(<parameter of the container type>): the table itself goes away, nothing can be looked up afterwards
            for y in walk(f.body):
                if y.get('kind') == 'CallExpr' and prog.callee_name(y) == 'free' and len(children(y)) > 1:
                    a_ = strip(children(y)[1])
                    if a_.get('kind') == 'DeclRefExpr' and (a_.get('_ref') or ('',))[0] == 'param':
                        t_ = (qtype(a_) or '')
                        if u.resolve_typedef(t_.replace('*', '').replace('const', '').replace('struct', '').strip())[0] == rec:
                            return True
            return False
        for f in sorted(funcs, key=lambda x: x.line or 0):
            if destroys_container(f):
                continue
            if f.static or f.name not in mutators and f.name not in dirty and not any(
                    y.get('kind') == 'CallExpr' and prog.callee_name(y) in (freers | dirty) for y in walk(f.body)):
                continue
            rep.instance(rid)
            bad = f.name in dirty
            rep.oblige(rid, not bad, {'function': f.name, 'remembered_node': '%s.%s' % (rec, fld)})
            if bad:
                # name the static worker where the stale state arises, if any
                inner = [g for g in funcs if g.static and g.name in dirty and any(
                    y.get('kind') == 'CallExpr' and prog.callee_name(y) == g.name for y in walk(f.body))]
                where = inner[0] if inner else f
                rep.violation(rid, where, lines.get(where.name) or where.line, 'stale:%s' % fld,
                              '%s (reached from %s) frees a node or moves a key between nodes (line %s) and the operation returns with the '
                              'remembered node %s.%s neither reset nor re-established: the next lookup compares against freed memory or a '
                              'node that now holds another key' % (where.name, f.name, lines.get(where.name), rec, fld))


# --------------------------------------------------------------------------------------
# T14 / T15 (added after seeded changes C04-14 and C04-15 were missed)

_FULL_INT = ('int', 'long', 'long long', 'ssize_t', 'int32_t', 'int64_t', 'ptrdiff_t', 'intptr_t', 'signed int', 'signed long')


def rule_t15(prog, rep, rid='T15'):
    """The comparator returns an int of any magnitude (memcmp-style differences, user `a - b` orderings).  Whatever holds
    its result - the variable it initialises or is assigned to, every variable that value is copied into, and the return type
    of a wrapper - must be a signed type at least as wide as int: a narrower or unsigned holder changes the sign of large
    results, and the search then goes to the wrong side only for keys that differ by a large byte."""
    rep.rule(rid, 'the comparator\'s result is held at full width: every variable (or wrapper return type) that receives it, directly or '
                  'by copy, is a signed integer at least as wide as int')
    wr = comparator_wrappers(prog)

    def full(t):
        t = (t or '').replace('const ', '').replace('volatile ', '').strip()
        return t in _FULL_INT

    for f in sorted(prog.funcs_in(UNIT), key=lambda x: x.line or 0):
        if f.body is None:
            continue
        calls = comparator_calls(prog, f)
        if not calls:
            continue
        call_ids = {id(c) for (c, _a) in calls}
        holders = {}           # name -> (decl type, line, how)

        def is_cmp_value(e):
            s = strip(e)
            if id(s) in call_ids:
                return 'the comparator call'
            if s.get('kind') == 'DeclRefExpr' and canon(s) in holders:
                return 'a copy of %s' % canon(s)
            if s.get('kind') == 'ConditionalOperator':
                return is_cmp_value(children(s)[1]) or is_cmp_value(children(s)[2])
            if s.get('kind') == 'UnaryOperator' and s.get('opcode') == '-':
                return is_cmp_value(children(s)[0])
            return None
        changed = True
        rounds = 0
        while changed and rounds < 6:
            changed = False
            rounds += 1
            for x in walk(f.body):
                nm = t = rhs = None
                if x.get('kind') == 'VarDecl' and var_init(x) is not None:
                    nm, t, rhs = x.get('name'), qtype(x), var_init(x)
                elif x.get('kind') == 'BinaryOperator' and x.get('opcode') == '=':
                    l = strip(children(x)[0])
                    if l.get('kind') in ('DeclRefExpr', 'MemberExpr'):
                        nm, t, rhs = canon(l), qtype(l), children(x)[1]
                if nm is None or nm in holders:
                    continue
                how = is_cmp_value(rhs)
                if how:
                    holders[nm] = (t, x.get('_line'), how)
                    changed = True
        for nm, (t, line, how) in sorted(holders.items(), key=lambda kv: kv[1][1] or 0):
            rep.instance(rid)
            ok = full(t)
            rep.oblige(rid, ok, {'function': f.name, 'holder': nm, 'type': t, 'receives': how})
            if not ok:
                rep.violation(rid, f, line, 'narrow:%s' % nm,
                              '%s (%s) receives %s: the comparator returns a full int (byte differences, user orderings), and a result of '
                              'magnitude >= 2^(width-1) changes sign when stored there - the search then takes the wrong side for keys that '
                              'differ by a large byte only' % (nm, t, how))
        if f.name in wr:
            rep.instance(rid)
            ok = full(f.rettype)
            rep.oblige(rid, ok, {'function': f.name, 'wrapper_return_type': f.rettype})
            if not ok:
                rep.violation(rid, f, f.line, 'narrow-return', 'comparator wrapper %s returns %s: the sign of large results is lost' % (f.name, f.rettype))


def rule_t14(prog, rep, rid='T14'):
    """A function that records parent links while it descends, or climbs them, hands out / uses a position whose chain of
    parent links up to the root must have been written in this very call.  That is only the case when the position was
    reached by child steps from the table's root field.  A node pointer loaded from any other field of the table record
    (a remembered match, a cached minimum) is a position the descent did not pass through: the links above it are whatever
    earlier calls and rotations left."""
    rep.rule(rid, 'in the functions that record or climb parent links, node positions are seeded from the root field only - no node pointer '
                  'is loaded from another field of the table record (its parent-link chain was not written in this call)')
    u = prog.unit(UNIT)

    def node_typed(e):
        t = (qtype(strip(e)) or '')
        if not t.rstrip().endswith('*') or t.count('*') != 1:
            return False
        return u.resolve_typedef(t.replace('*', '').replace('const', '').replace('struct', '').strip())[0] == NODE
    for f in sorted(prog.funcs_in(UNIT), key=lambda x: x.line or 0):
        if f.body is None:
            continue
        links = False
        for x in walk(f.body):
            if x.get('kind') == 'BinaryOperator' and x.get('opcode') == '=':
                l = canon(children(x)[0])
                r = access_path(children(x)[1])
                if r and (l == '%s->left->next' % r or l == '%s->right->next' % r):
                    links = True
                if r and l and r == '%s->next' % l:
                    links = True
        if not links:
            continue
        rep.instance(rid)
        bad = None
        par = _parents(f.body)
        for x in walk(f.body):
            if x.get('kind') == 'MemberExpr' and x.get('_field') and x['_field'][0] != NODE and x.get('name') != 'root' and node_typed(x):
                p = par.get(id(x))
                while p is not None and p.get('kind') in ('ImplicitCastExpr', 'ParenExpr', 'CStyleCastExpr'):
                    p = par.get(id(p))
                # a store to the field (remembering) is fine; loading it is the shortcut
                if p is not None and p.get('kind') == 'BinaryOperator' and p.get('opcode') == '=' and strip(children(p)[0]) is x:
                    continue
                bad = x
                break
        rep.oblige(rid, bad is None, {'function': f.name})
        if bad is not None:
            rep.violation(rid, f, bad.get('_line'), 'seed:%s' % bad.get('name'),
                          '%s takes a node position from %s instead of descending from the root: the parent links above that node were not '
                          'written in this call (rotations since the field was set have changed the path), so the climb / the continued '
                          'getnext walk follows stale links' % (f.name, canon(bad)))
