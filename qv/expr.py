"""Small expression utilities shared by the rules (none executes code)."""
from .frontend import strip, strip_parens, children, walk, qtype, dtype

COMMUTATIVE = ('+', '*', '&', '|', '^', '==', '!=')


def canon(e):
    """Canonical rendering of an expression modulo parentheses, casts and commutativity."""
    e = strip(e)
    k = e.get('kind')
    if k == 'DeclRefExpr':
        r = e.get('_ref')
        return r[2] if r and len(r) > 2 else (r[1] if r else '?')
    if k == 'MemberExpr':
        return canon(children(e)[0]) + ('->' if e.get('isArrow') else '.') + e.get('name', '?')
    if k == 'IntegerLiteral':
        return str(e.get('value'))
    if k == 'CharacterLiteral':
        return "'%s'" % e.get('value')
    if k == 'StringLiteral':
        return e.get('value', '""')
    if k == 'FloatingLiteral':
        return str(e.get('value'))
    if k == 'UnaryOperator':
        op = e.get('opcode')
        s = canon(children(e)[0])
        if e.get('isPostfix'):
            return '(%s%s)' % (s, op)
        return '(%s%s)' % (op, s)
    if k in ('BinaryOperator', 'CompoundAssignOperator'):
        a, b = [canon(c) for c in children(e)]
        op = e.get('opcode')
        if op in COMMUTATIVE and b < a:
            a, b = b, a
        return '(%s %s %s)' % (a, op, b)
    if k == 'ArraySubscriptExpr':
        a, b = [canon(c) for c in children(e)]
        return '%s[%s]' % (a, b)
    if k == 'CallExpr':
        ch = children(e)
        return '%s(%s)' % (canon(ch[0]), ', '.join(canon(c) for c in ch[1:]))
    if k == 'ConditionalOperator':
        a, b, c = [canon(x) for x in children(e)]
        return '(%s ? %s : %s)' % (a, b, c)
    if k == 'UnaryExprOrTypeTraitExpr':
        ch = children(e)
        if ch:
            return '%s(%s)' % (e.get('name', 'sizeof'), canon(ch[0]))
        return '%s(%s)' % (e.get('name', 'sizeof'), (e.get('argType') or {}).get('qualType', '?'))
    if k == 'InitListExpr':
        return '{%s}' % ', '.join(canon(c) for c in children(e))
    return '<%s>' % k


def access_path(e):
    """'v->data' style path for DeclRef/Member chains; None for anything else."""
    e = strip(e)
    k = e.get('kind')
    if k == 'DeclRefExpr':
        r = e.get('_ref')
        if r and r[0] in ('param', 'local', 'global'):
            return r[2]
        return None
    if k == 'MemberExpr':
        b = access_path(children(e)[0])
        if b is None:
            return None
        return b + ('->' if e.get('isArrow') else '.') + e.get('name', '?')
    return None


def root_var(e):
    """The DeclRefExpr `_ref` at the root of a member/subscript/deref/arith chain, or None."""
    e = strip(e)
    while True:
        k = e.get('kind')
        if k == 'DeclRefExpr':
            return e.get('_ref')
        if k in ('MemberExpr', 'ArraySubscriptExpr'):
            e = strip(children(e)[0])
        elif k == 'UnaryOperator' and e.get('opcode') in ('*', '&', '++', '--'):
            e = strip(children(e)[0])
        elif k == 'BinaryOperator' and e.get('opcode') in ('+', '-'):
            e = strip(children(e)[0])
        else:
            return None


def is_null(e):
    e = strip(e)
    if e.get('kind') == 'IntegerLiteral' and e.get('value') == '0':
        return True
    return False


def int_value(e):
    """Constant integer value of an expression, or None."""
    e = strip(e)
    k = e.get('kind')
    if k == 'IntegerLiteral':
        try:
            return int(e.get('value'))
        except (TypeError, ValueError):
            return None
    if k == 'CharacterLiteral':
        return e.get('value')
    if k == 'UnaryOperator':
        v = int_value(children(e)[0])
        if v is None:
            return None
        op = e.get('opcode')
        if op == '-':
            return -v
        if op == '+':
            return v
        if op == '~':
            return ~v
        if op == '!':
            return int(not v)
        return None
    if k == 'BinaryOperator':
        a, b = [int_value(c) for c in children(e)]
        if a is None or b is None:
            return None
        op = e.get('opcode')
        try:
            return {'+': a + b, '-': a - b, '*': a * b, '<<': a << b, '>>': a >> b,
                    '&': a & b, '|': a | b, '^': a ^ b,
                    '/': (a // b if b else None), '%': (a % b if b else None)}.get(op)
        except (ValueError, OverflowError):
            return None
    if k == 'ConstantExpr' and 'value' in e:
        try:
            return int(e['value'])
        except (TypeError, ValueError):
            return None
    return None


def calls(e):
    return [n for n in walk(e) if n.get('kind') == 'CallExpr']


def assignments(e):
    """All simple assignments (lhs, rhs, node) inside e; VarDecl-with-init counts as one."""
    out = []
    if e.get('kind') == 'VarDecl':
        init = var_init(e)
        if init is not None:
            out.append((e, init, e))
    for n in walk(e):
        if n.get('kind') == 'BinaryOperator' and n.get('opcode') == '=':
            ch = children(n)
            out.append((ch[0], ch[1], n))
    return out


def var_init(d):
    ch = [c for c in children(d) if c.get('kind') not in ('FullComment',) and not c.get('kind', '').endswith('Attr')]
    return ch[-1] if ch else None


def is_ptr_type(t):
    return t.rstrip().endswith('*')


def array_len(t):
    """'char [16]' -> 16 ; None if not an array type."""
    import re
    m = re.search(r'\[(\d+)\]\s*$', t)
    return int(m.group(1)) if m else None


def eval_int(e, env):
    """Evaluate an integer expression AST with variables bound in env (name -> int); C semantics
    for / and % on non-negative values.  Returns None when something is not evaluable."""
    e = strip(e)
    k = e.get('kind')
    v = int_value(e)
    if v is not None and not isinstance(v, str):
        return v
    if k == 'DeclRefExpr':
        r = e.get('_ref') or ('',)
        nm = r[2] if len(r) > 2 else (r[1] if len(r) > 1 else None)
        return env.get(nm)
    if k == 'UnaryOperator':
        a = eval_int(children(e)[0], env)
        if a is None:
            return None
        op = e.get('opcode')
        return {'-': -a, '+': a, '~': ~a, '!': int(not a)}.get(op)
    if k == 'BinaryOperator':
        op = e.get('opcode')
        a = eval_int(children(e)[0], env)
        if op == '&&':
            if a is None:
                return None
            if not a:
                return 0
            b = eval_int(children(e)[1], env)
            return None if b is None else int(bool(b))
        if op == '||':
            if a is None:
                return None
            if a:
                return 1
            b = eval_int(children(e)[1], env)
            return None if b is None else int(bool(b))
        b = eval_int(children(e)[1], env)
        if a is None or b is None:
            return None
        try:
            if op == '/':
                return int(a / b) if b else None
            if op == '%':
                return a - b * int(a / b) if b else None
            return {'+': a + b, '-': a - b, '*': a * b, '<<': a << b, '>>': a >> b, '&': a & b, '|': a | b,
                    '^': a ^ b, '==': int(a == b), '!=': int(a != b), '<': int(a < b), '>': int(a > b),
                    '<=': int(a <= b), '>=': int(a >= b)}.get(op)
        except (ValueError, OverflowError):
            return None
    if k == 'ConditionalOperator':
        c = eval_int(children(e)[0], env)
        if c is None:
            return None
        return eval_int(children(e)[1 if c else 2], env)
    if k == 'UnaryExprOrTypeTraitExpr':
        t = (e.get('argType') or {}).get('qualType') or (qtype(children(e)[0]) if children(e) else '')
        return {'char': 1, 'unsigned char': 1, 'int': 4, 'unsigned int': 4, 'uint32_t': 4, 'uint64_t': 8,
                'size_t': 8, 'long': 8}.get(t)
    return None
