"""Engine G: constant tables and literal sets (C16; also used by C20/C18)."""
from .frontend import walk, children, strip, strip_parens, qtype, dtype
from .expr import canon, int_value, access_path, var_init
from .dataflow import poly_of, Poly

ENC_UNIT = 'src/utilities/qencode.c'

RFC4648 = 'ABCDEFGHIJKLMNOPQRSTUVWXYZabcdefghijklmnopqrstuvwxyz0123456789+/'
URL_FORBIDDEN = set(b' %+&=?#"<>')
URL_ALLOWED_PUNCT = set(b"-._~:/@\\")


def local_tables(f):
    """Constant arrays with initialiser lists declared in function f: name -> (VarDecl, [int values])."""
    out = {}
    for n in walk(f.body):
        if n.get('kind') == 'VarDecl' and '[' in qtype(n):
            init = var_init(n)
            if init is None or strip(init).get('kind') != 'InitListExpr':
                continue
            il = strip(init)
            vals = []
            ok = True
            for c in children(il):
                v = int_value(c)
                if v is None or isinstance(v, str):
                    ok = False
                    break
                vals.append(v)
            from .expr import array_len
            ln = array_len(qtype(n))
            if ok and ln is not None:
                # implicit zero fill of a short initialiser
                vals = vals + [0] * (ln - len(vals))
                out[n.get('name')] = (n, vals)
    return out


def table_subscripts(f, name):
    """ArraySubscriptExpr nodes indexing the local table `name`."""
    out = []
    for n in walk(f.body):
        if n.get('kind') == 'ArraySubscriptExpr':
            b = strip(children(n)[0])
            if b.get('kind') == 'DeclRefExpr' and (b.get('_ref') or ('', '', ''))[2:3] == (name,):
                out.append(n)
    return out


def _find_table(tables, length, pred=None):
    c = [(k, v) for k, v in tables.items() if len(v[1]) == length and (pred is None or pred(v[1]))]
    return c[0] if len(c) == 1 else None


def _index_is_unsigned_byte(sub):
    """index expression (before integer promotion) has type unsigned char / uint8_t"""
    idx = children(sub)[1]
    e = idx
    while e.get('kind') in ('ImplicitCastExpr', 'ParenExpr') and e.get('inner'):
        e = e['inner'][0]
    t = dtype(e) if e.get('type') else ''
    q = qtype(e)
    return 'unsigned char' in t or 'unsigned char' in q or 'uint8_t' in q


def rule_c16(prog, rep):
    prog.unit(ENC_UNIT)
    rep.rule('TB1', 'URL table: tbl[c] in {0, c}; literally emitted bytes are URL-safe ASCII and exclude space, controls, '
                    'bytes >= 0x80 and % + & = ? # " < >; every other byte is emitted as %hh')
    rep.rule('TB2', 'Base64 writer table is the RFC 4648 alphabet in order')
    rep.rule('TB3', 'Base64 reader table inverts the writer table; every other entry is the skip marker')
    rep.rule('TB4', 'hex writer table is 0123456789abcdef; hex reader table inverts it and accepts A-F')
    rep.rule('TB5', 'Base64 padding: both tail characters are conditional expressions with a literal \'=\' arm; output '
                    'allocation is 4*ceil(n/3)+1')
    rep.rule('TB6', 'every 256-entry table is indexed by an unsigned byte (no negative index for bytes >= 0x80)')
    rep.rule('TB7', 'URL decoder maps \'+\' to space and consumes %hh through the hex-pair helper, which folds case')

    f_ue = prog.need_func('qurl_encode')
    f_ud = prog.need_func('qurl_decode')
    f_be = prog.need_func('qbase64_encode')
    f_bd = prog.need_func('qbase64_decode')
    f_he = prog.need_func('qhex_encode')
    f_hd = prog.need_func('qhex_decode')

    # ---- TB1
    t = _find_table(local_tables(f_ue), 256)
    rep.broken_if(t is None, 'qurl_encode: the 256-entry classification table was not found')
    if t:
        name, (decl, vals) = t
        bad = []
        for c in range(256):
            rep.instance('TB1')
            v = vals[c] & 0xFF
            ok = v in (0, c)
            if ok and v != 0:
                ch = c
                is_alnum = (48 <= ch <= 57) or (65 <= ch <= 90) or (97 <= ch <= 122)
                ok = (is_alnum or ch in URL_ALLOWED_PUNCT) and ch not in URL_FORBIDDEN and 0x20 < ch < 0x7F
            rep.oblige('TB1', ok, {'table': name, 'index': c, 'value': v} if c in (0x20, 0x25, 0x41) else None)
            if not ok:
                bad.append(c)
        for c in bad[:4]:
            rep.violation('TB1', f_ue, decl.get('_line'), '%s[0x%02x]' % (name, c),
                          '%s[0x%02x] = %r: byte 0x%02x would be emitted literally but is not URL-safe (or the entry is '
                          'not the byte itself)' % (name, c, vals[c], c))
        # alphanumerics must stay literal? (round trip does not need it) - not required.
        # every other byte as %hh: the function stores a literal '%'
        pct = [x for x in walk(f_ue.body) if x.get('kind') == 'CharacterLiteral' and x.get('value') == 37]
        rep.instance('TB1')
        rep.oblige('TB1', bool(pct), {'percent_literal_stores': len(pct)})
        if not pct:
            rep.violation('TB1', f_ue, f_ue.line, 'percent', 'no \'%\' literal is emitted for bytes that must be encoded')

    # ---- TB2 / TB3
    tw = _find_table(local_tables(f_be), 64)
    tr = _find_table(local_tables(f_bd), 256)
    rep.broken_if(tw is None, 'qbase64_encode: 64-entry alphabet table not found')
    rep.broken_if(tr is None, 'qbase64_decode: 256-entry map table not found')
    if tw:
        name, (decl, vals) = tw
        for i in range(64):
            rep.instance('TB2')
            ok = vals[i] == ord(RFC4648[i])
            rep.oblige('TB2', ok, {'index': i, 'value': chr(vals[i]) if 32 <= vals[i] < 127 else vals[i]} if i in (0, 62, 63) else None)
            if not ok:
                rep.violation('TB2', f_be, decl.get('_line'), '%s[%d]' % (name, i),
                              '%s[%d] is %r but RFC 4648 requires %r' % (name, i, chr(vals[i]) if 32 <= vals[i] < 127 else vals[i], RFC4648[i]))
    if tw and tr:
        wname, (_wd, w) = tw
        rname, (rdecl, r) = tr
        inv = {w[i]: i for i in range(64)}
        # skip marker = the constant the decoder compares the looked-up value with
        markers = set()
        for x in walk(f_bd.body):
            if x.get('kind') == 'BinaryOperator' and x.get('opcode') in ('==', '!=', '>='):
                v = int_value(children(x)[1])
                if v is not None and not isinstance(v, str) and v >= 64:
                    markers.add(v)
        for c in range(256):
            rep.instance('TB3')
            if c in inv:
                ok = r[c] == inv[c]
                msg = 'must map back to %d' % inv[c]
            else:
                ok = r[c] >= 64 and (not markers or r[c] in markers)
                msg = 'is not an alphabet byte and must carry the skip marker %s' % sorted(markers)
            rep.oblige('TB3', ok, {'byte': c, 'maps_to': r[c]} if c in (43, 47, 65, 61) else None)
            if not ok:
                rep.violation('TB3', f_bd, rdecl.get('_line'), '%s[0x%02x]' % (rname, c),
                              '%s[0x%02x] = %d but byte %r %s' % (rname, c, r[c], chr(c) if 32 <= c < 127 else c, msg))

    # ---- TB4
    hw = _find_table(local_tables(f_he), 16)
    hr = _find_table(local_tables(f_hd), 256)
    rep.broken_if(hw is None, 'qhex_encode: 16-entry digit table not found')
    rep.broken_if(hr is None, 'qhex_decode: 256-entry map table not found')
    if hw:
        name, (decl, vals) = hw
        for i in range(16):
            rep.instance('TB4')
            ok = vals[i] == ord('0123456789abcdef'[i])
            rep.oblige('TB4', ok)
            if not ok:
                rep.violation('TB4', f_he, decl.get('_line'), '%s[%d]' % (name, i),
                              '%s[%d] = %r, expected lowercase hex digit %r' % (name, i, chr(vals[i]) if 32 <= vals[i] < 127 else vals[i], '0123456789abcdef'[i]))
    if hr:
        name, (decl, vals) = hr
        for i, ch in enumerate('0123456789abcdef'):
            for c in {ord(ch), ord(ch.upper())}:
                rep.instance('TB4')
                ok = vals[c] == i
                rep.oblige('TB4', ok, {'digit': chr(c), 'value': vals[c]} if ch in 'af' else None)
                if not ok:
                    rep.violation('TB4', f_hd, decl.get('_line'), '%s[%r]' % (name, chr(c)),
                                  '%s[%r] = %d, expected %d (both hex-digit cases must decode)' % (name, chr(c), vals[c], i))

    # ---- TB5
    pads = []
    for x in walk(f_be.body):
        if x.get('kind') == 'ConditionalOperator':
            arms = children(x)[1:]
            if any(int_value(a) == 61 for a in arms):
                pads.append(x)
    rep.instance('TB5')
    rep.oblige('TB5', len(pads) >= 2, {'padding_conditionals': len(pads)})
    if len(pads) < 2:
        rep.violation('TB5', f_be, f_be.line, 'padding',
                      'the two tail characters of a Base64 block must each be `cond ? alphabet[...] : \'=\'`; found %d' % len(pads))
    for x in pads:
        rep.instance('TB5')
        arms = children(x)[1:]
        # '=' must be the arm taken for the SHORT input: condition is `idx >= k` with '=' in the false arm,
        # or `idx < k` with '=' in the true arm
        c = strip_parens(children(x)[0])
        op = c.get('opcode')
        eq_true = int_value(arms[0]) == 61
        ok = (op in ('>=', '>') and not eq_true) or (op in ('<', '<=') and eq_true)
        rep.oblige('TB5', ok, {'cond': canon(c), 'pad_arm': 'true' if eq_true else 'false'})
        if not ok:
            rep.violation('TB5', f_be, x.get('_line'), 'pad:%s' % canon(c), 'the \'=\' padding is emitted on the wrong arm of %s' % canon(c))
    # the other two encoders: output allocation covers the worst case (3n+1 for URL, 2n+1 for hex)
    from .expr import eval_int as _ev
    for (ff, need, what) in ((f_ue, lambda k: 3 * k + 1, '3n+1'), (f_he, lambda k: 2 * k + 1, '2n+1')):
        sizep = [p.get('name') for p in ff.params if 'size_t' in qtype(p)]
        nn = sizep[0] if sizep else 'size'
        for x in walk(ff.body):
            if x.get('kind') == 'CallExpr' and prog.callee_name(x) == 'malloc':
                rep.instance('TB5')
                arg = children(x)[1]
                short = None
                for k in range(1, 301):
                    v = _ev(arg, {nn: k})
                    if v is None or v < need(k):
                        short = (k, v)
                        break
                rep.oblige('TB5', short is None, {'function': ff.name, 'malloc_size': canon(arg), 'needed': what})
                if short:
                    rep.violation('TB5', ff, x.get('_line'), 'alloc', 'output buffer size %s gives %s bytes for n=%d but up to %d are written'
                                  % (canon(arg), short[1], short[0], need(short[0])))
    # allocation size 4*ceil(n/3)+1
    for x in walk(f_be.body):
        if x.get('kind') == 'CallExpr' and prog.callee_name(x) == 'malloc':
            rep.instance('TB5')
            arg = children(x)[1]
            cn = canon(arg)
            sizep = [p.get('name') for p in f_be.params if 'size_t' in qtype(p)]
            n = sizep[0] if sizep else 'size'
            # the size expression is evaluated in the checker's integer domain for every n in 1..600
            # (covers each residue mod 3 two hundred times); a larger buffer is safe, a smaller one is not
            from .expr import eval_int
            short = None
            unknown = False
            for k in range(1, 601):
                v = eval_int(arg, {n: k})
                if v is None:
                    unknown = True
                    break
                if v < 4 * ((k + 2) // 3) + 1:
                    short = (k, v)
                    break
            ok = not unknown and short is None
            rep.oblige('TB5', ok, {'malloc_size': cn, 'evaluated_for_n': '1..600'})
            rep.broken_if(unknown, 'qbase64_encode: output size expression %s could not be evaluated' % cn)
            if short:
                rep.violation('TB5', f_be, x.get('_line'), 'alloc',
                              'output buffer size %s gives %d bytes for n=%d but 4*ceil(n/3)+1 = %d are written'
                              % (cn, short[1], short[0], 4 * ((short[0] + 2) // 3) + 1))

    # ---- TB6
    for f in (f_ue, f_bd, f_hd):
        for name, (decl, vals) in local_tables(f).items():
            if len(vals) != 256:
                continue
            for sub in table_subscripts(f, name):
                rep.instance('TB6')
                ok = _index_is_unsigned_byte(sub)
                rep.oblige('TB6', ok, {'function': f.name, 'subscript': canon(sub)})
                if not ok:
                    rep.violation('TB6', f, sub.get('_line'), 'index:%s' % canon(children(sub)[1]),
                                  '%s is indexed by %s which is not an unsigned byte: bytes >= 0x80 index before the table'
                                  % (name, canon(children(sub)[1])))

    # ---- TB7
    plus = False
    pct = False
    for x in walk(f_ud.body):
        if x.get('kind') == 'CaseStmt':
            ch = children(x)
            v = int_value(ch[0])
            body = ch[-1]
            if v == 43:
                plus = any(int_value(children(a)[1]) == 32 for a in walk(body)
                           if a.get('kind') == 'BinaryOperator' and a.get('opcode') == '=')
            if v == 37:
                pct = any(c.get('kind') == 'CallExpr' and prog.callee_name(c) == '_q_x2c' for c in walk(body))
    rep.instance('TB7', 2)
    rep.oblige('TB7', plus, {'plus_to_space': plus})
    rep.oblige('TB7', pct, {'percent_uses_hex_pair_helper': pct})
    if not plus:
        rep.violation('TB7', f_ud, f_ud.line, 'plus', 'the URL decoder has no case \'+\' that stores a space')
    if not pct:
        rep.violation('TB7', f_ud, f_ud.line, 'percent', 'the URL decoder has no case \'%\' that decodes through _q_x2c()')
    fx = prog.need_func('_q_x2c')
    masks = [int_value(children(x)[1]) for x in walk(fx.body)
             if x.get('kind') == 'BinaryOperator' and x.get('opcode') == '&']
    rep.instance('TB7')
    ok = masks.count(0xdf) >= 2
    rep.oblige('TB7', ok, {'case_fold_masks': masks})
    if not ok:
        rep.violation('TB7', fx, fx.line, 'casefold', '_q_x2c() must fold both hex digits to upper case (& 0xdf) before '
                                                      'subtracting \'A\': lowercase %hh escapes (what qurl_encode emits) would mis-decode')
