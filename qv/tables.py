"""Engine G: constant tables and literal sets (C16; also used by C20/C18)."""
from .frontend import walk, children, strip, strip_parens, qtype, dtype
from .expr import canon, int_value, access_path, var_init
from .dataflow import poly_of, Poly

ENC_UNIT = 'src/utilities/qencode.c'

RFC4648 = 'ABCDEFGHIJKLMNOPQRSTUVWXYZabcdefghijklmnopqrstuvwxyz0123456789+/'
URL_FORBIDDEN = set(b' %+&=?#"<>')
URL_ALLOWED_PUNCT = set(b"-._~:/@\\")


def local_tables(f):
    """Constant arrays with initialiser lists used by function f - declared in it or at file scope and referenced
    by it: name -> (VarDecl, [int values])."""
    out = {}
    used_globals = {x['_ref'][2] for x in walk(f.body) if x.get('kind') == 'DeclRefExpr' and (x.get('_ref') or ('',))[0] == 'global'}
    decls = [n for n in walk(f.body) if n.get('kind') == 'VarDecl'] + \
            [g for nm, g in f.unit.globals.items() if nm in used_globals]
    for n in decls:
        if n.get('kind') == 'VarDecl' and '[' in qtype(n):
            init = var_init(n)
            if init is not None and strip(init).get('kind') == 'StringLiteral' and 'char' in qtype(n):
                # char T[] = "...": the bytes of the literal and its terminator (values as the element type reads them)
                try:
                    import ast as _ast
                    v = strip(init).get('value', '')
                    bs = _ast.literal_eval('b' + v) if v.startswith('"') else None
                except Exception:
                    bs = None
                if bs is not None:
                    from .expr import array_len
                    ln = array_len(qtype(n)) or (len(bs) + 1)
                    vals = list(bs) + [0] * max(0, ln - len(bs))
                    if 'unsigned' not in qtype(n):
                        vals = [x - 256 if x > 127 else x for x in vals]
                    out[n.get('name')] = (n, vals)
                continue
            if init is None or strip(init).get('kind') != 'InitListExpr':
                continue
            il = strip(init)
            vals = []
            ok = True
            for c in children(il):
                v = int_value(c)
                if v is None or isinstance(v, str):
                    ok = False
                    break
                vals.append(v)
            from .expr import array_len
            ln = array_len(qtype(n))
            if ok and ln is not None:
                # implicit zero fill of a short initialiser
                vals = vals + [0] * (ln - len(vals))
                out[n.get('name')] = (n, vals)
    return out


def table_subscripts(f, name):
    """ArraySubscriptExpr nodes indexing the local table `name`."""
    out = []
    for n in walk(f.body):
        if n.get('kind') == 'ArraySubscriptExpr':
            b = strip(children(n)[0])
            if b.get('kind') == 'DeclRefExpr' and (b.get('_ref') or ('', '', ''))[2:3] == (name,):
                out.append(n)
    return out


def _find_table(tables, length, pred=None):
    c = [(k, v) for k, v in tables.items() if len(v[1]) == length and (pred is None or pred(v[1]))]
    return c[0] if len(c) == 1 else None


def _index_is_unsigned_byte(sub):
    """index expression (before integer promotion) has type unsigned char / uint8_t"""
    idx = children(sub)[1]
    e = idx
    while e.get('kind') in ('ImplicitCastExpr', 'ParenExpr') and e.get('inner'):
        e = e['inner'][0]
    t = dtype(e) if e.get('type') else ''
    q = qtype(e)
    return 'unsigned char' in t or 'unsigned char' in q or 'uint8_t' in q


def rule_c16(prog, rep):
    prog.unit(ENC_UNIT)
    rep.rule('TB1', 'URL table: tbl[c] in {0, c}; literally emitted bytes are URL-safe ASCII and exclude space, controls, '
                    'bytes >= 0x80 and % + & = ? # " < >; every other byte is emitted as %hh')
    rep.rule('TB2', 'Base64 writer table is the RFC 4648 alphabet in order')
    rep.rule('TB3', 'Base64 reader table inverts the writer table; every other entry is the skip marker')
    rep.rule('TB4', 'hex writer table is 0123456789abcdef; hex reader table inverts it and accepts A-F')
    rep.rule('TB5', 'Base64 padding: both tail characters are conditional expressions with a literal \'=\' arm; output '
                    'allocation is 4*ceil(n/3)+1')
    rep.rule('TB6', 'every 256-entry table is indexed by an unsigned byte (no negative index for bytes >= 0x80)')
    rep.rule('TB7', 'URL decoder step law, tabulated: \'+\' -> space, %hh -> 16*hi+lo (not mapped again), other bytes unchanged, a complete escape consumes 3 bytes')

    f_ue = prog.need_func('qurl_encode')
    f_ud = prog.need_func('qurl_decode')
    f_be = prog.need_func('qbase64_encode')
    f_bd = prog.need_func('qbase64_decode')
    f_he = prog.need_func('qhex_encode')
    f_hd = prog.need_func('qhex_decode')

    # ---- TB1
    lit, how, line = url_literal_set(prog, f_ue)
    rep.broken_if(lit is None, 'qurl_encode: %s' % how)
    # every store that copies the input byte through unescaped sits in the literal arm of that one classification test
    # (a second copy-through site under another condition lets reserved bytes out)
    cls_if = None
    for x in walk(f_ue.body):
        if x.get('kind') == 'IfStmt' and x.get('_line') == line and len(children(x)) >= 3:
            cls_if = x
    if cls_if is not None:
        then, els = children(cls_if)[1], children(cls_if)[2]
        pct_else = any(y.get('kind') == 'CharacterLiteral' and y.get('value') == 37 for y in walk(els))
        lit_arm, esc_arm = (then, els) if pct_else else (els, then)
        inbyte = set()
        for y in walk(lit_arm):
            if y.get('kind') == 'BinaryOperator' and y.get('opcode') == '=' and strip_parens(children(y)[0]).get('kind') == 'UnaryOperator':
                inbyte.add(canon(strip(children(y)[1])))
        for y in walk(esc_arm):
            if y.get('kind') == 'BinaryOperator' and y.get('opcode') == '=' and strip_parens(children(y)[0]).get('kind') == 'UnaryOperator' \
                    and canon(strip(children(y)[1])) in inbyte:
                rep.instance('TB1')
                rep.oblige('TB1', False, {'second_copy_through': canon(y)[:60]})
                rep.violation('TB1', f_ue, y.get('_line'), 'copy-through:%s' % canon(strip(children(y)[1]))[:20],
                              '%s copies the input byte to the output unescaped outside the literal-set test: bytes that must be '
                              'escaped (e.g. a %% that happens to be followed by two hex digits) get through, so decoding no longer '
                              'returns the input' % canon(y)[:50])
    rep.notes['url_literal_predicate'] = how
    if lit is not None:
        bad = []
        for c in range(256):
            rep.instance('TB1')
            ok = True
            if c in lit:
                is_alnum = (48 <= c <= 57) or (65 <= c <= 90) or (97 <= c <= 122)
                ok = (is_alnum or c in URL_ALLOWED_PUNCT) and c not in URL_FORBIDDEN and 0x20 < c < 0x7F
            rep.oblige('TB1', ok, {'byte': c, 'emitted_literally': c in lit} if c in (0x00, 0x20, 0x25, 0x41) else None)
            if not ok:
                bad.append(c)
        for c in bad[:4]:
            rep.violation('TB1', f_ue, line, 'literal:0x%02x' % c,
                          'byte 0x%02x is copied to the output unescaped (%s) but is not URL-safe: NUL/control/space/non-ASCII or one '
                          'of %% + & = ? # " < >' % (c, how))
        t = _find_table(local_tables(f_ue), 256)
        if t:
            name, (decl, vals) = t
            for c in range(256):
                if (vals[c] & 0xFF) not in (0, c):
                    rep.instance('TB1')
                    rep.oblige('TB1', False)
                    rep.violation('TB1', f_ue, decl.get('_line'), '%s[0x%02x]' % (name, c),
                                  '%s[0x%02x] = %r is neither 0 nor the byte itself' % (name, c, vals[c]))
        pct = [x for x in walk(f_ue.body) if x.get('kind') == 'CharacterLiteral' and x.get('value') == 37]
        rep.instance('TB1')
        rep.oblige('TB1', bool(pct), {'percent_literal_stores': len(pct)})
        if not pct:
            rep.violation('TB1', f_ue, f_ue.line, 'percent', "no '%' literal is emitted for bytes that must be encoded")

    # ---- TB2 / TB3
    tw = _find_table(local_tables(f_be), 64)
    tr = _find_table(local_tables(f_bd), 256)
    rep.broken_if(tw is None, 'qbase64_encode: 64-entry alphabet table not found')
    rep.broken_if(tr is None, 'qbase64_decode: 256-entry map table not found')
    if tw:
        name, (decl, vals) = tw
        for i in range(64):
            rep.instance('TB2')
            ok = vals[i] == ord(RFC4648[i])
            rep.oblige('TB2', ok, {'index': i, 'value': chr(vals[i]) if 32 <= vals[i] < 127 else vals[i]} if i in (0, 62, 63) else None)
            if not ok:
                rep.violation('TB2', f_be, decl.get('_line'), '%s[%d]' % (name, i),
                              '%s[%d] is %r but RFC 4648 requires %r' % (name, i, chr(vals[i]) if 32 <= vals[i] < 127 else vals[i], RFC4648[i]))
    if tw and tr:
        wname, (_wd, w) = tw
        rname, (rdecl, r) = tr
        inv = {w[i]: i for i in range(64)}
        # skip marker = the constant the decoder compares the looked-up value with
        markers = set()
        for x in walk(f_bd.body):
            if x.get('kind') == 'BinaryOperator' and x.get('opcode') in ('==', '!=', '>='):
                v = int_value(children(x)[1])
                if v is not None and not isinstance(v, str) and v >= 64:
                    markers.add(v)
        for c in range(256):
            rep.instance('TB3')
            if c in inv:
                ok = r[c] == inv[c]
                msg = 'must map back to %d' % inv[c]
            else:
                ok = r[c] >= 64 and (not markers or r[c] in markers)
                msg = 'is not an alphabet byte and must carry the skip marker %s' % sorted(markers)
            rep.oblige('TB3', ok, {'byte': c, 'maps_to': r[c]} if c in (43, 47, 65, 61) else None)
            if not ok:
                rep.violation('TB3', f_bd, rdecl.get('_line'), '%s[0x%02x]' % (rname, c),
                              '%s[0x%02x] = %d but byte %r %s' % (rname, c, r[c], chr(c) if 32 <= c < 127 else c, msg))

    # ---- TB4
    hw = _find_table(local_tables(f_he), 16)
    hr = _find_table(local_tables(f_hd), 256)
    # a hex codec without tables (digit helpers) has no table to check here: its digits are decided by TB12/TB13
    if hw is None or hr is None:
        rep.notes['hex_tables'] = 'not table driven (digit helpers): table conformance TB4 has no instance, TB12/TB13 tabulate the helpers'
    if hw:
        name, (decl, vals) = hw
        for i in range(16):
            rep.instance('TB4')
            ok = vals[i] == ord('0123456789abcdef'[i])
            rep.oblige('TB4', ok)
            if not ok:
                rep.violation('TB4', f_he, decl.get('_line'), '%s[%d]' % (name, i),
                              '%s[%d] = %r, expected lowercase hex digit %r' % (name, i, chr(vals[i]) if 32 <= vals[i] < 127 else vals[i], '0123456789abcdef'[i]))
    if hr:
        name, (decl, vals) = hr
        for i, ch in enumerate('0123456789abcdef'):
            for c in {ord(ch), ord(ch.upper())}:
                rep.instance('TB4')
                ok = vals[c] == i
                rep.oblige('TB4', ok, {'digit': chr(c), 'value': vals[c]} if ch in 'af' else None)
                if not ok:
                    rep.violation('TB4', f_hd, decl.get('_line'), '%s[%r]' % (name, chr(c)),
                                  '%s[%r] = %d, expected %d (both hex-digit cases must decode)' % (name, chr(c), vals[c], i))

    # ---- TB5
    # the padding clauses are stated for the staged form of the encoder (a 3-byte staging array filled byte by byte and
    # emitted once per group, the two tail characters chosen by comparing the fill index); an encoder in another form
    # (e.g. full groups straight from the input plus a separate tail block) is not decided by them - never an alarm
    staged = any(x.get('kind') == 'VarDecl' and array_len_(qtype(x)) in (3, 4) for x in walk(f_be.body))
    rep.notes['base64_encoder_form'] = 'staged' if staged else 'other (padding / staging / field clauses TB5a, TB8, TB10 not decided)'
    pads = []
    for x in walk(f_be.body):
        if staged and x.get('kind') == 'ConditionalOperator':
            arms = children(x)[1:]
            if any(int_value(a) == 61 for a in arms):
                pads.append(x)
    if staged:
        rep.instance('TB5')
        rep.oblige('TB5', len(pads) >= 2, {'padding_conditionals': len(pads)})
    if staged and len(pads) < 2:
        rep.violation('TB5', f_be, f_be.line, 'padding',
                      'the two tail characters of a Base64 block must each be `cond ? alphabet[...] : \'=\'`; found %d' % len(pads))
    for x in pads:
        rep.instance('TB5')
        arms = children(x)[1:]
        # '=' must be the arm taken for the SHORT input: condition is `idx >= k` with '=' in the false arm,
        # or `idx < k` with '=' in the true arm
        c = strip_parens(children(x)[0])
        op = c.get('opcode')
        eq_true = int_value(arms[0]) == 61
        ok = (op in ('>=', '>') and not eq_true) or (op in ('<', '<=') and eq_true)
        rep.oblige('TB5', ok, {'cond': canon(c), 'pad_arm': 'true' if eq_true else 'false'})
        if not ok:
            rep.violation('TB5', f_be, x.get('_line'), 'pad:%s' % canon(c), 'the \'=\' padding is emitted on the wrong arm of %s' % canon(c))
    # the other two encoders: output allocation covers the worst case (3n+1 for URL, 2n+1 for hex)
    from .expr import eval_int as _ev
    for (ff, need, what) in ((f_ue, lambda k: 3 * k + 1, '3n+1'), (f_he, lambda k: 2 * k + 1, '2n+1')):
        sizep = [p.get('name') for p in ff.params if 'size_t' in qtype(p)]
        nn = sizep[0] if sizep else 'size'
        for x in walk(ff.body):
            if x.get('kind') == 'CallExpr' and prog.callee_name(x) == 'malloc':
                rep.instance('TB5')
                arg = children(x)[1]
                short = None
                for k in range(1, 301):
                    v = _ev(arg, {nn: k})
                    if v is None or v < need(k):
                        short = (k, v)
                        break
                rep.oblige('TB5', short is None, {'function': ff.name, 'malloc_size': canon(arg), 'needed': what})
                if short:
                    rep.violation('TB5', ff, x.get('_line'), 'alloc', 'output buffer size %s gives %s bytes for n=%d but up to %d are written'
                                  % (canon(arg), short[1], short[0], need(short[0])))
    # allocation size 4*ceil(n/3)+1
    for x in walk(f_be.body):
        if x.get('kind') == 'CallExpr' and prog.callee_name(x) == 'malloc':
            rep.instance('TB5')
            arg = children(x)[1]
            cn = canon(arg)
            sizep = [p.get('name') for p in f_be.params if 'size_t' in qtype(p)]
            n = sizep[0] if sizep else 'size'
            # the size expression is evaluated in the checker's integer domain for every n in 1..600
            # (covers each residue mod 3 two hundred times); a larger buffer is safe, a smaller one is not
            from .expr import eval_int
            short = None
            unknown = False
            for k in range(1, 601):
                v = eval_int(arg, {n: k})
                if v is None:
                    unknown = True
                    break
                if v < 4 * ((k + 2) // 3) + 1:
                    short = (k, v)
                    break
            ok = not unknown and short is None
            rep.oblige('TB5', ok, {'malloc_size': cn, 'evaluated_for_n': '1..600'})
            rep.broken_if(unknown, 'qbase64_encode: output size expression %s could not be evaluated' % cn)
            if short:
                rep.violation('TB5', f_be, x.get('_line'), 'alloc',
                              'output buffer size %s gives %d bytes for n=%d but 4*ceil(n/3)+1 = %d are written'
                              % (cn, short[1], short[0], 4 * ((short[0] + 2) // 3) + 1))

    # ---- TB6
    for f in (f_ue, f_bd, f_hd):
        for name, (decl, vals) in local_tables(f).items():
            if len(vals) != 256:
                continue
            for sub in table_subscripts(f, name):
                rep.instance('TB6')
                ok = _index_is_unsigned_byte(sub)
                if not ok:
                    # an int temporary all of whose definitions are unsigned bytes / masked values is as good
                    from .strrules import _byte_index_ok
                    from .dataflow import ReachingDefs
                    rd6 = ReachingDefs(f)
                    for n6 in f.cfg.nodes:
                        if isinstance(n6.ast, dict) and n6.kind != 'macro' and n6.id in rd6.IN and any(y is sub for y in walk(n6.ast)):
                            ok = _byte_index_ok(f, rd6, n6.id, children(sub)[1])
                            break
                rep.oblige('TB6', ok, {'function': f.name, 'subscript': canon(sub)})
                if not ok:
                    rep.violation('TB6', f, sub.get('_line'), 'index:%s' % canon(children(sub)[1]),
                                  '%s is indexed by %s which is not an unsigned byte: bytes >= 0x80 index before the table'
                                  % (name, canon(children(sub)[1])))

    # ---- TB7
    from .bitlaws import rule_url_decode_law
    rep.rule('TB7', 'URL decoder step law: \'+\' -> space, %hh -> 16*hi+lo (not mapped again), every other byte unchanged')
    if not rule_url_decode_law(prog, rep, 'TB7'):
        # the loop body is outside the interpretable fragment: fall back to the structural form of the clause
        plus = False
        pct = False
        for x in walk(f_ud.body):
            if x.get('kind') == 'CaseStmt':
                ch = children(x)
                v = int_value(ch[0])
                body = ch[-1]
                if v == 43:
                    plus = any(int_value(children(a)[1]) == 32 for a in walk(body)
                               if a.get('kind') == 'BinaryOperator' and a.get('opcode') == '=')
                if v == 37:
                    pct = any(c.get('kind') == 'CallExpr' and prog.callee_name(c) == '_q_x2c' for c in walk(body))
        if any(x.get('kind') == 'CaseStmt' for x in walk(f_ud.body)):
            rep.instance('TB7', 2)
            rep.oblige('TB7', plus, {'plus_to_space': plus})
            rep.oblige('TB7', pct, {'percent_uses_hex_pair_helper': pct})
            if not plus:
                rep.violation('TB7', f_ud, f_ud.line, 'plus', 'the URL decoder has no case \'+\' that stores a space')
            if not pct:
                rep.violation('TB7', f_ud, f_ud.line, 'percent', 'the URL decoder has no case \'%\' that decodes through _q_x2c()')


# --------------------------------------------------------------------------------------
# predicate evaluation over the byte domain (used when the literal set is a table lookup or a ctype/strchr predicate)

CTYPE_MASK = {
    '_ISalnum': lambda c: (48 <= c <= 57) or (65 <= c <= 90) or (97 <= c <= 122),
    '_ISalpha': lambda c: (65 <= c <= 90) or (97 <= c <= 122),
    '_ISdigit': lambda c: 48 <= c <= 57,
    '_ISxdigit': lambda c: (48 <= c <= 57) or (65 <= c <= 70) or (97 <= c <= 102),
    '_ISupper': lambda c: 65 <= c <= 90,
    '_ISlower': lambda c: 97 <= c <= 122,
    '_ISspace': lambda c: c in (9, 10, 11, 12, 13, 32),
    '_ISprint': lambda c: 32 <= c <= 126,
    '_ISgraph': lambda c: 33 <= c <= 126,
    '_ISpunct': lambda c: (33 <= c <= 47) or (58 <= c <= 64) or (91 <= c <= 96) or (123 <= c <= 126),
    '_IScntrl': lambda c: c < 32 or c == 127,
    '_ISblank': lambda c: c in (9, 32),
}
CTYPE_FN = {'isalnum': '_ISalnum', 'isalpha': '_ISalpha', 'isdigit': '_ISdigit', 'isxdigit': '_ISxdigit',
            'isupper': '_ISupper', 'islower': '_ISlower', 'isspace': '_ISspace', 'isprint': '_ISprint',
            'isgraph': '_ISgraph', 'ispunct': '_ISpunct', 'iscntrl': '_IScntrl', 'isblank': '_ISblank'}


def _string_of(prog, f, e):
    """bytes of a string literal or of a const char array variable initialised from one"""
    s = strip(e)
    if s.get('kind') == 'StringLiteral':
        v = s.get('value', '""')
        try:
            import ast as _ast
            return _ast.literal_eval('b' + v) if v.startswith('"') else None
        except Exception:
            return None
    if s.get('kind') == 'DeclRefExpr':
        nm = (s.get('_ref') or ('', '', None))[2] if len(s.get('_ref') or ()) > 2 else None
        for x in walk(f.body):
            if x.get('kind') == 'VarDecl' and x.get('name') == nm:
                init = var_init(x)
                if init is not None:
                    return _string_of(prog, f, init)
        g = f.unit.globals.get(nm)
        if g is not None and var_init(g) is not None:
            return _string_of(prog, f, var_init(g))
    return None


def byte_pred(prog, f, e, env, tables):
    """Evaluate predicate/integer expression e for a concrete byte environment; None if not evaluable."""
    s = strip(e)
    v = int_value(s)
    if v is not None and not isinstance(v, str):
        return v
    k = s.get('kind')
    if k == 'DeclRefExpr':
        r = s.get('_ref') or ('',)
        nm = r[2] if len(r) > 2 else None
        return env.get(nm)
    if k == 'ArraySubscriptExpr':
        b = strip(children(s)[0])
        is_ctype = any(x.get('kind') == 'CallExpr' and prog.callee_name(x) == '__ctype_b_loc' for x in walk(b))
        if env.get('*') is not None and env.get('?neutral') and not is_ctype and (qtype(b) or '').rstrip().endswith('*') and \
                (b.get('referencedDecl') or {}).get('name') not in tables:
            return env['*']             # str[i]: the byte under the scan index (strrules, index form of a cursor loop)
        idx = byte_pred(prog, f, children(s)[1], env, tables)
        if idx is None:
            return None
        if b.get('kind') == 'DeclRefExpr':
            nm = (b.get('_ref') or ('', '', None))[2]
            if nm in tables and 0 <= idx < len(tables[nm]):
                return tables[nm][idx]
            st = _string_of(prog, f, b)
            if st is not None and 0 <= idx <= len(st):
                return (st + b'\0')[idx]
        # glibc ctype macro: (*__ctype_b_loc())[(int)(c)] -> class bits, modelled through the mask it is and-ed with
        if is_ctype:
            return ('ctype', idx)
        return None
    if k == 'UnaryOperator':
        if s.get('opcode') == '*' and env.get('*') is not None:
            return env['*']         # the byte under the scan cursor (strrules)
        a = byte_pred(prog, f, children(s)[0], env, tables)
        if a is None or isinstance(a, tuple):
            return None
        return {'!': int(not a), '-': -a, '~': ~a, '+': a}.get(s.get('opcode'))
    if k == 'BinaryOperator':
        op = s.get('opcode')
        a = byte_pred(prog, f, children(s)[0], env, tables)
        neutral = env.get('?neutral')      # atoms that do not depend on the byte are the neutral element of && / ||
        if op == '&&':
            if a is None:
                if not neutral:
                    return None
                a = 1
            if not a:
                return 0
            b = byte_pred(prog, f, children(s)[1], env, tables)
            if b is None and neutral:
                b = 1
            return None if b is None else int(bool(b))
        if op == '||':
            if a is None:
                if not neutral:
                    return None
                a = 0
            if a and not isinstance(a, tuple):
                return 1
            b = byte_pred(prog, f, children(s)[1], env, tables)
            if b is None and neutral:
                b = 0
            return None if b is None else int(bool(b))
        b = byte_pred(prog, f, children(s)[1], env, tables)
        if op == '&' and isinstance(a, tuple) and a[0] == 'ctype':
            for x in walk(children(s)[1]):
                if x.get('kind') == 'DeclRefExpr' and (x.get('_ref') or ('',))[0] == 'enum' and x['_ref'][1] in CTYPE_MASK:
                    return int(CTYPE_MASK[x['_ref'][1]](a[1] & 0xFF))
            return None
        if a is None or b is None or isinstance(a, tuple) or isinstance(b, tuple):
            return None
        try:
            return {'+': a + b, '-': a - b, '*': a * b, '&': a & b, '|': a | b, '^': a ^ b, '<<': a << b, '>>': a >> b,
                    '==': int(a == b), '!=': int(a != b), '<': int(a < b), '>': int(a > b), '<=': int(a <= b),
                    '>=': int(a >= b)}.get(op)
        except (ValueError, OverflowError):
            return None
    if k == 'ConditionalOperator':
        c = byte_pred(prog, f, children(s)[0], env, tables)
        if c is None:
            return None
        return byte_pred(prog, f, children(s)[1 if c else 2], env, tables)
    if k == 'CallExpr':
        nm = prog.callee_name(s)
        args = children(s)[1:]
        if nm in CTYPE_FN and args:
            c = byte_pred(prog, f, args[0], env, tables)
            return None if c is None else int(CTYPE_MASK[CTYPE_FN[nm]](c & 0xFF))
        if nm in ('toupper', 'tolower') and args:
            c = byte_pred(prog, f, args[0], env, tables)
            if c is None or isinstance(c, tuple):
                return None
            if not 0 <= c <= 255:
                return c
            return ord(chr(c).upper()) if (nm == 'toupper' and 97 <= c <= 122) else \
                ord(chr(c).lower()) if (nm == 'tolower' and 65 <= c <= 90) else c
        tgt = prog.resolve_name(f.unit, nm) if nm else None
        if tgt is not None and nm not in CTYPE_FN:
            # a small pure helper of the repository (e.g. `static inline bool is_safe(unsigned char c)`): evaluated case by
            # case on its loop-free CFG with the same byte models for <ctype.h> and strchr
            from .interp import run_function
            vals = [byte_pred(prog, f, a, env, tables) for a in args]
            if any(v is None or isinstance(v, tuple) for v in vals):
                return None
            stubs = {}
            for cn, mk in CTYPE_FN.items():
                stubs[cn] = (lambda m: (lambda v, t: int(CTYPE_MASK[m]((v[0] or 0) & 0xFF))))(mk)

            def _strchr(v, t):
                # strchr("literal", c): non-NULL iff c occurs in the literal, the terminator included
                import ast as _ast
                try:
                    lit = _ast.literal_eval('b' + t[0]) if t and t[0].startswith('"') else None
                except Exception:
                    lit = None
                if lit is None or v[1] is None:
                    return None
                return 1 if (v[1] & 0xFF) in (lit + b'\0') else 0
            stubs['strchr'] = _strchr
            stubs['index'] = _strchr
            return run_function(prog, tgt, vals, stubs)
        if nm in ('strchr', 'memchr', 'index') and len(args) >= 2:
            st = _string_of(prog, f, args[0])
            c = byte_pred(prog, f, args[1], env, tables)
            if st is None or c is None:
                return None
            hay = st + (b'\0' if nm != 'memchr' else b'')
            return 1 if (c & 0xFF) in hay else 0       # non-NULL / NULL
        return None
    return None


def url_literal_set(prog, f):
    """The set of byte values qurl_encode copies through unchanged: the condition of the branch whose one arm stores
    the byte itself and whose other arm stores '%' is evaluated for all 256 byte values.
    Returns (set or None, description, line)."""
    tables = {name: vals for name, (decl, vals) in local_tables(f).items()}
    for x in walk(f.body):
        if x.get('kind') != 'IfStmt' or len(children(x)) < 3:
            continue
        then, els = children(x)[1], children(x)[2]
        pct_else = any(y.get('kind') == 'CharacterLiteral' and y.get('value') == 37 for y in walk(els))
        pct_then = any(y.get('kind') == 'CharacterLiteral' and y.get('value') == 37 for y in walk(then))
        if pct_else == pct_then:
            continue
        cond = children(x)[0]
        # the byte variable: an unsigned char local assigned from the input cursor
        names = [y.get('_ref')[2] for y in walk(cond) if y.get('kind') == 'DeclRefExpr' and (y.get('_ref') or ('',))[0] == 'local'
                 and y['_ref'][2] not in tables]
        names = [n for n in names if n]
        if not names:
            continue
        var = names[0]
        lit = set()
        for c in range(256):
            v = byte_pred(prog, f, cond, {var: c}, tables)
            if v is None:
                return None, 'condition %s cannot be evaluated for byte 0x%02x' % (canon(cond)[:60], c), x.get('_line')
            truth = bool(v)
            if truth == pct_else:      # condition true -> then-arm = literal copy when '%' is in the else arm
                lit.add(c)
        return lit, canon(cond)[:80], x.get('_line')
    return None, 'the literal/escape branch of the encoder was not found', f.line


def rule_query_split(prog, rep, rid='TB9'):
    """qparse_queries: a string is URL-decoded only after it has been split off (both separators are
    looked for in the still-encoded text), and nothing that was decoded is split again."""
    rep.rule(rid, 'the query parser splits on the separators before URL-decoding: decoded text is never handed to the splitter')
    f = prog.need_func('qparse_queries')
    from .own import propagate, node_events
    bad = []
    # the pair handling may live in a static helper: analyse the function that contains the splitter calls
    if not any(x.get('kind') == 'CallExpr' and prog.callee_name(x) == '_q_makeword' for x in walk(f.body)):
        for x in walk(f.body):
            if x.get('kind') == 'CallExpr':
                for g in prog.callees(f.unit, x):
                    if getattr(g, 'body', None) is not None and g.static and any(
                            y.get('kind') == 'CallExpr' and prog.callee_name(y) == '_q_makeword' for y in walk(g.body)):
                        f = g

    def transfer(n, st):
        s = set(st)
        if not isinstance(n.ast, dict) or n.kind == 'macro':
            return st
        for ev in node_events(n):
            if ev[0] == 'call':
                nm = prog.callee_name(ev[1])
                args = children(ev[1])[1:]
                if nm == 'qurl_decode' and args:
                    p = access_path(args[0])
                    if p:
                        s.add(('dec', p))
                elif nm == '_q_makeword' and args:
                    p = access_path(args[0])
                    if p and ('dec', p) in s:
                        bad.append((ev[1].get('_line'), p))
            elif ev[0] in ('assign', 'decl'):
                p = access_path(ev[1]) if ev[0] == 'assign' else ev[1].get('name')
                if p:
                    s.discard(('dec', p))
        return frozenset(s)
    propagate(f, frozenset(), transfer)
    decs = [x for x in walk(f.body) if x.get('kind') == 'CallExpr' and prog.callee_name(x) == 'qurl_decode']
    splits = [x for x in walk(f.body) if x.get('kind') == 'CallExpr' and prog.callee_name(x) == '_q_makeword']
    rep.instance(rid, len(splits))
    rep.broken_if(len(splits) < 2, 'qparse_queries: expected two splits, found %d' % len(splits))
    for x in splits:
        line = x.get('_line')
        hit = [b for b in bad if b[0] == line]
        rep.oblige(rid, not hit, {'split': canon(x)[:60], 'line': line})
        if hit:
            rep.violation(rid, f, line, 'split-after-decode:%s' % hit[0][1],
                          '%s is URL-decoded before it is split at line %s: an encoded separator inside a name or value '
                          '(%%3d, %%26) now splits the pair' % (hit[0][1], line))


def rule_b64_staging(prog, rep, rid='TB8'):
    """qbase64_encode: the small staging buffer read when a group is emitted holds only bytes of that group
    or zeros.  Elements are `clean` after the zero initialiser, after memset(buf, 0, ..) and after a store
    through a constant index; once a group has been emitted and the loop goes round without re-zeroing,
    every element is stale (a store through a computed index refreshes one unknown element only)."""
    from .own import propagate, node_events
    rep.rule(rid, 'the Base64 staging buffer holds only bytes of the current group or zeros when a group is emitted (pad bits are zero)')
    f = prog.need_func('qbase64_encode')
    bufs = [x for x in walk(f.body) if x.get('kind') == 'VarDecl' and array_len_(qtype(x)) in (3, 4)]
    if not bufs:
        return          # no staging buffer in this form of the encoder: nothing can be stale (not decided, never an alarm)
    if not bufs:
        return
    B = bufs[0].get('name')
    N = array_len_(qtype(bufs[0]))
    bad = []

    def is_zeroing(ev):
        if ev[0] == 'call' and prog.callee_name(ev[1]) == 'memset':
            a = children(ev[1])[1:]
            return len(a) >= 2 and access_path(a[0]) == B and int_value(a[1]) == 0
        return False

    def transfer(n, st):
        s = set(st)
        if n.kind == 'join' and n.info and n.info[0] == 'loophead' and ('emitted',) in s:
            s = set()                                   # next group: nothing is known to be clean any more
        if not isinstance(n.ast, dict) or n.kind == 'macro':
            return frozenset(s)
        if n.ast.get('kind') == 'VarDecl' and n.ast.get('name') == B:
            return frozenset(('clean', i) for i in range(N))
        # reads while emitting (stores through the output cursor)
        for x in walk(n.ast):
            if x.get('kind') == 'BinaryOperator' and x.get('opcode') == '=':
                l = strip(children(x)[0])
                if l.get('kind') == 'UnaryOperator' and l.get('opcode') == '*':
                    reads = [y for y in walk(children(x)[1]) if y.get('kind') == 'ArraySubscriptExpr'
                             and access_path(children(y)[0]) == B]
                    for y in reads:
                        i = int_value(children(y)[1])
                        if i is not None and not isinstance(i, str) and ('clean', i) not in s:
                            bad.append((y.get('_line'), i))
                    if reads:
                        s.add(('emitted',))
        for ev in node_events(n):
            if is_zeroing(ev):
                s = set(('clean', i) for i in range(N))
            elif ev[0] == 'assign':
                l = strip(ev[1])
                if l.get('kind') == 'ArraySubscriptExpr' and access_path(children(l)[0]) == B:
                    i = int_value(children(l)[1])
                    if i is not None and not isinstance(i, str):
                        s.add(('clean', i))
        return frozenset(s)

    propagate(f, frozenset(), transfer)
    rep.instance(rid)
    seen = sorted(set(bad))
    rep.oblige(rid, not seen, {'staging_buffer': B, 'size': N})
    if seen:
        rep.violation(rid, f, seen[0][0], 'stale:%s' % B,
                      '%s[%d] is read when a group is emitted although it may still hold a byte of the previous group (the buffer is '
                      'not re-zeroed between groups): the pad bits of a short final group are not zero' % (B, seen[0][1]))


def array_len_(t):
    from .expr import array_len
    return array_len(t)
