"""C09 rules: list ends used by queue / stack / grow (E1), end definitions of the list wrappers (E2),
byte-total pairing (E3), size-limit guard (E4)."""
from .frontend import walk, children, strip, strip_parens, qtype, Ext
from .expr import canon, access_path, int_value

LIST = 'src/containers/qlist.c'


def _list_calls(prog, f):
    """(method name, call) for calls through X->list->method, in f and in the static helpers of its unit it reaches"""
    out = []
    seen, work = {f.key}, [f]
    while work:
        g = work.pop()
        for x in walk(g.body):
            if x.get('kind') == 'CallExpr':
                c = strip(children(x)[0])
                if c.get('kind') == 'MemberExpr' and c.get('_field') and c['_field'][0] == 'qlist_s':
                    out.append((c.get('name'), x))
                else:
                    for h in prog.callees(g.unit, x):
                        if getattr(h, 'body', None) is not None and h.static and h.unit.rel == f.unit.rel and h.key not in seen:
                            seen.add(h.key)
                            work.append(h)
    return out


def _end_of(method):
    if method in ('addfirst', 'popfirst', 'getfirst', 'removefirst'):
        return 'head'
    if method in ('addlast', 'poplast', 'getlast', 'removelast'):
        return 'tail'
    return None


def rule_c09(prog, rep):
    rep.rule('E1', 'queue: every insert variant uses one list end and every remove/peek variant the opposite end; stack: the same end; '
                   'grow: appends at the tail and flattens head-to-tail')
    rep.rule('E2', 'the list\'s first/last wrappers are the index forms 0 and -1 of the *at operations')
    rep.rule('E3', 'the byte total moves with the element count: += the stored size on insert, -= the node\'s size on removal')
    rep.rule('E4', 'an insertion is linked in only after the size-limit and index-range refusals')
    for unit, kind in (('src/containers/qqueue.c', 'queue'), ('src/containers/qstack.c', 'stack'), ('src/containers/qgrow.c', 'grow')):
        prog.unit(unit)
        ins, outs = {}, {}
        for f in sorted(prog.funcs_in(unit), key=lambda x: x.line or 0):
            if f.static:
                continue
            for (m, call) in _list_calls(prog, f):
                e = _end_of(m)
                if m.startswith('add'):
                    ins[f.name] = (m, e)
                elif m.startswith(('pop', 'get', 'remove')) and not m.endswith('at') and m != 'getnext':
                    outs[f.name] = (m, e)
        rep.notes.setdefault('E1_ends', {})[kind] = {'insert': ins, 'remove_or_peek': outs}
        in_ends = {v[1] for v in ins.values()}
        out_ends = {v[1] for v in outs.values()}
        rep.instance('E1', len(ins) + len(outs))
        if kind == 'queue':
            ok = len(in_ends) == 1 and len(out_ends) == 1 and in_ends != out_ends and None not in in_ends | out_ends
            want = 'all inserts at one end, all removes/peeks at the opposite end (FIFO)'
        elif kind == 'stack':
            ok = len(in_ends) == 1 and in_ends == out_ends and None not in in_ends
            want = 'inserts and removes/peeks at the same end (LIFO)'
        else:
            ok = in_ends == {'tail'}
            want = 'every add variant appends at the tail'
        for _ in range(len(ins) + len(outs)):
            rep.oblige('E1', ok)
        rep.samples.append({'rule': 'E1', 'verdict': 'holds' if ok else 'VIOLATED', 'container': kind,
                            'insert_ends': sorted(map(str, in_ends)), 'remove_ends': sorted(map(str, out_ends))})
        if not ok:
            # name the deviating function
            import collections
            cnt = collections.Counter(v[1] for v in (ins if len(in_ends) > 1 else outs).values())
            minority = [k for k, v in (ins if len(in_ends) > 1 else outs).items() if v[1] == cnt.most_common()[-1][0]]
            g = prog.func(minority[0]) if minority else prog.funcs_in(unit)[0]
            rep.violation('E1', g, g.line, 'ends:%s' % kind,
                          '%s: insert ends %s (%s), remove/peek ends %s (%s); required: %s' % (
                              kind, sorted(map(str, in_ends)), {k: v[0] for k, v in ins.items()},
                              sorted(map(str, out_ends)), {k: v[0] for k, v in outs.items()}, want))
    # grow flattening direction: qlist_toarray / tostring start at first and follow next
    prog.unit(LIST)
    for nm in ('qlist_toarray', 'qlist_tostring'):
        f = prog.need_func(nm)
        rep.instance('E1')
        starts = [canon(children(x)[1]) for x in walk(f.body) if x.get('kind') == 'BinaryOperator' and x.get('opcode') == '='
                  and canon(children(x)[1]).endswith(('->first', '->last'))]
        from .expr import var_init as _vi
        starts += [canon(_vi(x)) for x in walk(f.body) if x.get('kind') == 'VarDecl' and _vi(x) is not None
                   and canon(_vi(x)).endswith(('->first', '->last'))]
        steps = [canon(children(x)[1]) for x in walk(f.body) if x.get('kind') == 'BinaryOperator' and x.get('opcode') == '='
                 and canon(children(x)[1]).endswith(('->next', '->prev'))]
        ok = bool(starts) and all(s.endswith('->first') for s in starts) and bool(steps) and all(s.endswith('->next') for s in steps)
        rep.oblige('E1', ok, {'function': nm, 'starts_at': starts, 'steps': steps})
        if not ok:
            rep.violation('E1', f, f.line, 'flatten-direction', '%s must walk from the first element following next links; found start %s, '
                          'step %s' % (nm, starts, steps))
    # ---- E2
    want = {'qlist_addfirst': ('qlist_addat', 0), 'qlist_addlast': ('qlist_addat', -1), 'qlist_getfirst': ('qlist_getat', 0),
            'qlist_getlast': ('qlist_getat', -1), 'qlist_popfirst': ('qlist_popat', 0), 'qlist_poplast': ('qlist_popat', -1),
            'qlist_removefirst': ('qlist_removeat', 0), 'qlist_removelast': ('qlist_removeat', -1)}
    for nm, (callee, idx) in want.items():
        f = prog.func(nm)
        if f is None:
            continue
        found = None
        for x in walk(f.body):
            if x.get('kind') == 'CallExpr':
                cands = [c.name for c in prog.callees(f.unit, x) if not isinstance(c, Ext)]
                if cands and len(children(x)) >= 3:
                    # the index is the argument right after the list
                    a = int_value(children(x)[2])
                    if isinstance(a, int):
                        found = (cands[0], a)
        if found is None:
            continue            # implemented directly on the end pointers, not as an index form: not decided by this clause
        rep.instance('E2')
        ok = found[1] == idx
        rep.oblige('E2', ok, {'function': nm, 'delegates_to': found})
        if not ok:
            rep.violation('E2', f, f.line, 'end:%s' % nm, '%s delegates to %s(list, %d, ...): the %s end is index %d'
                          % (nm, found[0], found[1], 'front' if idx == 0 else 'back', idx))
    # ---- E3
    for f in sorted(prog.funcs_in(LIST), key=lambda x: x.line or 0):
        numw = [x for x in walk(f.body) if x.get('kind') == 'UnaryOperator' and x.get('opcode') in ('++', '--')
                and canon(children(x)[0]).endswith('->num')]
        for x in numw:
            rep.instance('E3')
            op = '+=' if x.get('opcode') == '++' else '-='
            sums = [y for y in walk(f.body) if y.get('kind') == 'CompoundAssignOperator' and y.get('opcode') == op
                    and canon(children(y)[0]).endswith('->datasum')]
            ok = len(sums) == 1
            detail = canon(children(sums[0])[1]) if sums else None
            if ok and op == '-=':
                ok = detail.endswith('->size')
            if ok and op == '+=':
                # the added amount is what is recorded as the node's size
                rec = [canon(children(y)[1]) for y in walk(f.body) if y.get('kind') == 'BinaryOperator' and y.get('opcode') == '='
                       and canon(children(y)[0]).endswith('->size')]
                ok = detail in rec
            rep.oblige('E3', ok, {'function': f.name, 'count': canon(x), 'byte_total': detail})
            if not ok:
                rep.violation('E3', f, x.get('_line'), 'datasum:%s' % x.get('opcode'), '%s changes the element count (%s) but the byte total is '
                              'changed by %s: datasum no longer equals the sum of the element sizes' % (f.name, canon(x), detail))
    # ---- E3 (second clause): the recorded size of a linked element never changes behind the byte total's back
    from .dataflow import ReachingDefs, origins
    for f in sorted(prog.funcs_in(LIST), key=lambda x: x.line or 0):
        if f.body is None:
            continue
        rd = None
        for n in f.cfg.nodes:
            if not isinstance(n.ast, dict) or n.kind == 'macro':
                continue
            for x in walk(n.ast):
                if x.get('kind') not in ('BinaryOperator', 'CompoundAssignOperator') or not (x.get('opcode') or '').endswith('=') \
                        or x.get('opcode') in ('==', '!=', '<=', '>='):
                    continue
                l = strip(children(x)[0])
                if l.get('kind') != 'MemberExpr' or l.get('name') != 'size' or not l.get('isArrow'):
                    continue
                if 'qlist_obj' not in qtype(strip(children(l)[0])):
                    continue
                rd = rd or ReachingDefs(f)
                if n.id not in rd.IN:
                    continue
                tags = origins(rd, n.id, children(l)[0])
                fresh = all(t.startswith('fresh:') for t in tags)
                cursor = (not f.static) and all(t.startswith('param:') for t in tags)
                adjusts = any(y.get('kind') == 'CompoundAssignOperator' and canon(children(y)[0]).endswith('->datasum')
                              for y in walk(f.body))
                rep.instance('E3')
                ok = fresh or cursor or adjusts
                rep.oblige('E3', ok, {'function': f.name, 'store': canon(x)[:60], 'node': sorted(tags)})
                if not ok:
                    rep.violation('E3', f, x.get('_line'), 'size-store:%s' % canon(l), '%s changes the recorded size of an element that is '
                                  'linked in the list (%s) without adjusting the byte total: datasum no longer equals the sum of the '
                                  'element sizes' % (f.name, canon(x)[:60]))
    # ---- E6: the size limit is configuration: written by the constructor and by setsize only
    rep.rule('E6', 'the size limit (max) is written only by the constructor and by setsize - block fills (memset from a field '
                   'onwards) are followed through the record layout')
    order = []
    for u in prog.units:
        if 'qlist_s' in u.record_fields:
            order = [fl['name'] for fl in u.record_fields['qlist_s']]
            break
    for f in sorted(prog.funcs_in(LIST), key=lambda x: x.line or 0):
        if f.body is None:
            continue
        for x in walk(f.body):
            hit = None
            if x.get('kind') in ('BinaryOperator', 'CompoundAssignOperator') and (x.get('opcode') or '').endswith('=') \
                    and x.get('opcode') not in ('==', '!=', '<=', '>='):
                l = strip(children(x)[0])
                if l.get('kind') == 'MemberExpr' and l.get('name') == 'max' and (l.get('_field') or ('',))[0] == 'qlist_s':
                    hit = 'store'
            elif x.get('kind') == 'CallExpr' and (strip(children(x)[0]).get('referencedDecl') or {}).get('name') in ('memset', '__builtin_memset', 'memcpy', 'memmove'):
                d = strip(children(x)[1]) if len(children(x)) > 1 else {}
                if d.get('kind') == 'UnaryOperator' and d.get('opcode') == '&':
                    m = strip(children(d)[0])
                    if m.get('kind') == 'MemberExpr' and (m.get('_field') or ('',))[0] == 'qlist_s' and m.get('name') in order \
                            and 'max' in order and order.index(m.get('name')) <= order.index('max'):
                        n_ = int_value(children(x)[3]) if len(children(x)) > 3 else None
                        if not (isinstance(n_, int) and n_ <= 8 and m.get('name') != 'max'):
                            hit = 'block fill starting at %s' % m.get('name')
            if not hit:
                continue
            rep.instance('E6')
            ok = f.name in ('qlist', 'qlist_setsize')
            rep.oblige('E6', ok, {'function': f.name, 'line': x.get('_line'), 'write': hit})
            if not ok:
                rep.violation('E6', f, x.get('_line'), 'max-write:%s' % f.name, '%s overwrites the size limit (%s): a configured maximum '
                              'silently changes, later insertions beyond it are accepted' % (f.name, hit))
    # ---- E5: index -> node lookup: the scan starts only for 0 <= index < num
    rep.rule('E5', 'the index-to-node lookup starts its scan only under the must-facts 0 <= index < num (a negative index that is '
                   'still negative after adding num is refused; the signedness of each comparison is taken from its operand types)')
    from .index import Facts
    from .expr import var_init
    for f in sorted(prog.funcs_in(LIST), key=lambda x: x.line or 0):
        if f.body is None or 'qlist_obj' not in (f.rettype or '') or not f.rettype.rstrip().endswith('*'):
            continue
        ips = [p.get('name') for p in f.params if ((p.get('type') or {}).get('qualType') or '') in ('int', 'long', 'ssize_t')]
        if not ips:
            continue
        facts = Facts(f)
        numalias = set()
        for x in walk(f.body):
            if x.get('kind') == 'VarDecl' and var_init(x) is not None and canon(strip(var_init(x))).endswith('->num'):
                numalias.add(x.get('name'))
        for n in f.cfg.nodes:
            if not isinstance(n.ast, dict) or n.kind == 'macro':
                continue
            starts = [x for x in walk(n.ast) if x.get('kind') == 'MemberExpr' and x.get('name') in ('first', 'last')
                      and 'qlist_s' in str(x.get('_field') or '')]
            if not starts:
                continue
            st = facts.at(n)
            for ip in ips:
                rep.instance('E5')
                # the position may be held by the parameter itself or by a local computed from it
                cands = [ip] + [x.get('name') for x in walk(f.body) if x.get('kind') == 'VarDecl' and var_init(x) is not None
                                and any(y.get('kind') == 'DeclRefExpr' and (y.get('referencedDecl') or {}).get('name') == ip
                                        for y in walk(var_init(x)))]
                ok = False
                upper = lower = False
                for v in cands:
                    up = [ft for ft in st if ft[0] == v and ft[1] == '<' and (ft[2].endswith('->num') or ft[2] in numalias)]
                    lo = any(ft[3] == 'u' for ft in up) or any(
                        ft[0] == v and ((ft[1] == '>=' and ft[2] == '0') or (ft[1] == '>' and ft[2] == '-1')) for ft in st)
                    upper = upper or bool(up)
                    lower = lower or (bool(up) and lo)
                    if up and lo:
                        ok = True
                rep.oblige('E5', ok, {'function': f.name, 'line': starts[0].get('_line'), 'index': ip, 'position_candidates': cands,
                                      'facts': sorted('%s %s %s [%s]' % ft for ft in st if ft[0] in cands)[:6]})
                if not ok:
                    why = []
                    if not upper:
                        why.append('no must-fact %s < num' % ip)
                    if not lower:
                        why.append('no must-fact %s >= 0: the range test is carried out in a signed type, so an index that is still '
                                   'negative after the normalisation is accepted' % ip)
                    rep.violation('E5', f, starts[0].get('_line'), 'scan-start:%s' % ip,
                                  'the scan from list->%s starts with %s' % (starts[0].get('name'), '; '.join(why)))
    # ---- E4
    f = prog.need_func('qlist_addat')
    rep.instance('E4')
    inc = [n for n in f.cfg.nodes if isinstance(n.ast, dict) and n.kind == 'act' and any(
        x.get('kind') == 'UnaryOperator' and x.get('opcode') == '++' and canon(children(x)[0]).endswith('->num') for x in walk(n.ast))]
    # a compound test `a && b` / `a || b` is split into several condition nodes; the first of them dominates
    guards = [n for n in f.cfg.nodes if n.kind == 'cond' and isinstance(n.ast, dict) and '->max' in canon(n.ast)]
    full = [n for n in guards if '->num' in canon(n.ast)]
    rng = [n for n in f.cfg.nodes if n.kind == 'cond' and isinstance(n.ast, dict) and 'index' in canon(n.ast)
           and strip_parens(n.ast).get('opcode') in ('<', '>', '<=', '>=')]
    rfull = [n for n in rng if '->num' in canon(n.ast)]
    dom = f.cfg.dominators()
    ok = bool(inc) and bool(full) and bool(rfull) and all(any(g.id in dom[i.id] for g in guards) and any(g.id in dom[i.id] for g in rng) for i in inc)
    # exact limit: every path to the link-in either saw "no limit" (max > 0 false) or established num < max
    def establishes(n, lab):
        if n.kind != 'cond' or not isinstance(n.ast, dict):
            return False
        c = strip_parens(n.ast)
        if c.get('kind') != 'BinaryOperator':
            return False
        a, b = canon(children(c)[0]), canon(children(c)[1])
        op = c.get('opcode')
        if a.endswith('->max') and int_value(children(c)[1]) == 0 and op in ('>', '!='):
            return lab == 'F'                      # unlimited list
        if a.endswith('->max') and int_value(children(c)[1]) == 0 and op in ('==', '<='):
            return lab == 'T'
        if a.endswith('->num') and b.endswith('->max'):
            return (op == '>=' and lab == 'F') or (op == '<' and lab == 'T')
        if a.endswith('->max') and b.endswith('->num'):
            return (op == '<=' and lab == 'F') or (op == '>' and lab == 'T')
        return False
    if ok:
        seen = set()
        work = [f.cfg.entry]
        reach = False
        while work:
            m = work.pop()
            if m.id in seen:
                continue
            seen.add(m.id)
            if any(m is i for i in inc):
                reach = True
                break
            for (s2, lab) in m.succs:
                if establishes(m, lab):
                    continue
                work.append(s2)
        ok = not reach
    rep.oblige('E4', ok, {'limit_tests': [canon(g.ast) for g in guards], 'range_tests': [canon(g.ast)[:40] for g in rng]})
    if not ok:
        rep.violation('E4', f, f.line, 'limit', 'qlist_addat can link the element in on a path that neither saw max == 0 nor established '
                      'num < max (and passed the index-range test): the configured size limit is not enforced exactly')


# --------------------------------------------------------------------------------------
# E7: flatteners copy each element's recorded size (minus at most its final NUL)

def rule_e7(prog, rep, rid='E7'):
    """Concatenation (toarray / tostring behind qlist and qgrow): inside a loop that walks the chain (`obj = obj->next`) every
    copy out of an element's payload has a length that is the element's recorded size, or that size minus one (the final
    NUL of a string element), and the destination cursor advances by exactly the copied length.  A length computed from
    the element's CONTENT (strlen / strnlen of the payload) cuts elements with embedded NUL bytes and shifts everything
    after them."""
    from .dataflow import ReachingDefs, poly_of, Poly
    rep.rule(rid, 'in the chain-walking flatteners every copy out of an element takes the element\'s recorded size (or that size - 1) '
                  'and the output cursor advances by the copied length')
    prog.unit(LIST)
    # copy helpers: static h(d, s, n) { memcpy(d, s, n); return d + n; }  ->  name: (dst index, src index, length index)
    copy_helpers = {}
    for g in prog.funcs_in(LIST):
        if g.body is None or not g.static:
            continue
        pn = [p.get('name') for p in g.params]
        for y in walk(g.body):
            if y.get('kind') == 'CallExpr' and prog.callee_name(y) in ('memcpy', 'memmove') and len(children(y)) >= 4:
                a3 = [access_path(z) for z in children(y)[1:4]]
                if all(z in pn for z in a3) and len(set(a3)) == 3:
                    rets = [r for r in g.cfg.returns() if children(r.ast)]
                    if rets and all(canon(children(r.ast)[0]) in ('(%s + %s)' % (a3[0], a3[2]), '(%s + %s)' % (a3[2], a3[0])) for r in rets):
                        copy_helpers[g.name] = tuple(pn.index(z) for z in a3)
    rep.notes['copy_out_helpers'] = sorted(copy_helpers)
    for f in sorted(prog.funcs_in(LIST), key=lambda x: x.line or 0):
        if f.body is None:
            continue
        cfg = f.cfg
        rd = None
        for n in cfg.nodes:
            if n.id not in cfg.reachable or not isinstance(n.ast, dict) or n.kind == 'macro':
                continue
            for x in walk(n.ast):
                if x.get('kind') != 'CallExpr' or len(children(x)) < 4:
                    continue
                helper_adv = False
                if prog.callee_name(x) in ('memcpy', 'memmove'):
                    dst, src, ln = children(x)[1:4]
                elif prog.callee_name(x) in copy_helpers:
                    di, si, ni = copy_helpers[prog.callee_name(x)]
                    a_ = children(x)[1:]
                    dst, src, ln = a_[di], a_[si], a_[ni]
                    helper_adv = True
                else:
                    continue
                ss = strip(src)
                if not (ss.get('kind') == 'MemberExpr' and ss.get('name') == 'data' and ss.get('isArrow')):
                    continue
                elem = canon(children(ss)[0])
                # the walk: the element variable is advanced through ->next in a loop of this function
                walks = any(y.get('kind') == 'BinaryOperator' and y.get('opcode') == '=' and canon(children(y)[0]) == elem
                            and canon(children(y)[1]) in (elem + '->next', elem + '->prev') for y in walk(f.body))
                dsts = strip(dst)
                if not walks or dsts.get('kind') != 'DeclRefExpr':
                    continue
                rep.instance(rid)
                if rd is None:
                    rd = ReachingDefs(f)
                size_atom = Poly.atom(elem + '->size')
                ok, why = True, ''
                # every reaching definition of the length: elem->size + c, c in {0, -1}
                forms = []
                ls = strip(ln)
                if ls.get('kind') == 'DeclRefExpr' and (ls.get('_ref') or ('',))[0] == 'local':
                    for d in rd.reaching(n.id, ls['_ref'][1]):
                        if d.kind in ('init', 'assign') and d.rhs is not None:
                            forms.append((poly_of(d.rhs), d.line))
                        elif d.kind == 'update' and d.rhs is not None:
                            r = strip(d.rhs)
                            step = None
                            if r.get('kind') == 'CompoundAssignOperator' and r.get('opcode') in ('-=', '+=') and int_value(children(r)[1]) is not None:
                                step = int_value(children(r)[1]) * (-1 if r['opcode'] == '-=' else 1)
                            elif r.get('kind') == 'UnaryOperator' and r.get('opcode') in ('--', '++'):
                                step = -1 if r['opcode'] == '--' else 1
                            if step is None:
                                forms.append((None, d.line))
                            else:
                                # the value before the update: the initial definition(s) of the same variable in this function
                                base = [poly_of(d2.rhs) for d2 in rd.defs if d2.var == d.var and d2.kind in ('init', 'assign') and d2.rhs is not None]
                                for b in base:
                                    forms.append((b + Poly.const(step), d.line))
                                if not base:
                                    forms.append((None, d.line))
                        else:
                            forms.append((None, d.line))
                else:
                    forms.append((poly_of(ln), x.get('_line')))
                import re as _re
                for (p_, line) in forms:
                    c = (p_ - size_atom).as_const() if p_ is not None else None
                    if c is None and p_ is not None:
                        d_ = (p_ - size_atom).t
                        # size - (boolean expression): the truth value of a comparison is 0 or 1
                        if len(d_) == 1 and list(d_.values()) == [-1] and len(list(d_)[0]) == 1 and \
                                _re.match(r'^\(.* (==|!=) .*\)$', list(d_)[0][0]):
                            c = -1
                    if c not in (0, -1):
                        ok, why = False, 'the length defined at line %s is %s, not %s->size or %s->size - 1' % (
                            line, 'not a closed form' if p_ is None else repr(p_), elem, elem)
                        break
                # the cursor advances by the copied length
                if ok:
                    dname = canon(dsts)
                    adv = [y for y in walk(f.body) if y.get('kind') == 'CompoundAssignOperator' and y.get('opcode') == '+='
                           and canon(children(y)[0]) == dname]
                    if helper_adv:
                        # dp = helper(dp, ...): the helper returns its destination advanced by the copied length
                        adv = []
                        if not any(y.get('kind') == 'BinaryOperator' and y.get('opcode') == '=' and canon(children(y)[0]) == dname
                                   and strip(children(y)[1]) is x for y in walk(n.ast)):
                            ok, why = False, 'the advanced cursor returned by %s() is not stored back to %s' % (prog.callee_name(x), dname)
                    if adv and not any(canon(children(y)[1]) == canon(ln) for y in adv):
                        ok, why = False, 'the output cursor %s advances by %s, not by the copied length %s' % (
                            dname, canon(children(adv[0])[1]), canon(ln))
                rep.oblige(rid, ok, {'function': f.name, 'copy': canon(x)[:70]})
                if not ok:
                    rep.violation(rid, f, x.get('_line'), 'flatten:%s' % canon(ln)[:20],
                                  '%s: %s - %s; elements with embedded or leading NUL bytes are cut and every later element shifts'
                                  % (f.name, canon(x)[:60], why))


# --------------------------------------------------------------------------------------
# E8: derived position state is invalidated by every operation that re-links the chain

def rule_e8(prog, rep, units=None, rid='E8'):
    """A field of the container record that holds a node pointer and is assigned in a function that does not write any node
    link (a lookup remembering where it was: a cursor cache) is derived state.  Every function that writes a node's
    next/prev link or an end pointer of the chain must, on every path from such a write to its exit, assign that field
    again (reset or update) - otherwise the remembered position/index describes the chain as it was."""
    rep.rule(rid, 'a remembered position (a node-pointer field of the container assigned by a function that re-links nothing) is '
                  're-assigned on every path after any write to a chain link or end pointer')
    for unit in (units or [LIST]):
        prog.unit(unit)
        funcs = [f for f in prog.funcs_in(unit) if f.body is not None]

        def link_write(y):
            if y.get('kind') == 'BinaryOperator' and y.get('opcode') == '=':
                l = strip(children(y)[0])
                return l.get('kind') == 'MemberExpr' and l.get('name') in ('next', 'prev', 'first', 'last') and l.get('_field')
            return False
        # node record type = type of ->next fields
        nodetypes = {x['_field'][0] for f in funcs for x in walk(f.body)
                     if x.get('kind') == 'MemberExpr' and x.get('name') in ('next', 'prev') and x.get('_field')}
        # candidate cache fields: container-record fields of node-pointer type other than those the re-linking functions own
        assigned = {}      # (record, field) -> set of functions assigning a non-NULL value
        for f in funcs:
            for y in walk(f.body):
                if y.get('kind') == 'BinaryOperator' and y.get('opcode') == '=':
                    l = strip(children(y)[0])
                    if l.get('kind') == 'MemberExpr' and l.get('_field') and l['_field'][0] not in nodetypes:
                        t = (qtype(l) or '')
                        if t.rstrip().endswith('*'):
                            rt = f.unit.resolve_typedef(t.replace('*', '').replace('const', '').replace('struct', '').strip())[0]
                            if rt in nodetypes and l.get('name') not in ('first', 'last'):
                                from .expr import is_null
                                if not is_null(children(y)[1]):
                                    assigned.setdefault((l['_field'][0], l.get('name')), set()).add(f.name)
        def chain_write(f, y):
            """a write that re-links the chain: an end pointer, or a non-NULL next/prev of a node that is (or becomes) part of it"""
            if not link_write(y):
                return False
            from .expr import is_null
            l = strip(children(y)[0])
            if l.get('name') in ('next', 'prev'):
                if is_null(children(y)[1]):
                    return False                 # initialisation of a fresh node / detaching: the real re-link writes an end pointer or a neighbour
                b = strip(children(l)[0])
                if b.get('kind') == 'DeclRefExpr' and (b.get('_ref') or ('',))[0] == 'param':
                    pn = canon(b)
                    stored = any(z.get('kind') == 'BinaryOperator' and z.get('opcode') == '=' and canon(children(z)[1]) == pn
                                 and strip(children(z)[0]).get('kind') == 'MemberExpr' for z in walk(f.body))
                    if not stored:
                        return False             # the caller's cursor object, never linked in
            return True
        relinkers = {f.name for f in funcs if any(chain_write(f, y) for y in walk(f.body))}
        caches = {k for k, fs in assigned.items() if fs - relinkers}
        rep.notes.setdefault('position_cache_fields', {})[unit] = sorted('%s.%s' % k for k in caches)
        for (rec, fld) in sorted(caches):
            setters = set(assigned[(rec, fld)])
            changed = True
            while changed:
                changed = False
                for f in funcs:
                    if f.name not in setters and any(y.get('kind') == 'CallExpr' and prog.callee_name(y) in setters for y in walk(f.body)):
                        setters.add(f.name)
                        changed = True
            for f in sorted(funcs, key=lambda x: x.line or 0):
                if f.name not in relinkers:
                    continue
                cfg = f.cfg
                rep.instance(rid)

                def events(m):
                    out = []
                    if not isinstance(m.ast, dict) or m.kind == 'macro':
                        return out
                    from .expr import is_null
                    from .own import node_events
                    for ev in node_events(m):
                        if ev[0] == 'assign':
                            l = strip(ev[1])
                            if l.get('kind') == 'MemberExpr' and l.get('name') == fld and (l.get('_field') or ('',))[0] == rec:
                                out.append('RESET' if is_null(ev[2]) else 'SET')
                            elif chain_write(f, ev[3]):
                                out.append('LINK')
                        elif ev[0] == 'call' and prog.callee_name(ev[1]) in setters and prog.callee_name(ev[1]) != f.name:
                            out.append('SET')
                    return out
                IN = {cfg.entry.id: frozenset('V')}
                work = [cfg.entry]
                firstlink = {}
                while work:
                    m = work.pop()
                    st = set(IN[m.id])
                    for e in events(m):
                        if e == 'SET':
                            st = {'V'}
                        elif e == 'RESET':
                            st = {'I'}
                        elif e == 'LINK' and 'V' in st:
                            st.discard('V')
                            st.add('S')
                            firstlink.setdefault('line', m.line)
                    st = frozenset(st)
                    for (s2, _l) in m.succs:
                        old = IN.get(s2.id)
                        if old is None:
                            IN[s2.id] = st
                            work.append(s2)
                        elif not st <= old:
                            IN[s2.id] = old | st
                            work.append(s2)
                bad = 'S' in IN.get(cfg.exit.id, frozenset())
                rep.oblige(rid, not bad, {'function': f.name, 'cache_field': '%s.%s' % (rec, fld)})
                if bad:
                    rep.violation(rid, f, firstlink.get('line') or f.line, 'stale:%s' % fld,
                                  '%s re-links the chain (line %s) and can return with the remembered position %s.%s still describing the old '
                                  'order (neither reset nor re-established afterwards): the next index lookup starts from a stale node/index pair'
                                  % (f.name, firstlink.get('line'), rec, fld))
